//! C05 — bytes put on a connection are always whole frames, never torn or interleaved.
//!
//! Scripted raw peers record the RAW bytes (TCP) / messages (WebSocket) written by six endpoints:
//! repe::Client, repe::AsyncClient, repe::WebSocketClient, repe::Server, repe::AsyncServer,
//! repe::websocket_server::WebSocketServer (responses and handler-pushed notifies), under up to 32
//! concurrent writers, payload sizes straddling every internal buffer, peers that stall reading at
//! seeded points, configured write timeouts, and calls aborted mid-send. After an interruption the
//! peer drains and the harness issues FURTHER traffic on the same endpoint.
//!
//! Oracle (c05_oracle.rs): independent sequential walk of the recorded stream: it must be
//! `frame* · optional strict prefix of ONE attempted frame` with nothing after the partial frame;
//! every complete frame byte-equal to exactly one submitted message (body = f(token, offset));
//! conservation (every send that reported success is on the wire exactly once); every WebSocket
//! binary message exactly one complete frame.
//!
//! The batch entry points (batch_json / batch_json_with_timeout) are a send API of their own: c05_scen_batch.rs.
//!
//! Stages: "main" (all lanes). An extra positional argument filters scenarios by name substring.

#[cfg(not(feature = "net"))]
use crate::common::*;

#[cfg(not(feature = "net"))]
pub fn run(args: &Args) -> Report {
    let mut rep = Report::new(args, "c05-needs-net", "socket endpoints are not built without the `net` feature");
    rep.inconclusive("C05 needs real sockets (feature `net`); not runnable in this build");
    rep
}

#[cfg(feature = "net")]
#[path = "c05_oracle.rs"]
mod c05_oracle;
#[cfg(feature = "net")]
#[path = "c05_peers.rs"]
mod c05_peers;
#[cfg(feature = "net")]
#[path = "c05_scen_cli.rs"]
mod c05_scen_cli;
#[cfg(feature = "net")]
#[path = "c05_scen_srv.rs"]
mod c05_scen_srv;
#[cfg(feature = "net")]
#[path = "c05_scen_batch.rs"]
mod c05_scen_batch;

#[cfg(feature = "net")]
pub use imp::run;

#[cfg(feature = "net")]
mod imp {
    use super::c05_oracle::{Book, Tail, walk};
    use super::c05_peers::{End, Record, WsItem};
    use super::{c05_scen_batch as batch, c05_scen_cli as cli, c05_scen_srv as srv};
    use crate::common::*;
    use serde_json::{Value, json};
    use std::collections::{BTreeMap, HashMap};
    use std::sync::Mutex;

    pub struct Cx<'a> {
        pub thorough: bool,
        pub rt: &'a tokio::runtime::Runtime,
        pub seed: u64,
    }

    /// What one connection of a scenario produced.
    pub struct ConnOut {
        pub label: String,
        pub book: Book,
        /// tokens whose send reported success (clients) / whose response is owed (healthy servers)
        pub must_see: Vec<u64>,
        pub record: Record,
        pub end: End,
        /// token of the message whose write the scenario interrupted on purpose (if any)
        pub victim: Option<u64>,
    }

    pub struct ScenarioOut {
        pub endpoint: &'static str,
        /// fault injected: none | stall | write_timeout | cancel_mid_send
        pub cause: &'static str,
        pub name: String,
        pub params: Value,
        pub conns: Vec<ConnOut>,
        /// Some(true/false): the injected interruption did / did not take effect (event evidence)
        pub fault_triggered: Option<bool>,
        pub trouble: Vec<String>,
        pub ops_ok: u64,
        pub ops_err: u64,
        pub err_samples: Vec<String>,
        pub further_ok: u64,
        pub further_err: u64,
        pub ident: u64,
        pub med: Option<MedEvidence>,
        /// Some: the scenario sends through the batch entry points (batch_json / batch_json_with_timeout); what it observed
        pub batch: Option<BatchEvidence>,
        /// Some(s): `s` is the variant suffix of the class and of the signature site instead of the default (":batch" / ".batch" for
        /// scenarios with batch evidence)
        pub sig_site: Option<&'static str>,
    }

    /// Evidence counters of a scenario that uses the batch entry points as a way of sending.
    #[derive(Default, Clone)]
    pub struct BatchEvidence {
        pub counters: BTreeMap<String, u64>,
    }

    impl BatchEvidence {
        pub fn add(&mut self, k: &str, n: u64) {
            *self.counters.entry(k.to_string()).or_default() += n;
        }
        pub fn add_owned(&mut self, k: String, n: u64) {
            *self.counters.entry(k).or_default() += n;
        }
        pub fn merge(&mut self, o: &BatchEvidence) {
            for (k, v) in &o.counters {
                *self.counters.entry(k.clone()).or_default() += v;
            }
        }
    }

    impl ScenarioOut {
        pub fn new(endpoint: &'static str, cause: &'static str, name: &str) -> ScenarioOut {
            ScenarioOut {
                endpoint,
                cause,
                name: name.to_string(),
                params: json!({}),
                conns: vec![],
                fault_triggered: None,
                trouble: vec![],
                ops_ok: 0,
                ops_err: 0,
                err_samples: vec![],
                further_ok: 0,
                further_err: 0,
                ident: 0,
                med: None,
                batch: None,
                sig_site: None,
            }
        }
        pub fn note_result(&mut self, r: &Result<(), String>) {
            match r {
                Ok(()) => self.ops_ok += 1,
                Err(e) => {
                    self.ops_err += 1;
                    if self.err_samples.len() < 4 {
                        self.err_samples.push(trunc(e, 120));
                    }
                }
            }
        }
    }

    #[derive(Clone, Debug)]
    pub struct Op {
        pub token: u64,
        pub notify: bool,
        pub len: usize,
        /// extra query bytes appended to `path_of(token)` (medium-frame streams vary the query length)
        pub qpad: usize,
        /// which client entry point sends it: 0 = *_with_formats (raw body), 1 = call_typed_slice::<u8> (the body on the wire
        /// is the BEVE typed-array header followed by the same pattern bytes; TCP clients, calls only)
        pub api: u8,
    }

    /// BEVE typed-array header for `n` u8 elements (tag byte + compressed size), written out independently of the library.
    pub fn u8_array_prefix(n: usize) -> Vec<u8> {
        let mut v = vec![u8_array_tag()];
        let n = n as u64;
        if n < 64 {
            v.push((n << 2) as u8);
        } else if n < 16384 {
            v.extend_from_slice(&(((n << 2) | 1) as u16).to_le_bytes());
        } else if n < (1 << 30) {
            v.extend_from_slice(&(((n << 2) | 2) as u32).to_le_bytes());
        } else {
            v.extend_from_slice(&((n << 2) | 3).to_le_bytes());
        }
        v
    }
    fn u8_array_tag() -> u8 {
        // typed array (type 4), unsigned integer class (2 << 3), byte-count exponent 0 (1 byte): 0b000_10_100
        0b0001_0100
    }
    /// Anchor the hand-written header on the library's own encoder for one length per size class.
    pub fn u8_array_prefix_self_check() -> Result<(), String> {
        for n in [0usize, 1, 63, 64, 16383, 16384, 70000] {
            let data = vec![0xA5u8; n];
            let body = repe::Message::builder().body_typed_slice(&data).build().body;
            let mut want = u8_array_prefix(n);
            want.extend_from_slice(&data);
            if body != want {
                return Err(format!("BEVE u8 array header for {n} elements: harness {:02x?} vs library {:02x?}", &want[..want.len().min(10)], &body[..body.len().min(10)]));
            }
        }
        Ok(())
    }

    pub fn path_of(token: u64) -> String {
        format!("/c05/{token:x}")
    }

    /// Query of an operation: `path_of(token)` plus `qpad` padding bytes ("/pppp...").
    pub fn path_of_op(op: &Op) -> String {
        let mut p = path_of(op.token);
        if op.qpad > 0 {
            p.push('/');
            for _ in 1..op.qpad {
                p.push('p');
            }
        }
        p
    }

    /// The 48 values of query+body for which a frame is one byte to 48 bytes larger than the 8 KiB
    /// BufWriter (header + query are flushed on their own from inside `write_all(body)`).
    pub const WINDOW: std::ops::RangeInclusive<usize> = 8145..=8192;

    /// query+body sums for a back-to-back stream of `n` MEDIUM frames: a seeded permutation of the
    /// 48-value window cycled densely (70 %), seeded permutations of 8100..=8144 (14 %) and 8193..=8300
    /// (9 %) cycled, and buffer-boundary specials (4 KiB, 8 KiB, 16 KiB ± 1 as whole frame and as
    /// query+body; 7 %). Whole-frame sizes are these + 48, so 8148..8348 is covered as well.
    pub fn med_sums(rng: &mut Rng, n: usize) -> Vec<usize> {
        let mut win: Vec<usize> = WINDOW.collect();
        rng.shuffle(&mut win);
        let mut below: Vec<usize> = (8100..=8144).collect();
        rng.shuffle(&mut below);
        let mut above: Vec<usize> = (8193..=8300).collect();
        rng.shuffle(&mut above);
        const SPECIAL: [usize; 18] = [4047, 4048, 4049, 4095, 4096, 4097, 8143, 8144, 8145, 8191, 8192, 8193, 16335, 16336, 16337, 16383, 16384, 16385];
        let (mut wi, mut bi, mut ai) = (rng.usize_below(48), rng.usize_below(45), rng.usize_below(108));
        (0..n)
            .map(|_| {
                let c = rng.below(100);
                if c < 70 {
                    wi += 1;
                    win[wi % win.len()]
                } else if c < 84 {
                    bi += 1;
                    below[bi % below.len()]
                } else if c < 93 {
                    ai += 1;
                    above[ai % above.len()]
                } else {
                    *rng.pick(&SPECIAL)
                }
            })
            .collect()
    }

    /// Split a query+body sum into (query length, body length): short natural query (40 %), a few hundred
    /// bytes (15 %), 1000..4000 bytes (45 %: makes the separately flushed header+query a large part of the frame).
    pub fn med_split(rng: &mut Rng, sum: usize, min_q: usize) -> (usize, usize) {
        let c = rng.below(100);
        let q = if c < 40 {
            min_q
        } else if c < 55 {
            min_q + 1 + rng.usize_below(300)
        } else {
            1000 + rng.usize_below(3001)
        };
        let q = q.max(min_q).min(sum);
        (q, sum - q)
    }

    /// Evidence of one medium-frame stream scenario.
    #[derive(Default, Clone)]
    pub struct MedEvidence {
        /// frames submitted back-to-back before the first interruption
        pub frames_before_interruption: u64,
        /// query+body of every frame whose write was interrupted (timed out / cancelled / never completed)
        pub interrupted_sums: Vec<usize>,
        /// query+body of every frame submitted while the peer was stalled
        pub stream_sums: Vec<usize>,
        /// sends attempted after the first interruption while the peer was still stalled
        pub sends_after_first_interruption: u64,
    }

    const EDGE: [usize; 27] = [
        0, 1, 2, 47, 48, 49, 255, 256, 4095, 4096, 4097, 8143, 8144, 8145, 8190, 8191, 8192, 8193, 8194, 16383, 16384, 16385, 65535, 65536, 65537, 131072, 262143,
    ];

    /// Body length from classes straddling 0, the 8 KiB BufWriter capacity (body and whole frame),
    /// 64 KiB, 1 MiB, 4 MiB (quick) / 32 MiB (thorough); bounded by the scenario byte budget.
    pub fn pick_len(rng: &mut Rng, qlen: usize, left: &mut usize, thorough: bool) -> usize {
        let c = rng.below(100);
        let mut len = if c < 32 {
            *rng.pick(&EDGE)
        } else if c < 47 {
            // whole frame (48 + query + body) lands on a buffer boundary ± 1
            let t = *rng.pick(&[8191usize, 8192, 8193, 16384, 65536, 65537]);
            t.saturating_sub(48 + qlen)
        } else if c < 67 {
            rng.usize_below(20_000)
        } else if c < 82 {
            65_536 + rng.usize_below(200_000)
        } else if c < 93 {
            (1 << 20) + rng.usize_below(3) - 1
        } else if thorough && c >= 97 {
            *rng.pick(&[(16usize << 20) + 1, 32 << 20, (32 << 20) - 1])
        } else {
            (4 << 20) + rng.usize_below(3) - 1
        };
        if len > *left {
            len = *rng.pick(&EDGE[..19]);
        }
        *left = left.saturating_sub(len);
        len
    }

    pub fn size_class(len: usize) -> u8 {
        match len {
            0 => 0,
            1..=8000 => 1,
            8001..=8400 => 2,
            8401..=65000 => 3,
            65001..=66000 => 4,
            66001..=1_000_000 => 5,
            1_000_001..=1_100_000 => 6,
            1_100_001..=5_000_000 => 7,
            _ => 8,
        }
    }

    #[derive(Default)]
    struct Tally {
        counters: BTreeMap<String, u64>,
        per_class: BTreeMap<String, (u64, u64, u64)>, // (run, fault triggered, failed-connection-as-required)
        trouble: Vec<String>,
        size_classes_seen: [u64; 9],
        walls: Vec<(String, u64)>,
        med_interrupted: std::collections::BTreeSet<usize>,
        med_stream: std::collections::BTreeSet<usize>,
    }

    fn judge(rep: &mut Report, t: &mut Tally, cx: &Cx, lane: &str, idx: usize, out: ScenarioOut) {
        rep.eval();
        let class = if out.med.is_some() {
            format!("{}:{}:medium_stream", out.endpoint, out.cause)
        } else if let Some(site) = out.sig_site {
            format!("{}:{}{}", out.endpoint, out.cause, site)
        } else if out.batch.is_some() {
            format!("{}:{}:batch", out.endpoint, out.cause)
        } else {
            format!("{}:{}", out.endpoint, out.cause)
        };
        if let Some(b) = &out.batch {
            *t.counters.entry(if out.sig_site.is_some() { "call_timeout_scenarios" } else { "batch_scenarios" }.into()).or_default() += 1;
            for (k, v) in &b.counters {
                *t.counters.entry(if k.starts_with("batch") || k.starts_with("call_timeout") { k.clone() } else { format!("batch_{k}") }).or_default() += v;
            }
        }
        if let Some(m) = &out.med {
            *t.counters.entry("medium_stream_scenarios".into()).or_default() += 1;
            *t.counters.entry("medium_stream_frames_submitted_to_stalled_peer".into()).or_default() += m.stream_sums.len() as u64;
            *t.counters.entry("medium_stream_frames_before_first_interruption".into()).or_default() += m.frames_before_interruption;
            *t.counters.entry("medium_stream_interrupted_frames".into()).or_default() += m.interrupted_sums.len() as u64;
            *t.counters.entry("medium_stream_interrupted_frames_in_8145_8192_window".into()).or_default() += m.interrupted_sums.iter().filter(|s| WINDOW.contains(s)).count() as u64;
            *t.counters.entry("medium_stream_sends_after_first_interruption_while_stalled".into()).or_default() += m.sends_after_first_interruption;
            t.med_interrupted.extend(m.interrupted_sums.iter().copied());
            t.med_stream.extend(m.stream_sums.iter().copied());
        }
        let entry = t.per_class.entry(class.clone()).or_default();
        entry.0 += 1;
        if out.fault_triggered == Some(true) {
            entry.1 += 1;
        }
        *t.counters.entry("ops_returned_ok".into()).or_default() += out.ops_ok;
        *t.counters.entry("ops_returned_err".into()).or_default() += out.ops_err;
        *t.counters.entry("further_ops_after_interruption_ok".into()).or_default() += out.further_ok;
        *t.counters.entry("further_ops_after_interruption_err".into()).or_default() += out.further_err;
        rep.distinct(&(out.endpoint, out.cause, out.ident));
        let replay = json!({"seed": cx.seed, "tier": if cx.thorough {"thorough"} else {"quick"}, "lane": lane, "scenario_index": idx, "scenario": out.name, "params": out.params});
        for tr in &out.trouble {
            if t.trouble.len() < 30 {
                t.trouble.push(format!("{}[{}]: {}", out.name, idx, trunc(tr, 200)));
            }
            *t.counters.entry("harness_trouble".into()).or_default() += 1;
        }
        if out.cause == "none" || out.cause == "stall" {
            if out.ops_err > 0 {
                // nothing was injected that may fail an operation: not a C05 verdict, but say so
                if t.trouble.len() < 30 {
                    t.trouble.push(format!("{}[{}]: {} operation(s) failed without an injected fault: {:?}", out.name, idx, out.ops_err, out.err_samples));
                }
                *t.counters.entry("unexpected_op_errors".into()).or_default() += out.ops_err;
            }
        }
        let mut any_violation = false;
        let mut conn_failed_as_required = false;
        let nconns = out.conns.len();
        for c in out.conns {
            // scenarios that send through the batch entry points get a site of their own
            let sig = |class: &str| format!("C05:{class}:{}:{}{}", out.endpoint, out.cause, out.sig_site.unwrap_or(if out.batch.is_some() { ".batch" } else { "" }));
            let mut seen_tokens: HashMap<u64, usize> = HashMap::new();
            let mut tail_token: Option<u64> = None;
            let mut tail_desc = String::new();
            let mut viol = None;
            match &c.record {
                Record::Stream(bytes) => {
                    *t.counters.entry("tcp_bytes_recorded".into()).or_default() += bytes.len() as u64;
                    let w = walk(bytes, &c.book);
                    *t.counters.entry("frames_verified_byte_exact".into()).or_default() += w.seen.len() as u64;
                    for s in &w.seen {
                        *seen_tokens.entry(s.token).or_default() += 1;
                        t.size_classes_seen[size_class(s.len.saturating_sub(60)) as usize] += 1;
                    }
                    if let Tail::Partial { at, have, need, token } = &w.tail {
                        *t.counters.entry("streams_ending_in_a_partial_frame".into()).or_default() += 1;
                        tail_token = *token;
                        tail_desc = format!("stream ends at offset {} inside a frame: {have} of {need:?} bytes (token {token:?})", at + have);
                        if out.cause == "none" || out.cause == "stall" {
                            // no interruption was injected; only a conservation failure below makes this a verdict
                            *t.counters.entry("partial_tail_without_injected_fault".into()).or_default() += 1;
                        }
                    }
                    viol = w.viol.map(|v| (v.class.to_string(), v.detail));
                }
                Record::Msgs(items) => {
                    for (i, it) in items.iter().enumerate() {
                        match it {
                            WsItem::Other(d) => {
                                viol = Some(("ws-non-binary-message".to_string(), format!("message #{i} is not binary: {d}")));
                                break;
                            }
                            WsItem::Bin(p) => {
                                *t.counters.entry("ws_messages_recorded".into()).or_default() += 1;
                                *t.counters.entry("ws_payload_bytes_recorded".into()).or_default() += p.len() as u64;
                                let w = walk(p, &c.book);
                                if let Some(v) = w.viol {
                                    viol = Some((format!("ws-message-{}", v.class), format!("binary message #{i} ({} bytes): {}", p.len(), v.detail)));
                                    break;
                                }
                                if w.seen.len() != 1 || !matches!(w.tail, Tail::Clean) {
                                    viol = Some((
                                        "ws-message-not-one-frame".to_string(),
                                        format!("binary message #{i} ({} bytes) holds {} complete frame(s) and tail {:?}; it must be exactly one complete frame", p.len(), w.seen.len(), w.tail),
                                    ));
                                    break;
                                }
                                *t.counters.entry("frames_verified_byte_exact".into()).or_default() += 1;
                                *seen_tokens.entry(w.seen[0].token).or_default() += 1;
                                t.size_classes_seen[size_class(p.len().saturating_sub(60)) as usize] += 1;
                            }
                        }
                    }
                }
            }
            if viol.is_none() {
                if let End::CorruptWsStream(what) = &c.end {
                    viol = Some(("ws-stream-not-messages".to_string(), format!("after {} recorded message(s) the peer's WebSocket parser hit `{what}`: what the endpoint wrote is not a sequence of whole WebSocket messages", seen_tokens.len())));
                }
            }
            if let Some((class, detail)) = viol {
                any_violation = true;
                rep.violation(sig(&class), format!("[{} / {}] {detail}; peer recording ended with {:?}", out.name, c.label, c.end), replay.clone());
                continue;
            }
            if let Some((tok, n)) = seen_tokens.iter().find(|(_, n)| **n > 1) {
                any_violation = true;
                rep.violation(sig("duplicate-frame"), format!("[{} / {}] message token {tok:#x} is on the wire {n} times", out.name, c.label), replay.clone());
                continue;
            }
            // conservation: every send that reported success must be on the wire, whole
            let missing: Vec<u64> = c.must_see.iter().copied().filter(|tk| !seen_tokens.contains_key(tk)).collect();
            *t.counters.entry("sends_reported_success".into()).or_default() += c.must_see.len() as u64;
            *t.counters.entry("frames_of_failed_or_interrupted_sends_still_whole_on_wire".into()).or_default() +=
                seen_tokens.keys().filter(|k| !c.must_see.contains(k)).count() as u64;
            if !missing.is_empty() {
                if c.end.clean() {
                    any_violation = true;
                    let m0 = missing[0];
                    let what = c.book.by_query.values().chain(c.book.by_id.values()).find(|e| e.token == m0).map(|e| format!("{} ({} body bytes)", e.kind, e.body_len)).unwrap_or_default();
                    rep.violation(
                        sig("lost-frame"),
                        format!(
                            "[{} / {}] {} send(s) reported success but their frames are not whole on the wire, first token {m0:#x} {what}{}; {}; recording ended with {:?} after {} verified frames",
                            out.name,
                            c.label,
                            missing.len(),
                            if tail_token == Some(m0) { " (it is the partial frame at the end of the stream)" } else { "" },
                            if tail_desc.is_empty() { "stream ends on a frame boundary".to_string() } else { tail_desc.clone() },
                            c.end,
                            seen_tokens.len()
                        ),
                        replay.clone(),
                    );
                } else {
                    *t.counters.entry("conservation_unchecked_recording_ended_abnormally".into()).or_default() += 1;
                    if t.trouble.len() < 30 {
                        t.trouble.push(format!("{}[{}] {}: conservation not decided, recording ended with {:?}", out.name, idx, c.label, c.end));
                    }
                }
            }
            // (batch histories run several independent connections and name a victim only where the interruption took effect)
            if out.fault_triggered == Some(true) && c.victim.is_some() && !seen_tokens.contains_key(&c.victim.unwrap()) && (nconns == 1 || out.batch.is_some()) {
                // legal outcome: the interrupted frame is the (possibly empty) tail and nothing follows
                conn_failed_as_required = true;
            }
        }
        if any_violation {
            *t.counters.entry("scenarios_with_violation".into()).or_default() += 1;
        } else {
            *t.counters.entry("scenarios_clean".into()).or_default() += 1;
            if conn_failed_as_required {
                t.per_class.get_mut(&class).unwrap().2 += 1;
            }
        }
    }

    struct Lane {
        name: &'static str,
        scenarios: Vec<(&'static str, Box<dyn Fn(&Cx, &mut Rng) -> ScenarioOut + Send + Sync>)>,
    }

    fn lanes() -> Vec<Lane> {
        use cli::AKind::*;
        use srv::{Mode, SrvKind};
        macro_rules! sc {
            ($n:expr, |$c:ident, $r:ident| $e:expr) => {
                ($n, Box::new(|$c: &Cx, $r: &mut Rng| -> ScenarioOut { $e }) as Box<dyn Fn(&Cx, &mut Rng) -> ScenarioOut + Send + Sync>)
            };
        }
        vec![
            Lane {
                name: "blocking",
                scenarios: vec![
                    sc!("client.healthy.32writers", |c, r| cli::client_concurrent(c, r, false, Some(32))),
                    sc!("client.write_timeout.a", |c, r| cli::client_write_timeout(c, r)),
                    sc!("server.healthy.a", |c, r| srv::tcp_server(c, r, SrvKind::Blocking, Mode::Healthy)),
                    sc!("client.stall.a", |c, r| cli::client_concurrent(c, r, true, None)),
                    sc!("server.write_timeout.a", |c, r| srv::tcp_server(c, r, SrvKind::Blocking, Mode::WriteTimeout)),
                    sc!("client.healthy.b", |c, r| cli::client_concurrent(c, r, false, None)),
                    sc!("server.stall.a", |c, r| srv::tcp_server(c, r, SrvKind::Blocking, Mode::Stall)),
                    sc!("client.write_timeout.b", |c, r| cli::client_write_timeout(c, r)),
                    sc!("server.healthy.b", |c, r| srv::tcp_server(c, r, SrvKind::Blocking, Mode::Healthy)),
                    sc!("client.stall.b", |c, r| cli::client_concurrent(c, r, true, None)),
                    sc!("server.write_timeout.b", |c, r| srv::tcp_server(c, r, SrvKind::Blocking, Mode::WriteTimeout)),
                    sc!("client.write_timeout.medium.a", |c, r| cli::client_medium_stream(c, r)),
                    sc!("server.write_timeout.medium.a", |c, r| srv::tcp_server(c, r, SrvKind::Blocking, Mode::WriteTimeoutMedium)),
                    sc!("client.write_timeout.medium.b", |c, r| cli::client_medium_stream(c, r)),
                    sc!("client.batch.history.a", |c, r| batch::client_batch_history(c, r, 0)),
                    sc!("client.batch.concurrent", |c, r| batch::client_batch_concurrent(c, r)),
                ],
            },
            Lane {
                name: "async",
                scenarios: vec![
                    sc!("async_client.healthy.32writers", |c, r| cli::aclient_concurrent(c, r, Tcp, false, Some(32))),
                    sc!("async_client.cancel.a", |c, r| cli::aclient_cancel(c, r, Tcp)),
                    sc!("async_server.healthy.a", |c, r| srv::tcp_server(c, r, SrvKind::Async, Mode::Healthy)),
                    sc!("async_client.stall.a", |c, r| cli::aclient_concurrent(c, r, Tcp, true, None)),
                    sc!("async_server.write_timeout.a", |c, r| srv::tcp_server(c, r, SrvKind::Async, Mode::WriteTimeout)),
                    sc!("async_client.healthy.b", |c, r| cli::aclient_concurrent(c, r, Tcp, false, None)),
                    sc!("async_server.stall.a", |c, r| srv::tcp_server(c, r, SrvKind::Async, Mode::Stall)),
                    sc!("async_client.cancel.b", |c, r| cli::aclient_cancel(c, r, Tcp)),
                    sc!("async_server.healthy.b", |c, r| srv::tcp_server(c, r, SrvKind::Async, Mode::Healthy)),
                    sc!("async_client.stall.b", |c, r| cli::aclient_concurrent(c, r, Tcp, true, None)),
                    sc!("async_server.write_timeout.b", |c, r| srv::tcp_server(c, r, SrvKind::Async, Mode::WriteTimeout)),
                    sc!("async_client.cancel.medium.a", |c, r| cli::aclient_medium_stream(c, r, Tcp)),
                    sc!("async_server.write_timeout.medium.a", |c, r| srv::tcp_server(c, r, SrvKind::Async, Mode::WriteTimeoutMedium)),
                    sc!("async_client.cancel.medium.b", |c, r| cli::aclient_medium_stream(c, r, Tcp)),
                    sc!("async_client.batch.history.a", |c, r| batch::aclient_batch_history(c, r, Tcp, 1)),
                    sc!("async_client.batch.concurrent", |c, r| batch::aclient_batch_concurrent(c, r, Tcp)),
                ],
            },
            Lane {
                name: "websocket",
                scenarios: vec![
                    sc!("ws_client.healthy.32writers", |c, r| cli::aclient_concurrent(c, r, Ws, false, Some(32))),
                    sc!("ws_server.healthy.offreader", |c, r| srv::ws_server(c, r, false, true)),
                    sc!("ws_client.cancel.a", |c, r| cli::aclient_cancel(c, r, Ws)),
                    sc!("ws_server.stall.offreader", |c, r| srv::ws_server(c, r, true, true)),
                    sc!("ws_client.stall.a", |c, r| cli::aclient_concurrent(c, r, Ws, true, None)),
                    sc!("ws_server.healthy.inline", |c, r| srv::ws_server(c, r, false, false)),
                    sc!("ws_client.cancel.b", |c, r| cli::aclient_cancel(c, r, Ws)),
                    sc!("ws_server.stall.inline", |c, r| srv::ws_server(c, r, true, false)),
                    sc!("ws_client.healthy.b", |c, r| cli::aclient_concurrent(c, r, Ws, false, None)),
                    sc!("ws_client.cancel.medium.a", |c, r| cli::aclient_medium_stream(c, r, Ws)),
                    // (this lane is the shortest: it also hosts a third blocking-client medium stream)
                    sc!("client.write_timeout.medium.c", |c, r| cli::client_medium_stream(c, r)),
                    sc!("ws_client.batch.history", |c, r| batch::aclient_batch_history(c, r, Ws, 2)),
                    sc!("ws_client.batch.concurrent", |c, r| batch::aclient_batch_concurrent(c, r, Ws)),
                    // (hosted here for the same reason: a second blocking-client and a second async-client batch history)
                    sc!("client.batch.history.b", |c, r| batch::client_batch_history(c, r, 3)),
                    sc!("async_client.batch.history.b", |c, r| batch::aclient_batch_history(c, r, Tcp, 4)),
                ],
            },
            // a lane of its own (its stalls last up to about 2 s; it runs beside the others and stays shorter than the longest of them)
            Lane {
                name: "blocking-call-timeout",
                scenarios: vec![
                    sc!("client.call_timeout.history.a", |c, r| batch::client_call_timeout_history(c, r, 5)),
                    sc!("client.call_timeout.history.b", |c, r| batch::client_call_timeout_history(c, r, 6)),
                ],
            },
        ]
    }

    pub fn run(args: &Args) -> Report {
        if args.stage == "proxy" {
            return crate::c01_cli::run_c05_proxy(args);
        }
        let rep = Report::new(
            args,
            "c05-raw-peer-recording",
            "raw peers record every byte written by Client / AsyncClient / WebSocketClient / Server / AsyncServer / WebSocketServer under \
             concurrent writers (<=32), sizes straddling 0, 8 KiB±1 (body and whole frame), 64 KiB, 1 MiB, 4 MiB (32 MiB thorough), seeded reader \
             stalls with small socket buffers, write timeouts, calls aborted mid-send (one huge payload, or a back-to-back stream of MEDIUM \
             frames with query+body 8100..8300 densely covering 8145..=8192, plus 4/8/16 KiB±1, that fills the pipe of a stalled peer until a \
             write is interrupted, then more sends while still stalled), then FURTHER traffic after the peer drained; oracle = \
             sequential walk: frame* · optional strict prefix of one frame with nothing after it, each frame byte-equal to one submitted \
             message (body = f(token, offset)), conservation, one frame per WebSocket message; the BATCH entry points (batch_json / \
             batch_json_with_timeout of all three clients, JSON items whose text the harness writes itself) are a send API of their own: \
             per-connection histories where the interrupted frame is one item of a batch (first/middle/last, batches > 64, small and > 8 KiB \
             items around it) or an ordinary send followed by a batch, the next send (batch / call / notify, same handle or clone, in flight or \
             after) and a peer resuming immediately / within / 1, 2, 3+ timeout periods after the stall / after the sender returned, plus \
             concurrent batches and ordinary sends from several clones; blocking-client histories WITHOUT a socket write timeout where the large \
             frame is sent by a *_with_timeout entry point (raw, typed slice, JSON, batch) whose timeout (50 ms..2 s) is shorter than the stall, \
             the peer resuming before / shortly after / long after the deadline or once the call returned, the next send coming from another \
             thread during the call or from the same thread / a clone after it; every third client call goes out through call_typed_slice (BEVE u8 array of the same pattern bytes) instead of *_with_formats; distinct = (endpoint, fault, workload shape hash)",
        );
        let mut rep = rep;
        if let Err(e) = u8_array_prefix_self_check().and_then(|_| batch::json_item_self_check()) {
            rep.inconclusive(format!("harness: {e}"));
            return rep;
        }
        let rep = Mutex::new(rep);
        let tally = Mutex::new(Tally::default());
        let hb = Heartbeat::start();
        let rt = match tokio::runtime::Builder::new_multi_thread().worker_threads(6).enable_all().build() {
            Ok(rt) => rt,
            Err(e) => {
                let mut r = rep.into_inner().unwrap();
                r.inconclusive(format!("tokio runtime: {e}"));
                return r;
            }
        };
        let cx = Cx { thorough: args.thorough(), rt: &rt, seed: args.seed };
        let rounds = args.budget(3, 40) as usize;
        let filter: Option<String> = args.extra.first().cloned();
        let wall_cap = std::time::Duration::from_secs(if args.thorough() { 420 } else { 40 });
        let started = std::time::Instant::now();
        std::thread::scope(|s| {
            for (li, lane) in lanes().into_iter().enumerate() {
                let (rep, tally, cx, filter) = (&rep, &tally, &cx, &filter);
                s.spawn(move || {
                    let mut rng = Rng::new(args.seed ^ 0xC05 ^ ((li as u64 + 1) << 40));
                    let mut idx = 0usize;
                    for round in 0..rounds {
                        for (name, f) in &lane.scenarios {
                            let mut r = rng.fork((round * 100 + idx) as u64);
                            idx += 1;
                            if let Some(flt) = filter {
                                if !name.contains(flt.as_str()) {
                                    continue;
                                }
                            }
                            if started.elapsed() > wall_cap {
                                tally.lock().unwrap().counters.entry("scenarios_skipped_wall_cap".into()).and_modify(|x| *x += 1).or_insert(1);
                                continue;
                            }
                            let t_sc = std::time::Instant::now();
                            let out = match catching(|| f(cx, &mut r)) {
                                Ok(o) => o,
                                Err(p) => {
                                    let mut o = ScenarioOut::new("harness", "none", name);
                                    o.trouble.push(format!("scenario panicked: {p}"));
                                    o
                                }
                            };
                            if std::env::var_os("C05_DEBUG").is_some() {
                                eprintln!("[c05] {} {}ms fault={:?} ok={} err={} trouble={:?} params={}", out.name, t_sc.elapsed().as_millis(), out.fault_triggered, out.ops_ok, out.ops_err, out.trouble, out.params);
                            }
                            let mut rp = rep.lock().unwrap();
                            let mut tl = tally.lock().unwrap();
                            tl.walls.push((format!("{}#{}", name, idx - 1), t_sc.elapsed().as_millis() as u64));
                            if rp.samples.len() < 6 && (idx % 4 == 1) {
                                rp.sample(json!({"lane": lane.name, "scenario": out.name, "endpoint": out.endpoint, "fault": out.cause, "params": out.params,
                                    "ops_ok": out.ops_ok, "ops_err": out.ops_err, "fault_triggered": out.fault_triggered,
                                    "recorded": out.conns.iter().map(|c| match &c.record { Record::Stream(b) => b.len(), Record::Msgs(m) => m.len() }).collect::<Vec<_>>()}));
                            }
                            judge(&mut rp, &mut tl, cx, lane.name, idx - 1, out);
                        }
                    }
                });
            }
        });
        drop(cx);
        rt.shutdown_timeout(std::time::Duration::from_secs(2));
        let mut rep = rep.into_inner().unwrap();
        let t = tally.into_inner().unwrap();
        for (k, v) in &t.counters {
            rep.set(k, json!(v));
        }
        let mut classes = serde_json::Map::new();
        for (k, (run, trig, failed_ok)) in &t.per_class {
            classes.insert(k.clone(), json!({"scenarios": run, "interruption_took_effect": trig, "connection_failed_with_nothing_after_partial_frame": failed_ok}));
        }
        rep.set("per_endpoint_and_fault", Value::Object(classes));
        rep.set("verified_frames_by_size_class_[0,<8000,~8KiB,<64KiB,~64KiB,<1MiB,~1MiB,<=4MiB,>4MiB]", json!(t.size_classes_seen));
        rep.set("medium_stream_interrupted_frame_query_plus_body_values", json!(t.med_interrupted.iter().collect::<Vec<_>>()));
        rep.set("medium_stream_distinct_query_plus_body_values_submitted", json!(t.med_stream.len()));
        rep.set("medium_stream_window_8145_8192_values_submitted", json!(t.med_stream.iter().filter(|s| WINDOW.contains(s)).count()));
        rep.set("harness_trouble_notes", json!(t.trouble));
        rep.set("scenario_wall_ms", json!(t.walls));
        rep.set("heartbeat_max_gap_ms", json!(hb.max_gap_ms()));
        // evidence floor: every endpoint observed, every injected fault class took effect at least once
        if filter.is_none() {
            for ep in ["client", "async_client", "ws_client", "server", "async_server", "ws_server"] {
                let n: u64 = t.per_class.iter().filter(|(k, _)| k.split(':').next() == Some(ep)).map(|(_, v)| v.0).sum();
                if n == 0 {
                    rep.inconclusive(format!("endpoint {ep} was never exercised"));
                }
            }
            for (k, (run, trig, _)) in &t.per_class {
                let cause = k.split(':').nth(1).unwrap_or("");
                if (cause == "write_timeout" || cause == "cancel_mid_send") && *run > 0 && *trig == 0 {
                    rep.inconclusive(format!("{k}: the injected interruption never took effect in {run} scenario(s)"));
                }
            }
        }
        if filter.is_none() && (rep.get_count("batch_calls_issued") == 0 || rep.get_count("batch_histories_with_interruption_in_effect") == 0) {
            rep.inconclusive("the batch entry points were never exercised with an interruption in effect");
        }
        if filter.is_none() && (rep.get_count("call_timeout_histories") == 0 || rep.get_count("call_timeout_calls_still_in_the_call_when_peer_resumed") + rep.get_count("call_timeout_calls_returned_while_peer_still_stalled") == 0) {
            rep.inconclusive("blocking *_with_timeout calls were never the sender of a large frame to a stalled peer");
        }
        if rep.get_count("frames_verified_byte_exact") == 0 {
            rep.inconclusive("no frame was recorded");
        }
        let troubled = rep.get_count("harness_trouble");
        if troubled * 4 > rep.evaluations.max(1) {
            rep.inconclusive(format!("{troubled} harness troubles in {} scenarios (see harness_trouble_notes)", rep.evaluations));
        }
        rep
    }
}

#[cfg(feature = "net")]
pub use imp::{BatchEvidence, ConnOut, Cx, MedEvidence, Op, ScenarioOut, WINDOW, med_split, med_sums, path_of, path_of_op, pick_len, size_class, u8_array_prefix};
