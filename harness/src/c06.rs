//! C06 — a dead or misbehaving connection fails calls promptly: no hang, no residue.
//!
//! Runtime monitor, fault enumeration. A remote-controlled FAKE server (raw TCP for `repe::Client`
//! and `repe::AsyncClient`, tokio_tungstenite accept for `repe::WebSocketClient`; all frames built
//! with oracle.rs) injects every fault of a table at a chosen protocol step while 0..16 calls are
//! in flight, with and without per-call timeouts. Timeout-vs-response races are forced in both
//! orders through the verif-hooks gates, cancellation aborts the calling task at each probe point.
//! Oracle: bounded progress (15 s window + heartbeat), later calls fail, pending table empty at
//! quiescence, unique tokens (a call only ever gets its own response), subscriber end-of-stream,
//! no reader killed by a panic. `AsyncClient::forward_message*` (caller-chosen request ids, its own
//! registration/cleanup path) is driven as a call kind of its own through the same ways of ending
//! without a response; there a retry under the same id must be accepted and get its own response.
//! c06_batch.rs adds the batch form of the forced timeout-vs-response windows (`batch_json_with_timeout` with more
//! requests than the blocking client's worker pool; one request's response forced into each window; positional tokens).
//! c06_stalled.rs adds the class "fault while ANOTHER task holds the writer in a large send stalled on
//! backpressure, the peer then lingers": what must fail promptly has to have ended before the peer releases.
//! c06_hostile.rs adds hostile CONTENT in the frames a healthy client discards (late responses to calls abandoned by
//! timeout / cancellation, unknown ids, second copies, pushes: long / non-ASCII at every byte alignment / not UTF-8 /
//! empty query, body and error text), each followed by a probe call that must get its own response.
//! `EXT_HDRS` extends the malformed-header kinds to the 64-bit extremes of the three length fields (overflowing sums,
//! sums wrapping to the declared length, consistent-but-impossible lengths, off-by-one at the extremes, one field at
//! u64::MAX), each as the header alone, header + 3 bytes and header + payload, for all three clients.

use crate::common::*;

#[cfg(not(feature = "net"))]
pub fn run(args: &Args) -> Report {
    let mut rep = Report::new(args, "c06", "needs the net feature");
    rep.inconclusive("built without the `net` feature");
    rep
}

#[cfg(feature = "net")]
#[path = "c06_infra.rs"]
mod infra;
#[cfg(feature = "net")]
#[path = "c06_gates.rs"]
mod gates;
#[cfg(feature = "net")]
#[path = "c06_stalled.rs"]
mod stalled;
#[cfg(feature = "net")]
#[path = "c06_batch.rs"]
mod batch;
#[cfg(feature = "net")]
#[path = "c06_hostile.rs"]
mod hostile;

#[cfg(feature = "net")]
pub fn run(args: &Args) -> Report {
    imp::run(args)
}

#[cfg(feature = "net")]
pub(crate) mod imp {
    use super::batch;
    use super::gates;
    use super::hostile;
    use super::infra::*;
    use super::stalled;
    use crate::common::*;
    use crate::oracle::SpecHeader;
    use serde_json::{Value, json};
    use std::collections::{BTreeMap, BTreeSet};
    use std::time::Duration;

    // -------------------------------------------------------------- fault table

    #[derive(Clone, Copy, Debug, PartialEq, Eq, Hash)]
    pub enum CutAt {
        B1,
        B47,
        B48,
        MidQuery,
        MidBody,
        LastM1,
    }
    pub const CUTS: [CutAt; 6] = [CutAt::B1, CutAt::B47, CutAt::B48, CutAt::MidQuery, CutAt::MidBody, CutAt::LastM1];

    #[derive(Clone, Copy, Debug, PartialEq, Eq, Hash)]
    pub enum BadHdr {
        Magic0,
        MagicOff,
        LenPlus1,
        LenMinus1,
        LenZero,
        WrapQmaxB1,
        Wrap2x63,
        Huge62Body,
        Huge63Body,
        Huge62Query,
        HugeMaxLen,
        /// a row of `EXT_HDRS` (the three length fields at the 64-bit extremes) and how much of the
        /// payload follows the 48 header bytes
        Ext(u8, Tail),
    }

    /// What follows the malformed 48-byte header on the wire / inside the binary WebSocket message.
    #[derive(Clone, Copy, Debug, PartialEq, Eq, Hash)]
    pub enum Tail {
        /// the query and body bytes of the response the header was made from
        Payload,
        /// nothing: the header alone
        HeaderOnly,
        /// three bytes
        Few,
    }
    pub const TAILS: [Tail; 3] = [Tail::Payload, Tail::HeaderOnly, Tail::Few];

    /// Malformed-header kinds at the integer extremes. Each row gives (length, query_length, body_length)
    /// from the real response's q = query_length and b = body_length; M = u64::MAX, H = 2^63, G = 2^32,
    /// R = 48 + q + b (the real frame length). None of them satisfies `length == 48 + q + b` over the
    /// integers, except the `honest:` rows, which declare a frame of >= 2^63 - 1 bytes (never satisfiable;
    /// the 2^32 rows only for the WebSocket client, where the binary message is complete and far shorter
    /// than the header says; on a TCP stream a 4 GiB frame that never completes is a silent peer, not a
    /// malformed frame).
    pub struct ExtHdr {
        pub name: &'static str,
        pub ws_only: bool,
        pub f: fn(u64, u64) -> (u64, u64, u64),
    }
    const M: u64 = u64::MAX;
    const H: u64 = 1 << 63;
    const G: u64 = 1 << 32;
    pub const EXT_HDRS: [ExtHdr; 36] = [
        // 48 + q + b does not fit in 64 bits
        ExtHdr { name: "len-max:query-overflows", ws_only: false, f: |_, _| (M, M - 47, 0) },
        ExtHdr { name: "len-max:body-overflows", ws_only: false, f: |q, _| (M, q, M - 40) },
        ExtHdr { name: "len-max:q-max+b-max", ws_only: false, f: |_, _| (M, M, M) },
        ExtHdr { name: "len-max:q-2^63+b-2^63", ws_only: false, f: |_, _| (M, H, H) },
        ExtHdr { name: "len-max-1:sum-overflows", ws_only: false, f: |_, b| (M - 1, M - 47, b) },
        ExtHdr { name: "len-2^63:sum-overflows", ws_only: false, f: |_, _| (H, H, H) },
        ExtHdr { name: "len-2^63+1:sum-overflows", ws_only: false, f: |_, _| (H + 1, H + 1, H) },
        ExtHdr { name: "len-2^63-1:sum-overflows", ws_only: false, f: |_, _| (H - 1, H, H - 1) },
        ExtHdr { name: "len-2^32+1:sum-overflows", ws_only: false, f: |_, b| (G + 1, M, b) },
        ExtHdr { name: "len-2^32-1:sum-overflows", ws_only: false, f: |q, _| (G - 1, q, M) },
        // the sum wraps modulo 2^64 to exactly the declared length
        ExtHdr { name: "wraps-to-len-max", ws_only: false, f: |_, _| (M, M, M - 47) },
        ExtHdr { name: "wraps-to-len-max-1", ws_only: false, f: |_, _| (M - 1, M, M - 48) },
        ExtHdr { name: "wraps-to-len-2^63", ws_only: false, f: |_, _| (H, M, H - 47) },
        ExtHdr { name: "wraps-to-len-2^63+1", ws_only: false, f: |_, _| (H + 1, M, H - 46) },
        ExtHdr { name: "wraps-to-len-2^63-1", ws_only: false, f: |_, _| (H - 1, M, H - 48) },
        ExtHdr { name: "wraps-to-len-2^32+1", ws_only: false, f: |_, _| (G + 1, M, G - 46) },
        ExtHdr { name: "wraps-to-len-2^32-1", ws_only: false, f: |_, _| (G - 1, M, G - 48) },
        ExtHdr { name: "wraps-to-real-length:halves", ws_only: false, f: |q, b| (48 + q + b, q + H, b + H) },
        ExtHdr { name: "wraps-to-real-length:q-max", ws_only: false, f: |q, b| (48 + q + b, M, q + b + 1) },
        // consistent over the integers, absurdly large
        ExtHdr { name: "honest:len-max-1", ws_only: false, f: |q, _| (M - 1, q, M - 1 - 48 - q) },
        ExtHdr { name: "honest:len-2^63", ws_only: false, f: |q, _| (H, q, H - 48 - q) },
        ExtHdr { name: "honest:len-2^63+1", ws_only: false, f: |q, _| (H + 1, q, H + 1 - 48 - q) },
        ExtHdr { name: "honest:len-2^63-1", ws_only: false, f: |q, _| (H - 1, q, H - 1 - 48 - q) },
        ExtHdr { name: "honest:len-2^63:query", ws_only: false, f: |_, b| (H, H - 48 - b, b) },
        ExtHdr { name: "honest:len-2^32+1", ws_only: true, f: |q, _| (G + 1, q, G + 1 - 48 - q) },
        ExtHdr { name: "honest:len-2^32-1", ws_only: true, f: |q, _| (G - 1, q, G - 1 - 48 - q) },
        // off by one at the extremes
        ExtHdr { name: "len-max:sum-is-max-1", ws_only: false, f: |q, _| (M, q, M - 49 - q) },
        ExtHdr { name: "len-max:sum-is-max+1", ws_only: false, f: |q, _| (M, q, M - 47 - q) },
        ExtHdr { name: "len-max-1:sum-is-max", ws_only: false, f: |q, _| (M - 1, q, M - 48 - q) },
        ExtHdr { name: "len-2^63:sum-is-2^63+1", ws_only: false, f: |q, _| (H, q, H - 47 - q) },
        ExtHdr { name: "len-2^63:sum-is-2^63-1", ws_only: false, f: |q, _| (H, q, H - 49 - q) },
        ExtHdr { name: "len-2^32+1:sum-is-2^32+2", ws_only: false, f: |q, _| (G + 1, q, G + 2 - 48 - q) },
        ExtHdr { name: "len-2^32-1:sum-is-2^32-2", ws_only: false, f: |q, _| (G - 1, q, G - 2 - 48 - q) },
        // one field at the maximum, the others honest
        ExtHdr { name: "q-max-alone", ws_only: false, f: |q, b| (48 + q + b, M, b) },
        ExtHdr { name: "b-max-alone", ws_only: false, f: |q, b| (48 + q + b, q, M) },
        ExtHdr { name: "len-max:q-max-alone", ws_only: false, f: |_, _| (M, M, 0) },
    ];

    /// The extended malformed-header faults for a client kind (every row, every tail for the WebSocket
    /// client; TCP clients: the rows a stream reader can reject from the header alone with every tail, the
    /// consistent-but-impossible rows with the payload following, like the older Huge* kinds).
    pub fn ext_faults_for(kind: Kind) -> Vec<Fault> {
        let mut v = vec![];
        for (i, e) in EXT_HDRS.iter().enumerate() {
            if e.ws_only && kind != Kind::Ws {
                continue;
            }
            for t in TAILS {
                // a stream reader may wait for the (short) query a consistent header announces before it
                // meets the impossible body length: without those bytes the peer is merely silent
                if kind != Kind::Ws && e.name.starts_with("honest:") && t != Tail::Payload {
                    continue;
                }
                v.push(Fault::Bad(BadHdr::Ext(i as u8, t)));
            }
        }
        v
    }
    pub const BADS: [BadHdr; 11] = [
        BadHdr::Magic0,
        BadHdr::MagicOff,
        BadHdr::LenPlus1,
        BadHdr::LenMinus1,
        BadHdr::LenZero,
        BadHdr::WrapQmaxB1,
        BadHdr::Wrap2x63,
        BadHdr::Huge62Body,
        BadHdr::Huge63Body,
        BadHdr::Huge62Query,
        BadHdr::HugeMaxLen,
    ];

    #[derive(Clone, Copy, Debug, PartialEq, Eq, Hash)]
    pub enum Fault {
        /// server never reads, closes while the requests sit unread in its receive queue
        CloseBeforeRead,
        RstBeforeRead,
        /// server reads every request, then FIN
        CloseAfterRead,
        /// server reads every request, then SO_LINGER 0 close: RST
        RstAfterRead,
        /// TCP stream cut inside a response (raw clients: inside the REPE frame; WebSocket: inside the WebSocket frame)
        Cut(CutAt),
        /// a response whose 48-byte header is malformed; the connection is then HELD OPEN and silent
        Bad(BadHdr),
        // WebSocket only (connection held open after each of these)
        WsText,
        WsCloseFrame,
        /// complete binary WebSocket message holding a truncated REPE frame
        WsTrunc(CutAt),
        WsTrailing,
        WsEmpty,
    }

    impl Fault {
        pub fn name(&self) -> String {
            match self {
                Fault::CloseBeforeRead => "close-before-read".into(),
                Fault::RstBeforeRead => "rst-before-read".into(),
                Fault::CloseAfterRead => "close-after-read".into(),
                Fault::RstAfterRead => "rst-after-read".into(),
                Fault::Cut(c) => format!("cut@{c:?}"),
                Fault::Bad(BadHdr::Ext(i, t)) => format!(
                    "bad-header:{}{}",
                    EXT_HDRS[*i as usize].name,
                    match t {
                        Tail::Payload => "",
                        Tail::HeaderOnly => "+header-only",
                        Tail::Few => "+3-bytes",
                    }
                ),
                Fault::Bad(b) => format!("bad-header:{b:?}"),
                Fault::WsText => "ws-text-frame".into(),
                Fault::WsCloseFrame => "ws-close-frame".into(),
                Fault::WsTrunc(c) => format!("ws-truncated-payload@{c:?}"),
                Fault::WsTrailing => "ws-trailing-byte".into(),
                Fault::WsEmpty => "ws-empty-binary".into(),
            }
        }
        pub fn before_read(&self) -> bool {
            matches!(self, Fault::CloseBeforeRead | Fault::RstBeforeRead)
        }
    }

    pub fn faults_for(kind: Kind) -> Vec<Fault> {
        let mut v = vec![];
        if kind != Kind::Ws {
            v.push(Fault::CloseBeforeRead);
            v.push(Fault::RstBeforeRead);
        }
        v.push(Fault::CloseAfterRead);
        v.push(Fault::RstAfterRead);
        v.extend(CUTS.iter().map(|c| Fault::Cut(*c)));
        v.extend(BADS.iter().map(|b| Fault::Bad(*b)));
        if kind == Kind::Ws {
            v.push(Fault::WsText);
            v.push(Fault::WsCloseFrame);
            v.extend(CUTS.iter().map(|c| Fault::WsTrunc(*c)));
            v.push(Fault::WsTrailing);
            v.push(Fault::WsEmpty);
        }
        v
    }

    pub fn cut_offset(at: CutAt, frame: &[u8]) -> usize {
        let h = SpecHeader::decode(frame);
        let (q, b) = (h.query_length as usize, h.body_length as usize);
        let off = match at {
            CutAt::B1 => 1,
            CutAt::B47 => 47,
            CutAt::B48 => 48,
            CutAt::MidQuery => 48 + (q / 2).max(1),
            CutAt::MidBody => 48 + q + (b / 2).max(1),
            CutAt::LastM1 => frame.len() - 1,
        };
        off.min(frame.len() - 1)
    }

    pub fn bad_frame(kind: BadHdr, frame: &[u8]) -> Vec<u8> {
        let mut h = SpecHeader::decode(frame);
        let (q, b) = (h.query_length, h.body_length);
        let mut tail = Tail::Payload;
        match kind {
            BadHdr::Ext(i, t) => {
                let (l, ql, bl) = (EXT_HDRS[i as usize].f)(q, b);
                h.length = l;
                h.query_length = ql;
                h.body_length = bl;
                tail = t;
            }
            BadHdr::Magic0 => h.spec = 0,
            BadHdr::MagicOff => h.spec = 0x1508,
            BadHdr::LenPlus1 => h.length += 1,
            BadHdr::LenMinus1 => h.length -= 1,
            BadHdr::LenZero => h.length = 0,
            BadHdr::WrapQmaxB1 => {
                h.query_length = u64::MAX;
                h.body_length = 1;
                h.length = 48;
            }
            BadHdr::Wrap2x63 => {
                h.query_length = 1 << 63;
                h.body_length = 1 << 63;
                h.length = 48;
            }
            BadHdr::Huge62Body => {
                h.body_length = 1 << 62;
                h.length = 48 + q + (1 << 62);
            }
            BadHdr::Huge63Body => {
                h.body_length = 1 << 63;
                h.length = 48 + q + (1 << 63);
            }
            BadHdr::Huge62Query => {
                h.query_length = 1 << 62;
                h.length = 48 + (1 << 62) + b;
            }
            BadHdr::HugeMaxLen => {
                h.length = u64::MAX;
                h.body_length = u64::MAX - 48 - q;
            }
        }
        let mut out = h.encode().to_vec();
        match tail {
            Tail::Payload => out.extend_from_slice(&frame[48..]),
            Tail::HeaderOnly => {}
            Tail::Few => out.extend_from_slice(&frame[48..frame.len().min(51)]),
        }
        out
    }

    #[derive(Clone, Copy, Debug, PartialEq, Eq, Hash)]
    pub enum TMode {
        None,
        All,
        Mixed,
    }
    impl TMode {
        pub fn name(self) -> &'static str {
            match self {
                TMode::None => "no-timeout",
                TMode::All => "per-call-timeout",
                TMode::Mixed => "mixed",
            }
        }
        pub fn timeout_for(self, i: usize) -> Option<Duration> {
            // far beyond the 15 s window: an error must come from the fault, not from the timeout
            match self {
                TMode::None => None,
                TMode::All => Some(Duration::from_secs(40)),
                TMode::Mixed => if i % 2 == 0 { Some(Duration::from_secs(40)) } else { None },
            }
        }
    }

    // -------------------------------------------------------------- evidence

    #[derive(Default)]
    pub struct Stats {
        /// kind -> fault -> (in-flight counts, timeout modes) executed
        pub cells: BTreeMap<&'static str, BTreeMap<String, (BTreeSet<usize>, BTreeSet<&'static str>)>>,
        pub cell_count: u64,
        pub err_kinds: BTreeMap<String, BTreeSet<String>>,
        pub sched: BTreeMap<String, u64>,
        /// scenarios that took more than 3 s (diagnostic: silent waits)
        pub slow: Vec<String>,
    }

    impl Stats {
        pub fn timed(&mut self, what: String, t: std::time::Instant) {
            let d = t.elapsed();
            if d > Duration::from_secs(3) && self.slow.len() < 20 {
                self.slow.push(format!("{what}: {:.1}s; trace: {}", d.as_secs_f64(), ps_trace()));
            }
        }
        pub fn bump(&mut self, k: impl Into<String>) {
            *self.sched.entry(k.into()).or_insert(0) += 1;
        }
    }

    // -------------------------------------------------------------- shared verdict helpers

    /// Unreturned calls after the bounded-progress window.
    pub fn report_hang(rep: &mut Report, env: &mut Env, class: &str, kind: Kind, ctx: &str, missing: &[usize], calls: &Calls, replay: &Value) {
        env.hangs_left -= 1;
        let gap = env.hb.max_gap_ms();
        let who: Vec<String> = missing.iter().map(|i| format!("call#{i}(token {}, timeout {:?})", calls.v[*i].token, calls.v[*i].timeout)).collect();
        if gap > 1000 {
            rep.inconclusive(format!("{class} on {} / {ctx} observed, but the heartbeat saw a {gap} ms scheduling stall", kind.name()));
            return;
        }
        let panic = take_last_panic();
        rep.violation(
            format!("C06:{class}:{}:{ctx}", kind.name()),
            format!(
                "{} call(s) had not returned {} s after the step `{ctx}` on {} (heartbeat max gap {gap} ms): {}; last panic: {:?}; probe trace: {}",
                missing.len(),
                WINDOW.as_secs(),
                kind.name(),
                who.join(", "),
                panic,
                ps_trace()
            ),
            replay.clone(),
        );
    }

    /// Judge returned calls: a result is Err, or Ok carrying the caller's own token for which the
    /// server really sent a complete response. `must_ok`: the connection is healthy, Err is a violation.
    pub fn judge(rep: &mut Report, st: &mut Stats, calls: &Calls, idxs: &[usize], srv: &Srv, kind: Kind, ctx: &str, must_ok: bool, replay: &Value) {
        for &i in idxs {
            let c = &calls.v[i];
            match &c.res {
                None => {}
                Some(CallRes::Ok(v)) => {
                    let id = srv.reqs.iter().find(|r| r.token == c.token).map(|r| r.header.id);
                    if v["t"].as_u64() != Some(c.token) {
                        rep.violation(
                            format!("C06:wrong-token:{}:{ctx}", kind.name()),
                            format!("call#{i} sent token {} and was handed a response carrying {} ({ctx}); trace: {}", c.token, v["t"], ps_trace()),
                            replay.clone(),
                        );
                    } else if id.map(|id| !srv.sent_full.contains(&id)).unwrap_or(true) || !srv.sent_tokens.contains(&c.token) {
                        rep.violation(
                            format!("C06:phantom-response:{}:{ctx}", kind.name()),
                            format!("call#{i} (token {}) returned Ok although the fake server never sent a complete response for it", c.token),
                            replay.clone(),
                        );
                    } else if c.fwd_id.is_some() && v["_id"].as_u64() != c.fwd_id {
                        rep.violation(
                            format!("C06:forward-id-mismatch:{}:{ctx}", kind.name()),
                            format!("forward#{i} (token {}) was issued with request id {:?} and was handed a response with header id {}", c.token, c.fwd_id, v["_id"]),
                            replay.clone(),
                        );
                    } else {
                        rep.count("calls_returned_own_token", 1);
                        if c.fwd_id.is_some() {
                            rep.count("forwards_returned_own_token", 1);
                        }
                    }
                }
                Some(CallRes::Err(e)) => {
                    let k = e.split(": ").next().unwrap_or("").to_string();
                    st.err_kinds.entry(format!("{}|{}", kind.name(), ctx)).or_default().insert(k);
                    if must_ok {
                        rep.violation(
                            format!("C06:healthy-call-failed:{}:{ctx}", kind.name()),
                            format!("call#{i} (token {}) on a still-healthy connection returned Err({e}) although the server answered it; trace: {}", c.token, ps_trace()),
                            replay.clone(),
                        );
                    } else {
                        rep.count("calls_returned_err", 1);
                    }
                }
                Some(CallRes::Panic(p)) => rep.violation(
                    format!("C06:panic:{}:{ctx}:{}", kind.name(), panic_site(p)),
                    format!("call#{i} panicked inside the client: {p}"),
                    replay.clone(),
                ),
            }
        }
    }

    /// A panic recorded by the hook during the scenario (reader thread / task died).
    pub fn check_panic(rep: &mut Report, kind: Kind, ctx: &str, replay: &Value) {
        if let Some(p) = take_last_panic() {
            if p.contains("c06") || p.contains("harness/src") {
                rep.inconclusive(format!("harness panic during {ctx}: {p}"));
            } else {
                rep.violation(
                    format!("C06:panic:{}:{ctx}:{}", kind.name(), panic_site(&p)),
                    format!("a thread/task panicked during `{ctx}` on {}: {p}", kind.name()),
                    replay.clone(),
                );
            }
        }
    }

    pub fn check_residue(rep: &mut Report, cli: &Cli, want: usize, kind: Kind, ctx: &str, replay: &Value) {
        // quiescence: every call has returned; the drain/removal happens before a call can return,
        // so no settling delay is needed for the blocking client; async drops run before the join.
        let got = cli.pending_len();
        rep.count("pending_len_checks", 1);
        if got != want {
            rep.violation(
                format!("C06:residue:{}:{ctx}", kind.name()),
                format!("verif_pending_len() = {got}, expected {want} at quiescence after `{ctx}`; trace: {}", ps_trace()),
                replay.clone(),
            );
        }
    }

    // -------------------------------------------------------------- one cell of the fault matrix

    #[derive(Clone, Copy, Debug)]
    pub struct Cell {
        pub kind: Kind,
        pub fault: Fault,
        pub n: usize,
        pub tmode: TMode,
    }

    fn run_cell(env: &mut Env, rep: &mut Report, st: &mut Stats, cell: &Cell, rng: &mut Rng, case: u64) {
        let Cell { kind, fault, n, tmode } = *cell;
        let fname = fault.name();
        let ws = kind == Kind::Ws;
        let replay = json!({"scenario": "fault", "client": kind.name(), "fault": fname, "in_flight": n, "timeouts": tmode.name(), "seed": rep.seed, "case": case});
        env.hb_reset();
        ps_reset();
        let _ = take_last_panic();
        let (cli, mut srv) = match env.connect(kind, !fault.before_read()) {
            Ok(x) => x,
            Err(e) => {
                rep.inconclusive(format!("{} / {fname}: {e}", kind.name()));
                return;
            }
        };
        rep.eval();
        rep.distinct(&(kind, fault, n, tmode));
        let e = st.cells.entry(kind.name()).or_default().entry(fname.clone()).or_default();
        e.0.insert(n);
        e.1.insert(tmode.name());
        st.cell_count += 1;

        // WebSocket: a notify subscriber that must see end-of-stream after the failure
        let mut sub_rx = None;
        if let Cli::Ws(c) = &cli {
            match c.subscribe_notifies() {
                Ok(mut rx) => {
                    let (tx, r) = std::sync::mpsc::channel::<u64>();
                    env.rt_cli.spawn(async move {
                        let mut seen = 0u64;
                        while let Some(_m) = rx.recv().await {
                            seen += 1;
                        }
                        let _ = tx.send(seen);
                    });
                    sub_rx = Some(r);
                }
                Err(_) => rep.inconclusive("subscribe_notifies refused on a fresh client"),
            }
        }

        let mut calls = Calls::new();
        // async client: every third in-flight call is a FORWARDED frame with a caller-chosen id
        // (`forward_message` / `forward_message_with_timeout`), the rest are ordinary `call_json*`
        let mut fwd_ids: Vec<u64> = vec![];
        for i in 0..n {
            let tok = env.token();
            let pad = rng.usize_below(40);
            if kind == Kind::Async && i % 3 == 1 {
                let id = env.fwd_id();
                fwd_ids.push(id);
                calls.launch_fwd(env, &cli, id, tok, pad, tmode.timeout_for(i), false);
            } else {
                calls.launch(env, &cli, tok, pad, tmode.timeout_for(i));
            }
        }
        rep.count("calls_in_flight_at_fault", n as u64);
        rep.count("forwards_in_flight_at_fault", fwd_ids.len() as u64);

        // reach the protocol step
        if fault.before_read() {
            let p = kind.pt("written").unwrap_or("");
            if !ps_wait_count(p, n, STEP_MAX) {
                rep.inconclusive(format!("{} / {fname}: only some of {n} requests were written within {STEP_MAX:?}", kind.name()));
            }
        } else if !srv.wait_reqs(n, STEP_MAX) {
            rep.inconclusive(format!("{} / {fname}: fake server saw {} of {n} requests ({:?})", kind.name(), srv.reqs.len(), srv.gone));
            return;
        }
        if ws && rng.coin() {
            // a pushed notify before the fault: the subscription is live
            let mut r = Req::fabricated(0);
            r.header.notify = 1;
            let mut f = r.response();
            f[11] = 1;
            srv.send(Cmd::WsBinary(f));
            rep.count("ws_notifies_pushed_before_fault", 1);
        }
        // answer some requests completely before the fault (their callers may legitimately win)
        let answered = if fault.before_read() || n == 0 { 0 } else { rng.usize_below(n) };
        let reqs = srv.reqs.clone();
        for r in reqs.iter().take(answered) {
            srv.answer(r, ws);
        }
        rep.count("responses_sent_before_fault", answered as u64);
        let victim = reqs.get(answered).cloned().unwrap_or_else(|| Req::fabricated(n as u64 + 1));
        let resp = victim.response();

        // inject
        match fault {
            Fault::CloseBeforeRead | Fault::CloseAfterRead => srv.send(Cmd::Close),
            Fault::RstBeforeRead | Fault::RstAfterRead => srv.send(Cmd::Rst),
            Fault::Cut(at) => {
                if ws {
                    let (f, hdr) = ws_binary_frame(&resp);
                    let off = if at == CutAt::B1 { 1 } else { hdr + cut_offset(at, &resp) };
                    srv.send(Cmd::Raw(f[..off].to_vec()));
                } else {
                    let off = cut_offset(at, &resp);
                    // sometimes in two writes
                    if off > 2 && rng.coin() {
                        let k = 1 + rng.usize_below(off - 1);
                        srv.send(Cmd::Raw(resp[..k].to_vec()));
                        srv.send(Cmd::Raw(resp[k..off].to_vec()));
                    } else {
                        srv.send(Cmd::Raw(resp[..off].to_vec()));
                    }
                }
                if rng.chance(1, 4) {
                    srv.send(Cmd::Rst)
                } else {
                    srv.send(Cmd::Close)
                }
            }
            Fault::Bad(b) => {
                let f = bad_frame(b, &resp);
                if ws {
                    srv.send(Cmd::WsBinary(f));
                } else if rng.coin() {
                    let k = 1 + rng.usize_below(f.len() - 1);
                    srv.send(Cmd::Raw(f[..k].to_vec()));
                    srv.send(Cmd::Raw(f[k..].to_vec()));
                } else {
                    srv.send(Cmd::Raw(f));
                }
            }
            Fault::WsText => srv.send(Cmd::WsText("{\"not\":\"binary\"}".into())),
            Fault::WsCloseFrame => srv.send(Cmd::WsCloseFrame),
            Fault::WsTrunc(at) => srv.send(Cmd::WsBinary(resp[..cut_offset(at, &resp)].to_vec())),
            Fault::WsTrailing => {
                let mut f = resp.clone();
                f.push(0);
                srv.send(Cmd::WsBinary(f));
            }
            Fault::WsEmpty => srv.send(Cmd::WsBinary(vec![])),
        }
        rep.count("faults_injected", 1);

        // every in-flight call returns within the window
        let all = calls.all();
        let missing = calls.wait(&all, WINDOW);
        srv.poll();
        if !missing.is_empty() {
            report_hang(rep, env, "hang", kind, &fname, &missing, &calls, &replay);
        }
        judge(rep, st, &calls, &all, &srv, kind, &fname, false, &replay);
        let won = all.iter().filter(|i| matches!(calls.v[**i].res, Some(CallRes::Ok(_)))).count();
        rep.count("answered_calls_that_won", won as u64);

        // every later call fails promptly
        if missing.is_empty() {
            let (t1, t2) = (env.token(), env.token());
            let l1 = calls.launch(env, &cli, t1, 3, None);
            let l2 = calls.launch(env, &cli, t2, 3, Some(Duration::from_secs(40)));
            let mut later = vec![l1, l2];
            if kind == Kind::Async {
                // a later FORWARD too: a retry under the id of a forward that was in flight at the fault
                // (a fresh id when there was none), alternately with and without a timeout
                let t3 = env.token();
                let id = match fwd_ids.last() {
                    Some(id) => *id,
                    None => env.fwd_id(),
                };
                later.push(calls.launch_fwd(env, &cli, id, t3, 3, if case % 2 == 0 { None } else { Some(Duration::from_secs(40)) }, false));
                rep.count("later_forwards_after_fault", 1);
            }
            let miss2 = calls.wait(&later, WINDOW);
            if !miss2.is_empty() {
                report_hang(rep, env, "later-call-hang", kind, &fname, &miss2, &calls, &replay);
            }
            for &i in &later {
                match &calls.v[i].res {
                    Some(CallRes::Ok(v)) => rep.violation(
                        format!("C06:later-call-succeeded:{}:{fname}", kind.name()),
                        format!("a call issued after `{fname}` returned Ok({v}) from a server that answers nothing any more"),
                        replay.clone(),
                    ),
                    Some(CallRes::Err(e)) => {
                        rep.count("later_calls_returned_err", 1);
                        st.err_kinds.entry(format!("{}|later|{}", kind.name(), fname)).or_default().insert(e.split(": ").next().unwrap_or("").to_string());
                    }
                    Some(CallRes::Panic(p)) => rep.violation(format!("C06:panic:{}:{fname}:{}", kind.name(), panic_site(p)), format!("later call panicked: {p}"), replay.clone()),
                    None => {}
                }
            }
            if miss2.is_empty() {
                check_residue(rep, &cli, 0, kind, &fname, &replay);
            }
        }

        // subscriber end-of-stream
        if let Some(r) = sub_rx {
            match r.recv_timeout(WINDOW) {
                Ok(seen) => {
                    rep.count("subscriber_saw_end_of_stream", 1);
                    rep.count("subscriber_notifies_seen", seen);
                }
                Err(_) => {
                    if env.hb.max_gap_ms() > 1000 {
                        rep.inconclusive("subscriber end-of-stream not seen, but the machine stalled");
                    } else {
                        env.hangs_left -= 1;
                        rep.violation(
                            format!("C06:subscriber-no-eos:{}:{fname}", kind.name()),
                            format!("the subscribe_notifies receiver did not see end-of-stream within {} s after `{fname}`", WINDOW.as_secs()),
                            replay.clone(),
                        );
                    }
                }
            }
        }
        check_panic(rep, kind, &fname, &replay);
        if st.cell_count <= 3 {
            let res: Vec<String> = calls.v.iter().map(|c| format!("{:?}", c.res)).collect();
            rep.sample(json!({"cell": replay, "answered_before_fault": answered, "results": res}));
        }
        drop(srv);
        drop(cli);
    }

    // -------------------------------------------------------------- malformed headers at the integer extremes

    /// Every row of `EXT_HDRS` x every tail (header alone / header + 3 bytes / header + the payload) for each
    /// client, as cells of the same fault matrix (same oracle: in-flight and later calls error within the
    /// window, the subscriber's stream ends, nothing panics). The (in-flight, timeout-mode) pairs rotate over
    /// the rows so that a quick run spends a few cells per row and still meets every pair on every client.
    fn run_ext_headers(env: &mut Env, rep: &mut Report, st: &mut Stats, args: &Args) {
        // the table must say what its comments say (independent 128-bit arithmetic of oracle.rs)
        for e in EXT_HDRS.iter() {
            for (q, b) in [(9u64, 20u64), (9, 75), (300, 0)] {
                let (length, query_length, body_length) = (e.f)(q, b);
                let h = SpecHeader { length, spec: crate::oracle::SPEC, version: 1, query_length, body_length, ..Default::default() };
                let honest = e.name.starts_with("honest:");
                if h.consistent() != honest || (honest && length < (1 << 32) - 1) {
                    rep.inconclusive(format!("harness: extended header row `{}` is not what its name says for q={q}, b={b}", e.name));
                    return;
                }
            }
        }
        let thorough = args.thorough();
        let ns: Vec<usize> = if thorough { vec![0, 1, 2, 3, 5, 8, 13, 16] } else { vec![0, 1, 2, 5, 16] };
        let tmodes: Vec<TMode> = if thorough { vec![TMode::None, TMode::All, TMode::Mixed] } else { vec![TMode::None, TMode::All] };
        let combos: Vec<(usize, TMode)> = ns.iter().flat_map(|n| tmodes.iter().map(move |t| (*n, *t))).collect();
        let per_fault = args.budget(2, 3) as usize;
        let mut rng = Rng::new(args.seed ^ 0xC06_E47);
        let mut case = 1_000_000u64;
        let mut skipped = 0u64;
        for (ki, kind) in KINDS.into_iter().enumerate() {
            // one hang witness per client: the remaining rows of a client whose calls already hang would each
            // cost the full window and use up the hang budget of the other clients
            let mut kind_hung = false;
            for (fi, fault) in ext_faults_for(kind).into_iter().enumerate() {
                for j in 0..per_fault {
                    case += 1;
                    if kind_hung {
                        rep.count("extreme_header_cells_skipped_after_a_hang_on_that_client", 1);
                        continue;
                    }
                    if env.stop() {
                        skipped += 1;
                        continue;
                    }
                    let hangs_before = env.hangs_left;
                    // 7 is coprime to the number of pairs: consecutive faults walk through all of them
                    let (n, tmode) = combos[(fi * 7 + j * 3 + ki + (args.seed as usize % 97)) % combos.len()];
                    let mut r = rng.fork(case);
                    let ts = std::time::Instant::now();
                    run_cell(env, rep, st, &Cell { kind, fault, n, tmode }, &mut r, case);
                    st.timed(format!("fault {} {} n={n} {}", kind.name(), fault.name(), tmode.name()), ts);
                    rep.count("extreme_header_cells_executed", 1);
                    kind_hung = env.hangs_left < hangs_before;
                    if kind == Kind::Ws {
                        rep.count("extreme_header_cells_executed_ws", 1);
                    }
                }
            }
        }
        rep.set("extreme_header_rows", json!(EXT_HDRS.iter().map(|e| e.name).collect::<Vec<_>>()));
        if skipped > 0 {
            rep.count("extreme_header_cells_not_run", skipped);
            if rep.violations.is_empty() {
                rep.inconclusive(format!("{skipped} cells of the extreme-header table were not executed (wall cap / hang budget)"));
            }
        }
    }

    // -------------------------------------------------------------- run

    pub fn run(args: &Args) -> Report {
        let mut rep = Report::new(
            args,
            "c06-fault-enumeration",
            "table-driven: (client kind) x (fault: close/RST before/after reading the request, stream cut inside a response at \
             {1,47,48,mid-query,mid-body,last-1}, 11 malformed-header kinds incl. wrapping sums and >=2^62 lengths with the \
             connection held open, WebSocket text/close/truncated/trailing/empty frames) x (0..16 calls in flight) x (timeout mode); \
             plus gate-forced timeout-vs-response orders, task abort at every probe point, and faults landing while a caller \
             holds the writer lock; plus the batch form of the timeout-vs-response windows (batch_json_with_timeout larger than the \
             blocking client's worker pool, one request's response parked into timeout.before_remove / reader.before_deliver / sent \
             after the return, then the rest of the batch, a second batch and a call on the same client, positional tokens); plus FORWARDED frames with caller-chosen ids (AsyncClient::forward_message[_with_timeout]) as a \
             call kind of their own: in flight at every fault of the table, timed out in the forced reader-vs-timeout orders, \
             task-aborted / future-dropped at every probe point, each followed by a retry under the SAME id; plus every fault that \
             leaves the socket open (and peer close/RST) delivered while ANOTHER task holds the writer in a large send stalled on \
             backpressure (peer stopped reading) and the peer then lingers 6 s: subscriber end-of-stream, in-flight / queued / later \
             calls must have ended before the peer releases, the stalled sender ends with an error afterwards; plus 36 malformed-header rows at the 64-bit \
             extremes (length u64::MAX / MAX-1 / 2^63(+-1) / 2^32(+-1) with query/body lengths whose sum overflows, wraps to exactly the declared or the real \
             length, is consistent but impossible, or is off by one; one field at u64::MAX) x (header alone, +3 bytes, +payload) as cells of the same matrix; plus \
             hostile content in discarded frames on a healthy connection (late responses to calls abandoned by timeout or abort after the write, unknown ids, \
             second copies of delivered responses, pushes; query / body / error text 0..8 KiB, 2-/3-/4-byte characters at every byte alignment up to 4 KiB, \
             invalid UTF-8, control characters), a probe call after every frame must be written, answered and return its own token, bystanders in flight \
             throughout return theirs. distinct = executed (kind, fault, in-flight, timeout-mode) cells and (kind, order|trigger, \
             bystanders) schedules",
        );
        let stage = args.stage.as_str();
        let thorough = args.thorough();
        let mut env = match Env::new(if thorough { 5 } else { 3 }) {
            Ok(e) => e,
            Err(e) => {
                rep.inconclusive(format!("harness setup failed: {e}"));
                return rep;
            }
        };
        let mut st = Stats::default();
        let mut rng = Rng::new(args.seed ^ 0xC06);
        quiet_panics(true);
        probes_install();
        let t0 = std::time::Instant::now();
        // wall caps (normal runs stay below: quick ~35 s, thorough ~7.3 min)
        let fault_cap = Duration::from_secs(if thorough { 250 } else { 100 });
        env.deadline = t0 + Duration::from_secs(if thorough { 490 } else { 160 });

        if matches!(stage, "main" | "faults") {
            let ns: Vec<usize> = if thorough { (0..=16).collect() } else { vec![0, 1, 2, 5, 16] };
            let tmodes: Vec<TMode> = if thorough { vec![TMode::None, TMode::All, TMode::Mixed] } else { vec![TMode::None, TMode::All] };
            let rounds = args.budget(1, 3);
            let (mut skipped_first, mut skipped_later) = (0u64, 0u64);
            let mut case = 0u64;
            for round in 0..rounds {
                for kind in KINDS {
                    for fault in faults_for(kind) {
                        for &n in &ns {
                            for &tmode in &tmodes {
                                case += 1;
                                // round 0 is the complete table; later rounds repeat it with other random choices
                                if env.hangs_left <= 0 || (round > 0 && t0.elapsed() > fault_cap) || env.stop() {
                                    if round == 0 { skipped_first += 1 } else { skipped_later += 1 }
                                    continue;
                                }
                                let mut r = rng.fork(case ^ (round << 32));
                                let ts = std::time::Instant::now();
                                run_cell(&mut env, &mut rep, &mut st, &Cell { kind, fault, n, tmode }, &mut r, case);
                                st.timed(format!("fault {} {} n={n} {}", kind.name(), fault.name(), tmode.name()), ts);
                            }
                        }
                    }
                }
            }
            rep.set("fault_table_rounds_requested", json!(rounds));
            if skipped_later > 0 {
                rep.count("fault_cells_of_repeat_rounds_not_run_wall_cap", skipped_later);
            }
            if skipped_first > 0 {
                rep.count("fault_cells_of_the_table_not_run", skipped_first);
                if rep.violations.is_empty() {
                    rep.inconclusive(format!("{skipped_first} cells of the fault table were not executed (wall cap)"));
                }
            }
        }
        // malformed headers at the 64-bit extremes (own case numbers and random streams: the table above keeps its choices)
        if matches!(stage, "main" | "faults" | "exthdr") {
            run_ext_headers(&mut env, &mut rep, &mut st, args);
        }
        if matches!(stage, "main" | "races") && !env.stop() {
            gates::run_races(&mut env, &mut rep, &mut st, &mut rng, args);
        }
        // the batch form of the forced timeout-vs-response windows (own random stream)
        if matches!(stage, "main" | "races" | "batch") && !env.stop() {
            batch::run_batch_windows(&mut env, &mut rep, &mut st, args);
        }
        if matches!(stage, "main" | "cancel") && !env.stop() {
            gates::run_cancels(&mut env, &mut rep, &mut st, &mut rng, args);
        }
        if matches!(stage, "main" | "held") && !env.stop() {
            gates::run_held(&mut env, &mut rep, &mut st, &mut rng, args);
        }
        // forwarded frames (after the older stages so that their random choices stay what they were)
        if matches!(stage, "main" | "forward") && !env.stop() {
            gates::run_fwd_races(&mut env, &mut rep, &mut st, &mut rng, args);
        }
        if matches!(stage, "main" | "forward") && !env.stop() {
            gates::run_fwd_cancels(&mut env, &mut rep, &mut st, &mut rng, args);
        }
        // hostile content in the frames a healthy client discards (own random stream)
        if matches!(stage, "main" | "hostile") && !env.stop() {
            hostile::run_hostile(&mut env, &mut rep, &mut st, args);
        }
        // faults delivered while ANOTHER task holds the writer in a stalled large send (one concurrent batch;
        // own random stream; runs even when the wall cap of the older stages is used up)
        if matches!(stage, "main" | "stalled") {
            stalled::run_stalled(&mut env, &mut rep, &mut st, args);
        }
        probes_remove();
        quiet_panics(false);

        // evidence
        let mut table = serde_json::Map::new();
        for (k, m) in &st.cells {
            let mut fm = serde_json::Map::new();
            for (f, (ns, tm)) in m {
                fm.insert(f.clone(), json!({"in_flight": ns.iter().collect::<Vec<_>>(), "timeout_modes": tm.iter().collect::<Vec<_>>()}));
            }
            table.insert(k.to_string(), Value::Object(fm));
        }
        rep.set("fault_cells_executed", json!(st.cell_count));
        rep.set("fault_cell_table", Value::Object(table));
        rep.set("schedules_executed", json!(st.sched));
        rep.set("slow_scenarios", json!(st.slow));
        rep.set("error_kinds_observed", json!(st.err_kinds.iter().map(|(k, v)| (k.clone(), v.iter().cloned().collect::<Vec<_>>())).collect::<BTreeMap<_, _>>()));
        rep.set("probe_hits", json!(ps_hits()));
        let (parks, gate_to) = ps_gate_stats();
        rep.set("gate_parks", json!(parks));
        rep.set("gate_timeouts", json!(gate_to));
        env.hb_reset();
        rep.set("heartbeat_max_gap_ms", json!(env.max_gap_all));
        if rep.evaluations == 0 {
            rep.inconclusive("no scenario executed");
        }
        rep
    }
}
