// C09 — fragmenting producer sources (textually included into `mod imp` of c09.rs), both stages.
//
// `Read` only promises "up to buf.len() bytes": a source may return fewer bytes than asked at any
// time without being at its end — a header chained to a body returns short at the seam, a socket
// returns what has arrived, a record-oriented source returns one record, any source may answer
// `ErrorKind::Interrupted` and expects to be asked again. The stream a producer emits is the
// concatenation of everything the source returns until `Ok(0)`; a source that fails (even right
// after a short read, even after its last byte) makes the stream fail. This family serves every
// producer kind that takes a byte source (`with_reader_stream`; and the write-side twin
// `with_writer_stream` with the same fragment schedules as writes/flushes) from sources of these
// shapes, healthy and failing, and applies the usual oracle through the raw client (stage raw) and
// through the library pullers (stage pullers).

mod frag {
    use super::sidecar;
    use super::slow::{AnyClient, Cl};
    use super::*;

    #[derive(Clone, Copy, Debug, PartialEq, Eq, Hash)]
    pub enum Mode {
        Full,
        RandomShort,
        OneByte,
        Records,
        Chained,
        Socket,
        Interrupted,
    }
    pub const MODES: [Mode; 7] = [Mode::Full, Mode::RandomShort, Mode::OneByte, Mode::Records, Mode::Chained, Mode::Socket, Mode::Interrupted];
    impl Mode {
        pub fn tag(&self) -> &'static str {
            match self {
                Mode::Full => "full-reads",
                Mode::RandomShort => "random-short-reads",
                Mode::OneByte => "one-byte-reads",
                Mode::Records => "1000-byte-records",
                Mode::Chained => "chained-readers",
                Mode::Socket => "socket-like-bursts",
                Mode::Interrupted => "interrupted-reads",
            }
        }
        fn idx(&self) -> usize {
            MODES.iter().position(|m| m == self).unwrap()
        }
    }

    /// What the sources of one server did (evidence; the verdicts do not depend on it).
    #[derive(Default)]
    pub struct SrcStats {
        reads: AtomicU64,
        short_before_end: AtomicU64,
        interrupted: AtomicU64,
        errors: AtomicU64,
        asked_again_after_error: AtomicU64,
        eof_reported: AtomicU64,
    }

    /// Resource key: `m=<mode>;fs=<fragment seed>;` + the usual spec.
    fn res_of(mode: Mode, fs: u64, spec: &Spec) -> String {
        format!("m={};fs={};{}", mode.idx(), fs & 0xFFFF_FFFF, spec.res())
    }
    fn parse_res(res: &str) -> Option<(Mode, u64, Spec)> {
        let spec = Spec::parse(res)?;
        let get = |k: &str| res.split(';').find_map(|kv| kv.strip_prefix(k)).and_then(|v| v.parse::<u64>().ok());
        Some((*MODES.get(get("m=")? as usize)?, get("fs=")?, spec))
    }

    /// The fragment schedule of one source: how many bytes the next read/write moves.
    struct Sched {
        mode: Mode,
        r: Rng,
        max: usize,
        seams: Vec<usize>,
    }
    impl Sched {
        fn new(mode: Mode, fs: u64, len: usize, chunk_hint: usize) -> Sched {
            let mut r = Rng::new(fs ^ 0xF4A6);
            let max = *r.pick(&[2usize, 7, 100, 5000, 70_000]);
            // seams of the chained source: a short header, then bodies; some seams sit on multiples of the chunk size
            let mut seams = vec![];
            if len > 0 {
                seams.push((1 + r.usize_below(48)).min(len));
                for _ in 0..r.usize_below(3) {
                    let s = if r.coin() && chunk_hint < len { chunk_hint * (1 + r.usize_below(len / chunk_hint.max(1))) } else { r.usize_below(len + 1) };
                    seams.push(s.min(len));
                }
            }
            seams.sort();
            seams.dedup();
            Sched { mode, r, max, seams }
        }
        /// bytes to move at `pos` when `cap` (>0) could be moved
        fn step(&mut self, pos: usize, cap: usize) -> usize {
            match self.mode {
                Mode::Full => cap,
                Mode::OneByte => 1,
                Mode::RandomShort | Mode::Interrupted => 1 + self.r.usize_below(cap.min(self.max)),
                Mode::Records => cap.min(1000 - pos % 1000),
                Mode::Chained => cap.min(self.seams.iter().find(|s| **s > pos).map(|s| s - pos).unwrap_or(cap)),
                Mode::Socket => {
                    if self.r.chance(1, 10) {
                        std::thread::sleep(Duration::from_micros(self.r.below(300)));
                    }
                    cap.min(1 + self.r.usize_below(1500))
                }
            }
        }
    }

    /// The byte source handed to `with_reader_stream`.
    struct FragRead {
        data: Vec<u8>,
        pos: usize,
        fail: Option<usize>,
        failed: bool,
        just_interrupted: bool,
        sched: Sched,
        stats: Arc<SrcStats>,
    }
    impl Read for FragRead {
        fn read(&mut self, out: &mut [u8]) -> io::Result<usize> {
            self.stats.reads.fetch_add(1, Ordering::Relaxed);
            if self.failed {
                self.stats.asked_again_after_error.fetch_add(1, Ordering::Relaxed);
                return Err(io::Error::other("injected source failure (asked again)"));
            }
            if self.sched.mode == Mode::Interrupted && !self.just_interrupted && self.sched.r.chance(1, 3) {
                self.just_interrupted = true;
                self.stats.interrupted.fetch_add(1, Ordering::Relaxed);
                return Err(io::Error::new(io::ErrorKind::Interrupted, "interrupted, ask again"));
            }
            self.just_interrupted = false;
            let lim = self.fail.map(|k| k.min(self.data.len())).unwrap_or(self.data.len());
            if self.pos >= lim {
                if let Some(k) = self.fail {
                    self.failed = true;
                    self.stats.errors.fetch_add(1, Ordering::Relaxed);
                    return Err(io::Error::other(format!("injected source failure after {k} bytes")));
                }
                self.stats.eof_reported.fetch_add(1, Ordering::Relaxed);
                return Ok(0);
            }
            if out.is_empty() {
                return Ok(0);
            }
            let cap = out.len().min(lim - self.pos);
            let n = self.sched.step(self.pos, cap).clamp(1, cap);
            out[..n].copy_from_slice(&self.data[self.pos..self.pos + n]);
            self.pos += n;
            if n < out.len() && self.pos < lim {
                self.stats.short_before_end.fetch_add(1, Ordering::Relaxed);
            }
            Ok(n)
        }
    }

    /// A tail that only fails (chained behind the segments of a failing chained source).
    struct ErrTail {
        k: usize,
        stats: Arc<SrcStats>,
        failed: bool,
    }
    impl Read for ErrTail {
        fn read(&mut self, _out: &mut [u8]) -> io::Result<usize> {
            if self.failed {
                self.stats.asked_again_after_error.fetch_add(1, Ordering::Relaxed);
            } else {
                self.stats.errors.fetch_add(1, Ordering::Relaxed);
            }
            self.failed = true;
            Err(io::Error::other(format!("injected source failure after {} bytes", self.k)))
        }
    }

    /// Counts the reads of a composed source.
    struct Counted {
        inner: Box<dyn Read + Send>,
        pos: usize,
        lim: usize,
        stats: Arc<SrcStats>,
    }
    impl Read for Counted {
        fn read(&mut self, out: &mut [u8]) -> io::Result<usize> {
            self.stats.reads.fetch_add(1, Ordering::Relaxed);
            let n = self.inner.read(out)?;
            self.pos += n;
            if n == 0 && !out.is_empty() {
                self.stats.eof_reported.fetch_add(1, Ordering::Relaxed);
            } else if n < out.len() && self.pos < self.lim {
                self.stats.short_before_end.fetch_add(1, Ordering::Relaxed);
            }
            Ok(n)
        }
    }

    fn source(mode: Mode, fs: u64, spec: &Spec, chunk: usize, stats: Arc<SrcStats>) -> Box<dyn Read + Send> {
        let data = svs::payload(spec.seed, spec.p, spec.compressible);
        let sched = Sched::new(mode, fs, data.len(), chunk);
        if mode == Mode::Chained {
            // the real thing: `Read::chain` over in-memory segments (a header, then bodies)
            let lim = spec.fail.map(|k| k.min(data.len())).unwrap_or(data.len());
            let mut cuts: Vec<usize> = sched.seams.iter().copied().filter(|s| *s < lim).collect();
            cuts.push(lim);
            let mut r: Box<dyn Read + Send> = Box::new(io::empty());
            let mut from = 0;
            for c in cuts {
                r = Box::new(r.chain(io::Cursor::new(data[from..c].to_vec())));
                from = c;
            }
            if let Some(k) = spec.fail {
                r = Box::new(r.chain(ErrTail { k, stats: stats.clone(), failed: false }));
            }
            return Box::new(Counted { inner: r, pos: 0, lim, stats });
        }
        Box::new(FragRead { data, pos: 0, fail: spec.fail, failed: false, just_interrupted: false, sched, stats })
    }

    /// The write-side twin: the same fragment schedule as `write` calls (honouring short writes) and flushes.
    fn write_fragments(mode: Mode, fs: u64, spec: &Spec, chunk: usize, w: &mut dyn Write) -> io::Result<()> {
        let data = svs::payload(spec.seed, spec.p, spec.compressible);
        let mut sched = Sched::new(mode, fs, data.len(), chunk);
        let end = spec.fail.map(|k| k.min(data.len())).unwrap_or(data.len());
        let mut pos = 0;
        while pos < end {
            let n = sched.step(pos, end - pos).clamp(1, end - pos);
            let mut done = 0;
            while done < n {
                let m = w.write(&data[pos + done..pos + n])?;
                if m == 0 {
                    return Err(io::Error::new(io::ErrorKind::WriteZero, "the stream sink accepted no bytes"));
                }
                done += m;
            }
            pos += n;
            if matches!(mode, Mode::Records | Mode::Socket | Mode::Chained) || (mode == Mode::Interrupted && sched.r.chance(1, 3)) {
                w.flush()?;
            }
        }
        if let Some(k) = spec.fail {
            return Err(io::Error::other(format!("injected writer failure after {k} bytes")));
        }
        Ok(())
    }

    fn router(kind: Kind, opts: StreamOpts, stats: Arc<SrcStats>) -> Router {
        let chunk = opts.chunk_bytes;
        match kind {
            Kind::Reader => Router::new().with_reader_stream(move |res: &str| parse_res(res).map(|(m, fs, spec)| source(m, fs, &spec, chunk, stats.clone())), opts),
            _ => Router::new().with_writer_stream(
                BodyFormat::RawBinary,
                move |res: &str| parse_res(res).map(|(m, fs, spec)| Box::new(move |w: &mut dyn Write| write_fragments(m, fs, &spec, chunk, w)) as BoxWriter),
                opts,
            ),
        }
    }

    #[derive(Clone, Debug)]
    pub struct Plan {
        tr: Tr,
        kind: Kind,
        chunk: usize,
        depth: usize,
        zstd: bool,
        seed: u64,
        raw: bool,
        thorough: bool,
    }
    impl Plan {
        fn opts(&self) -> StreamOpts {
            StreamOpts { chunk_bytes: self.chunk, compression: if self.zstd { Compression::Zstd } else { Compression::None }, zstd_level: 3, session_depth: self.depth }
        }
        fn json(&self) -> Value {
            json!({"family": "fragmenting-source", "transport": format!("{:?}", self.tr), "producer": self.kind.name(), "chunk_bytes": self.chunk, "session_depth": self.depth, "zstd": self.zstd})
        }
    }

    /// (mode, fragment seed, spec) cases of one plan.
    fn cases(plan: &Plan, rng: &mut Rng) -> Vec<(Mode, u64, Spec)> {
        let c = plan.chunk;
        let cap = if c <= 3 { 2500 } else { 90_000 };
        let mut v = vec![];
        for mode in MODES {
            if mode == Mode::Interrupted && plan.kind != Kind::Reader {
                continue;
            }
            let mut lens = vec![
                0usize,
                1 + rng.usize_below(2 * c.min(4000) + 2),
                (c * (2 + rng.usize_below(4))).min(cap),
                (c * (1 + rng.usize_below(3)) + 1 + rng.usize_below(c)).min(cap),
                (8192 + 17 + rng.usize_below(20_000)).min(cap),
            ];
            if plan.thorough {
                lens.extend([c.saturating_sub(1).min(cap), (3000 + rng.usize_below(3000)).min(cap), rng.usize_below(cap)]);
            }
            lens.dedup();
            for (i, &n) in lens.iter().enumerate() {
                let spec = Spec { p: n, seed: rng.below(1 << 40), compressible: i % 3 == 2, fail: None, panic: false, delay: false, vt: 0 };
                v.push((mode, rng.next_u64(), spec));
            }
            // failing sources: after a short read / exactly on a chunk boundary / before the first byte / after the last byte
            let big = (c * 3 + 1 + rng.usize_below(c)).min(cap).max(4);
            let mut ks = vec![1 + rng.usize_below(big - 1), (c * (1 + rng.usize_below(3))).min(big), 0, big];
            if !plan.thorough {
                ks = vec![ks[0], ks[1], if rng.coin() { ks[2] } else { ks[3] }];
            }
            for k in ks {
                let spec = Spec { p: big, seed: rng.below(1 << 40), compressible: rng.coin(), fail: Some(k), panic: false, delay: false, vt: 0 };
                v.push((mode, rng.next_u64(), spec));
            }
        }
        v
    }

    fn case_json(plan: &Plan, mode: Mode, res: &str, expected_len: usize) -> Value {
        let mut j = plan.json();
        j["source"] = json!(mode.tag());
        j["resource"] = json!(res);
        j["logical_len"] = json!(expected_len);
        j
    }

    fn raw_plan<T: RawTransport>(cl: &mut RawSvs<T>, plan: &Plan, acc: &mut Acc) -> Result<(), String> {
        let mut rng = Rng::new(plan.seed ^ 0xF4A9);
        let producer = plan.kind.class();
        for (mode, fs, spec) in cases(plan, &mut rng) {
            let expected = svs::payload(spec.seed, spec.p, spec.compressible);
            let res = res_of(mode, fs, &spec);
            let p = sidecar::raw_pull_all(cl, &res, expected.len(), None)?;
            acc.evals += 1;
            acc.count("fragmenting_source_raw_streams", 1);
            acc.count("chunks_observed", p.chunks.len() as u64);
            acc.distinct.push(hash_of(&("frag-raw", plan.kind, plan.tr, plan.chunk, plan.zstd, mode, spec.fail.map(|k| (k == 0, k % plan.chunk == 0, k >= spec.p)), p.chunks.len().min(7))));
            let (defects, exact) = sidecar::raw_defects(&p, plan.zstd, false, plan.chunk, &expected, spec.fail);
            for (what, detail) in defects {
                acc.violation(
                    format!("C09:fragmenting-source:{producer}:{}:raw:{what}", mode.tag()),
                    format!("{producer} producer over a source with {} (chunk_bytes {}), raw client: {detail}", mode.tag(), plan.chunk),
                    case_json(plan, mode, &res, expected.len()),
                );
            }
            if exact {
                acc.count("fragmenting_source_streams_exact", 1);
                acc.count(&format!("fragmenting_source_streams_exact[{}]", mode.tag()), 1);
                acc.count("streams_completed", 1);
            } else if spec.fail.is_some() && matches!(p.end, sidecar::RawEnd::ErrResp(..)) {
                acc.count("fragmenting_source_failures_surfaced_as_error", 1);
                acc.count("producer_failures_surfaced_as_error", 1);
            }
        }
        Ok(())
    }

    fn puller_plan(plan: &Plan, addr: SocketAddr, rt: &Arc<tokio::runtime::Runtime>, acc: &mut Acc) -> Result<(), String> {
        let mut rng = Rng::new(plan.seed ^ 0xF4AA);
        let producer = plan.kind.class();
        let clients: Vec<(Cl, AnyClient)> = match plan.tr {
            Tr::Tcp => vec![
                (Cl::Sync, AnyClient::Sync(Client::connect(addr).map_err(|e| format!("Client::connect: {e}"))?)),
                (Cl::Async, AnyClient::Async(rt.block_on(AsyncClient::connect(addr)).map_err(|e| format!("AsyncClient::connect: {e}"))?)),
            ],
            Tr::Ws => vec![(Cl::Ws, AnyClient::Ws(rt.block_on(WebSocketClient::connect(&format!("ws://{addr}/repe"))).map_err(|e| format!("WebSocketClient::connect: {e}"))?))],
        };
        let dir = svs::fresh_dir("c09-frag");
        let mut n = 0u64;
        for (mode, fs, spec) in cases(plan, &mut rng) {
            let expected = svs::payload(spec.seed, spec.p, spec.compressible);
            let res = res_of(mode, fs, &spec);
            for (cl, client) in &clients {
                // every client pulls every case with one seeded byte puller; the three pullers rotate
                let pk = [Pk::ToVec, Pk::Consume, Pk::ToFile][(n as usize + rng.usize_below(3)) % 3];
                let pks = if plan.thorough { vec![Pk::ToVec, Pk::Consume, Pk::ToFile] } else { vec![pk] };
                for pk in pks {
                    n += 1;
                    let dest = dir.join(format!("dest-{n}.bin"));
                    let s = rng.next_u64();
                    let got = match client {
                        AnyClient::Sync(c) => slow::pull_bytes_sync(pk, plan.kind, &res, c, &dest, s, plan.chunk),
                        AnyClient::Async(c) => rt.block_on(slow::pull_bytes_async(pk, plan.kind, &res, c, &dest, s, plan.chunk)),
                        AnyClient::Ws(c) => rt.block_on(slow::pull_bytes_async(pk, plan.kind, &res, c, &dest, s, plan.chunk)),
                    };
                    let published = std::fs::read(&dest).ok();
                    let _ = std::fs::remove_file(&dest);
                    let puller = pk.name(plan.kind, *cl != Cl::Sync);
                    acc.evals += 1;
                    acc.count("fragmenting_source_pulls", 1);
                    acc.distinct.push(hash_of(&("frag", plan.kind, plan.tr, plan.chunk, plan.zstd, mode, *cl, pk, spec.fail.map(|k| (k == 0, k % plan.chunk == 0, k >= spec.p)), (expected.len() / plan.chunk).min(7))));
                    if let Err(e) = &got {
                        if e.starts_with("harness:") {
                            acc.inconclusive.push(format!("fragmenting-source family, {puller} over {}: {e}", cl.name()));
                            continue;
                        }
                        if let Some(f) = &published {
                            if *f != expected {
                                acc.violation(
                                    format!("C09:fragmenting-source:{producer}:{}:{puller}:error-but-wrong-file-published", mode.tag()),
                                    format!("{puller} over {} failed ({}) yet a destination file with {} bytes (producer: {}) exists", cl.name(), trunc(e, 100), f.len(), expected.len()),
                                    case_json(plan, mode, &res, expected.len()),
                                );
                            }
                        }
                    }
                    match sidecar::pull_defect(&got, &expected, spec.fail, plan.chunk) {
                        Some((what, detail)) => acc.violation(
                            format!("C09:fragmenting-source:{producer}:{}:{puller}:{what}", mode.tag()),
                            format!("{puller} over {} from a {producer} producer over a source with {} (chunk_bytes {}) {detail}", cl.name(), mode.tag(), plan.chunk),
                            case_json(plan, mode, &res, expected.len()),
                        ),
                        None if spec.fail.is_some() => {
                            acc.count("fragmenting_source_failures_surfaced_as_error", 1);
                            acc.count("pulls_failing_as_required", 1);
                        }
                        None => {
                            acc.count("fragmenting_source_pulls_exact", 1);
                            acc.count(&format!("fragmenting_source_pulls_exact[{}]", mode.tag()), 1);
                            acc.count("pulls_matching", 1);
                        }
                    }
                }
            }
        }
        let _ = std::fs::remove_dir_all(&dir);
        Ok(())
    }

    fn work(plan: &Plan, rt: &Arc<tokio::runtime::Runtime>, acc: &mut Acc) {
        let stats = Arc::new(SrcStats::default());
        let srv = match start_server_with(router(plan.kind, plan.opts(), stats.clone()), plan.tr, rt) {
            Ok(s) => s,
            Err(e) => {
                acc.inconclusive.push(format!("fragmenting-source family: server start: {e}"));
                return;
            }
        };
        let r = if plan.raw {
            match plan.tr {
                Tr::Tcp => TcpRaw::connect(srv.addr).and_then(|t| {
                    let mut cl = RawSvs::new(t);
                    let r = raw_plan(&mut cl, plan, acc);
                    acc.count("frames_sent", cl.frames_sent);
                    acc.count("frames_received", cl.frames_received);
                    r
                }),
                Tr::Ws => WsRaw::connect(rt.clone(), &format!("ws://{}/repe", srv.addr)).and_then(|t| {
                    let mut cl = RawSvs::new(t);
                    let r = raw_plan(&mut cl, plan, acc);
                    acc.count("frames_sent", cl.frames_sent);
                    acc.count("frames_received", cl.frames_received);
                    r
                }),
            }
        } else {
            puller_plan(plan, srv.addr, rt, acc)
        };
        if let Err(e) = r {
            acc.inconclusive.push(format!("fragmenting-source family trouble on {plan:?}: {e}"));
        }
        acc.count("fragmenting_source_plans", 1);
        let g = |a: &AtomicU64| a.load(Ordering::Relaxed);
        acc.count("fragmenting_source_reads_served", g(&stats.reads));
        acc.count("fragmenting_source_short_reads_before_the_end", g(&stats.short_before_end));
        acc.count("fragmenting_source_interrupted_reads", g(&stats.interrupted));
        acc.count("fragmenting_source_errors_returned", g(&stats.errors));
        acc.count("fragmenting_source_sources_read_to_eof", g(&stats.eof_reported));
        if g(&stats.asked_again_after_error) > 0 {
            acc.count("fragmenting_source_asked_again_after_error", g(&stats.asked_again_after_error));
        }
    }

    fn plans(args: &Args, raw: bool) -> Vec<Plan> {
        let mut rng = Rng::new(args.seed ^ 0xC09_F4A6 ^ raw as u64);
        let thorough = args.thorough();
        let mut v = vec![];
        let mut i = args.seed as usize;
        for chunk in [1usize, 3, 64, 1000, 4096, 65536] {
            for zstd in [false, true] {
                for kind in [Kind::Reader, Kind::Writer] {
                    i += 1;
                    let trs = if thorough || kind == Kind::Reader && !zstd { vec![Tr::Tcp, Tr::Ws] } else if i % 2 == 0 { vec![Tr::Tcp] } else { vec![Tr::Ws] };
                    for tr in trs {
                        let depths = if thorough { vec![*rng.pick(&[0usize, 1]), 2 + rng.usize_below(7)] } else { vec![*rng.pick(&[0usize, 1, 2, 4, 8])] };
                        for depth in depths {
                            v.push(Plan { tr, kind, chunk, depth, zstd, seed: rng.next_u64(), raw, thorough });
                        }
                    }
                }
            }
        }
        rng.shuffle(&mut v);
        let n = args.budget(v.len() as u64, v.len() as u64) as usize;
        v.truncate(n.max(1).min(v.len()));
        v
    }

    pub fn spawn(args: &Args, raw: bool) -> sidecar::Family {
        let window = Duration::from_secs(if args.thorough() { 420 } else { 45 });
        // the plans mostly wait for round trips: more threads than cores are fine
        sidecar::spawn("fragmenting-source", plans(args, raw), if args.thorough() { 12 } else { 8 }, window, work)
    }
}
