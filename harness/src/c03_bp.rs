//! C03 helper: WebSocket servers with SHORT outbound queues, and the peers that make them back up.
//!
//! `WebSocketServer::with_outbound_capacity(n)` for n = 1, 2, 3, 8 (inline router; 1 and 3 for the router whose handlers
//! are all marked off-reader), each once on a current-thread runtime of its own (one OS thread: the connection's
//! writer task cannot run while the reader works through frames that are already buffered, so the queue is full after
//! n answers — deterministic) and once on the shared multi-thread runtime (the queue is full when the writer is
//! parked on a socket the peer does not drain, or simply has not been scheduled yet — schedule dependent).
//!
//! The raw peers (c03_cli.rs `ws_conn_bp`) write the WHOLE pipeline before they read anything (bounded: a peer that
//! never reads while the queue and both socket buffers are full stalls the server's reader — legitimate back-pressure —
//! and with it the peer's own writes, so reading starts at the latest after `grace`), or read slowly, some of them with
//! a small receive buffer so that a few large responses are enough to park the server's writer.
//!
//! The oracle is the one of every other pipeline class (c03.rs `check_server` + `differential`): exactly one response
//! per non-notify request with the request's id / query echo / the statement's code / the handler's result, none per
//! notify, handlers run exactly once and never for a rejected request, responses of requests answered on the reader
//! (rejections are produced there too) in arrival order, the same fields as on the TCP servers.

use super::cli::BpPeer;
use super::srv::{self, Srv, Tr};
use crate::common::Rng;
use repe::WebSocketServer;
use std::net::SocketAddr;
use std::time::Duration;

pub const CAPS_INLINE: [usize; 4] = [1, 2, 3, 8];
pub const CAPS_OFF: [usize; 2] = [1, 3];
const FIRST_SID: u8 = 64;

fn ws_server(sid: u8, off: bool, cap: usize) -> WebSocketServer {
    // saturation disabled (limit 0 = unbounded) so C16 behaviour cannot leak in, as for the servers of the main class
    WebSocketServer::new(srv::build_router(sid, off, false)).with_outbound_capacity(cap).with_offreader_limit(0).on_error(|_| {})
}

/// A server on a current-thread runtime that lives on an OS thread of its own (until process exit).
fn start_current_thread(sid: u8, off: bool, cap: usize) -> std::io::Result<SocketAddr> {
    let (tx, rx) = std::sync::mpsc::channel::<std::io::Result<SocketAddr>>();
    std::thread::Builder::new().name(format!("c03-bp-ct{sid}")).spawn(move || {
        let rt = match tokio::runtime::Builder::new_current_thread().enable_all().build() {
            Ok(rt) => rt,
            Err(e) => {
                let _ = tx.send(Err(e));
                return;
            }
        };
        rt.block_on(async move {
            let l = match tokio::net::TcpListener::bind("127.0.0.1:0").await {
                Ok(l) => l,
                Err(e) => {
                    let _ = tx.send(Err(e));
                    return;
                }
            };
            let _ = tx.send(l.local_addr());
            let _ = ws_server(sid, off, cap).serve_listener(l, "/ws").await;
        });
    })?;
    rx.recv_timeout(Duration::from_secs(10)).map_err(|_| std::io::Error::other("current-thread server did not come up"))?
}

pub fn start(mt: &tokio::runtime::Runtime) -> std::io::Result<Vec<Srv>> {
    let mut v = vec![];
    let mut sid = FIRST_SID;
    for (off, caps) in [(false, &CAPS_INLINE[..]), (true, &CAPS_OFF[..])] {
        for &cap in caps {
            for ct in [true, false] {
                let addr = if ct {
                    start_current_thread(sid, off, cap)?
                } else {
                    let l = mt.block_on(tokio::net::TcpListener::bind("127.0.0.1:0"))?;
                    let addr = l.local_addr()?;
                    let s = ws_server(sid, off, cap);
                    mt.spawn(async move {
                        let _ = s.serve_listener(l, "/ws").await;
                    });
                    addr
                };
                let tag = format!("outq{cap}-{}", if ct { "current-thread" } else { "multi-thread" });
                v.push(Srv { sid, tr: if off { Tr::WsOff } else { Tr::WsInline }, mw: false, addr, tag: Some(tag) });
                sid += 1;
            }
        }
    }
    Ok(v)
}

pub fn is_current_thread(s: &Srv) -> bool {
    s.tag.as_deref().map(|t| t.ends_with("current-thread")).unwrap_or(false)
}

/// How the peer of one connection behaves (name for the counters, parameters).
pub fn peer_for(rng: &mut Rng, grace: Duration) -> (&'static str, BpPeer) {
    let hold = Duration::from_millis(*rng.pick(&[0u64, 0, 3, 10, 25]));
    match rng.below(8) {
        0..=3 => ("writes-all-then-reads", BpPeer { rcvbuf: None, write_first: true, hold, grace, slow: Duration::ZERO, slow_n: 0 }),
        4 | 5 => {
            let rcvbuf = *rng.pick(&[4096u32, 16 * 1024, 64 * 1024]);
            ("writes-all-then-reads+small-rcvbuf", BpPeer { rcvbuf: Some(rcvbuf), write_first: true, hold, grace, slow: Duration::ZERO, slow_n: 0 })
        }
        6 => {
            let slow = Duration::from_millis(1 + rng.below(4));
            ("reads-slowly", BpPeer { rcvbuf: if rng.chance(1, 2) { Some(8192) } else { None }, write_first: false, hold, grace, slow, slow_n: 8 + rng.usize_below(40) })
        }
        _ => {
            let slow = Duration::from_millis(1 + rng.below(3));
            ("writes-all-then-reads-slowly", BpPeer { rcvbuf: if rng.chance(1, 2) { Some(8192) } else { None }, write_first: true, hold, grace, slow, slow_n: 8 + rng.usize_below(24) })
        }
    }
}
