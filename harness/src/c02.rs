//! C02 — hostile bytes never crash a parser or reader; only consistent frames parse.
//! Oracle: (a) crash freedom via catch_unwind / child-process exit status, (b) validity predicate
//! computed independently in 128-bit arithmetic (oracle::valid_parse), (c) on success the returned
//! header/query/body equal the oracle's decode of the input bytes.

use crate::c01::ChunkyReader;
use crate::common::*;
use crate::oracle::{self, SpecHeader};
use repe::{Header, Message, MessageView};
use serde_json::json;
use std::io::Write;

const MIB16: u64 = 16 << 20;

fn len_class(rng: &mut Rng, l: u64) -> u64 {
    const K: [u64; 10] = [0, 1, 2, 1 << 31, 1 << 32, 1 << 62, 1 << 63, u64::MAX, u64::MAX - 1, u64::MAX - 47];
    match rng.below(10) {
        0 => *rng.pick(&K),
        1 => l,
        2 => l.wrapping_sub(1),
        3 => l.wrapping_add(1),
        4 => l.wrapping_sub(48),
        5 => l.wrapping_sub(47),
        6 => rng.below(64),
        7 => u64::MAX - rng.below(100),
        8 => rng.pick(&K).wrapping_add(rng.below(97)).wrapping_sub(48),
        _ => rng.boundary_u64(),
    }
}

/// One hostile input. Returns (kind label, bytes).
fn gen_input(rng: &mut Rng, max: usize) -> (&'static str, Vec<u8>) {
    let valid_frame = |rng: &mut Rng| {
        let ql = rng.usize_below(40);
        let blmax = if rng.coin() { 40 } else { max.saturating_sub(100).max(1) };
        let bl = rng.usize_below(blmax);
        let mut h = SpecHeader {
            spec: oracle::SPEC,
            version: rng.boundary_u8(),
            notify: rng.boundary_u8(),
            reserved: rng.boundary_u32(),
            id: rng.boundary_u64(),
            query_format: rng.boundary_u16(),
            body_format: rng.boundary_u16(),
            ec: rng.boundary_u32(),
            ..Default::default()
        };
        h.length = 0;
        let q = rng.bytes(ql);
        let b = rng.bytes(bl);
        oracle::frame(h, &q, &b)
    };
    match rng.below(10) {
        0 => {
            let nmax = if rng.coin() { 100 } else { max + 1 };
            let n = rng.usize_below(nmax);
            ("random", rng.bytes(n))
        }
        1 => {
            // random bytes with the magic planted
            let n = 48 + rng.usize_below(200);
            let mut v = rng.bytes(n);
            v[8] = 0x07;
            v[9] = 0x15;
            ("random+magic", v)
        }
        2 => ("valid", valid_frame(rng)),
        3 => {
            let mut v = valid_frame(rng);
            let flips = 1 + rng.usize_below(3);
            for _ in 0..flips {
                let i = rng.usize_below(v.len().min(48));
                v[i] ^= 1 << rng.below(8);
            }
            ("bitflip-header", v)
        }
        4 => {
            let mut v = valid_frame(rng);
            let k = rng.usize_below(v.len() + 1);
            v.truncate(k);
            ("truncated", v)
        }
        5 => {
            let mut v = valid_frame(rng);
            let extra = 1 + rng.usize_below(60);
            v.extend(rng.bytes(extra));
            ("trailing", v)
        }
        6 => {
            // splice two frames
            let a = valid_frame(rng);
            let b = valid_frame(rng);
            let i = rng.usize_below(a.len() + 1);
            let j = rng.usize_below(b.len() + 1);
            let mut v = a[..i].to_vec();
            v.extend_from_slice(&b[j..]);
            ("splice", v)
        }
        7 | 8 => {
            // the three length fields over boundary classes relative to the buffer length
            let tmax = if rng.coin() { 64 } else { 600 };
            let total = 48 + rng.usize_below(tmax);
            let mut v = rng.bytes(total);
            let l = total as u64;
            let mut h = SpecHeader::decode(&v);
            h.spec = oracle::SPEC;
            h.length = len_class(rng, l);
            h.query_length = len_class(rng, l);
            h.body_length = len_class(rng, l);
            v[..48].copy_from_slice(&h.encode());
            ("length-classes", v)
        }
        _ => {
            // triples whose 64-bit sum wraps to the declared length (or to the buffer length)
            let total = 48 + rng.usize_below(200);
            let mut v = rng.bytes(total);
            let mut h = SpecHeader::decode(&v);
            h.spec = oracle::SPEC;
            h.query_length = match rng.below(4) {
                0 => u64::MAX,
                1 => u64::MAX - rng.below(64),
                2 => 1 << 63,
                _ => rng.boundary_u64(),
            };
            h.body_length = match rng.below(4) {
                0 => 1,
                1 => rng.below(200),
                2 => (total as u64).wrapping_sub(48).wrapping_sub(h.query_length),
                _ => 1 << 63,
            };
            h.length = if rng.chance(3, 4) { 48u64.wrapping_add(h.query_length).wrapping_add(h.body_length) } else { total as u64 };
            v[..48].copy_from_slice(&h.encode());
            ("wrapping-sum", v)
        }
    }
}

#[derive(Debug, PartialEq)]
enum Outcome {
    Ok(SpecHeader, Vec<u8>, Vec<u8>),
    Err(String),
}

fn slice_entry(name: &str, input: &[u8]) -> Outcome {
    let conv_m = |m: Message| Outcome::Ok(SpecHeader::from_repe(&m.header), m.query, m.body);
    let conv_v = |m: MessageView| Outcome::Ok(SpecHeader::from_repe(&m.header), m.query.to_vec(), m.body.to_vec());
    match name {
        "Header::decode" => match Header::decode(input) {
            Ok(h) => Outcome::Ok(SpecHeader::from_repe(&h), vec![], vec![]),
            Err(e) => Outcome::Err(e.to_string()),
        },
        "Message::from_slice" => Message::from_slice(input).map(conv_m).unwrap_or_else(|e| Outcome::Err(e.to_string())),
        "Message::from_slice_exact" => Message::from_slice_exact(input).map(conv_m).unwrap_or_else(|e| Outcome::Err(e.to_string())),
        "MessageView::from_slice" => MessageView::from_slice(input).map(conv_v).unwrap_or_else(|e| Outcome::Err(e.to_string())),
        "MessageView::from_slice_exact" => MessageView::from_slice_exact(input).map(conv_v).unwrap_or_else(|e| Outcome::Err(e.to_string())),
        _ => unreachable!(),
    }
}

const SLICE_ENTRIES: [(&str, bool); 5] = [
    ("Header::decode", false),
    ("Message::from_slice", false),
    ("Message::from_slice_exact", true),
    ("MessageView::from_slice", false),
    ("MessageView::from_slice_exact", true),
];

pub const READERS: [&str; 4] = ["read_message", "read_message_into", "read_message_async", "read_message_into_async"];

fn reader_entry(name: &str, input: &[u8], rng: &mut Rng, rt: &tokio::runtime::Runtime) -> (Outcome, usize) {
    let conv_m = |m: Message| Outcome::Ok(SpecHeader::from_repe(&m.header), m.query, m.body);
    let from_buf = |buf: &Vec<u8>| match MessageView::from_slice_exact(buf) {
        Ok(m) => Outcome::Ok(SpecHeader::from_repe(&m.header), m.query.to_vec(), m.body.to_vec()),
        Err(e) => Outcome::Ok(SpecHeader::default(), format!("reader returned Ok but buffer does not parse: {e}").into_bytes(), vec![]),
    };
    match name {
        "read_message" => {
            let mut rd = ChunkyReader::new(input, rng.fork(1), 1 + rng.usize_below(4096));
            let r = repe::read_message(&mut rd).map(conv_m).unwrap_or_else(|e| Outcome::Err(e.to_string()));
            (r, rd.consumed())
        }
        "read_message_into" => {
            let mut rd = ChunkyReader::new(input, rng.fork(2), 1 + rng.usize_below(4096));
            // a reused per-connection buffer: stale content and spare capacity left by a larger earlier frame
            let mut buf = Vec::with_capacity(rng.usize_below(70_000));
            let stale = rng.usize_below(100);
            buf.extend(std::iter::repeat(0x55u8).take(stale));
            let r = match repe::read_message_into(&mut rd, &mut buf) {
                Ok(()) => from_buf(&buf),
                Err(e) => Outcome::Err(e.to_string()),
            };
            (r, rd.consumed())
        }
        "read_message_async" => rt.block_on(async {
            let mut rd: &[u8] = input;
            let r = repe::async_io::read_message_async(&mut rd).await.map(conv_m).unwrap_or_else(|e| Outcome::Err(e.to_string()));
            (r, input.len() - rd.len())
        }),
        "read_message_into_async" => rt.block_on(async {
            let mut rd: &[u8] = input;
            let mut buf = Vec::with_capacity(rng.usize_below(70_000));
            buf.extend_from_slice(&[0x55u8; 3]);
            let r = match repe::async_io::read_message_into_async(&mut rd, &mut buf).await {
                Ok(()) => from_buf(&buf),
                Err(e) => Outcome::Err(e.to_string()),
            };
            (r, input.len() - rd.len())
        }),
        _ => unreachable!(),
    }
}

fn check_case(rep: &mut Report, kind: &str, input: &[u8], rng: &mut Rng, rt: &tokio::runtime::Runtime, allow_readers: bool) {
    let desc = |entry: &str| json!({"entry": entry, "kind": kind, "input_hex": hex_trunc(input, 256), "input_len": input.len()});
    let hdr = if input.len() >= 48 { Some(SpecHeader::decode(input)) } else { None };
    for (entry, exact) in SLICE_ENTRIES {
        rep.eval();
        let want = if entry == "Header::decode" {
            hdr.filter(|h| h.consistent()).map(|h| (h, 0usize, 0usize))
        } else {
            oracle::valid_parse(input, exact)
        };
        let got = catching(|| slice_entry(entry, input));
        rep.distinct(&(kind, entry, want.is_some(), input.len().min(49)));
        match (got, want) {
            (Err(p), _) => rep.violation(
                format!("C02:panic:{entry}:{}", panic_site(&p)),
                format!("{entry} panicked on a {kind} input of {} bytes: {p}; header {:?}", input.len(), hdr),
                desc(entry),
            ),
            (Ok(Outcome::Err(_)), None) => rep.count("rejected_as_required", 1),
            (Ok(Outcome::Err(e)), Some(_)) => rep.violation(
                format!("C02:rejects-consistent:{entry}"),
                format!("{entry} rejected a consistent frame ({kind}, {} bytes): {e}", input.len()),
                desc(entry),
            ),
            (Ok(Outcome::Ok(h, _, _)), None) => rep.violation(
                format!("C02:accepts-inconsistent:{entry}"),
                format!("{entry} accepted an input the predicate rejects ({kind}, {} bytes, header {h:?})", input.len()),
                desc(entry),
            ),
            (Ok(Outcome::Ok(h, q, b)), Some((wh, ql, bl))) => {
                rep.count("accepted_consistent", 1);
                let (wq, wb) = if entry == "Header::decode" { (&input[0..0], &input[0..0]) } else { (&input[48..48 + ql], &input[48 + ql..48 + ql + bl]) };
                if h != wh || q != wq || b != wb {
                    rep.violation(
                        format!("C02:wrong-content:{entry}"),
                        format!("{entry} returned header/query/body that are not the input bytes (header_eq={}, query_eq={}, body_eq={})", h == wh, q == wq, b == wb),
                        desc(entry),
                    );
                }
            }
        }
    }
    if !allow_readers {
        return;
    }
    // stream readers: only when the declared frame is <= 16 MiB (outcome independent of machine memory)
    // Inputs whose length fields are huge go to the child-process stage instead: if a reader trusted
    // them, the allocation failure would abort this process and lose the attribution.
    let declared_small = match hdr {
        None => true,
        // (under Miri a multi-MiB zero-fill takes minutes: keep declared sizes small there)
        Some(h) => {
            let cap = if cfg!(miri) { 64 << 10 } else { MIB16 };
            h.query_length <= cap && h.body_length <= cap
        }
    };
    if !declared_small {
        return;
    }
    for entry in READERS {
        rep.eval();
        let want = oracle::valid_parse(input, false);
        let got = catching(|| reader_entry(entry, input, rng, rt));
        rep.distinct(&(kind, entry, want.is_some(), input.len().min(49)));
        match (got, want) {
            (Err(p), _) => rep.violation(format!("C02:panic:{entry}:{}", panic_site(&p)), format!("{entry} panicked on a {kind} stream of {} bytes: {p}; header {:?}", input.len(), hdr), desc(entry)),
            (Ok((Outcome::Err(_), _)), None) => rep.count("rejected_as_required", 1),
            (Ok((Outcome::Err(e), _)), Some(_)) => rep.violation(format!("C02:rejects-consistent:{entry}"), format!("{entry} rejected a stream holding a whole consistent frame: {e}"), desc(entry)),
            (Ok((Outcome::Ok(h, _, _), _)), None) => rep.violation(format!("C02:accepts-inconsistent:{entry}"), format!("{entry} returned a message from a stream the predicate rejects (header {h:?})"), desc(entry)),
            (Ok((Outcome::Ok(h, q, b), consumed)), Some((wh, ql, bl))) => {
                rep.count("accepted_consistent", 1);
                if h != wh || q != input[48..48 + ql] || b != input[48 + ql..48 + ql + bl] {
                    rep.violation(format!("C02:wrong-content:{entry}"), format!("{entry} returned content that is not the input bytes"), desc(entry));
                }
                if consumed != 48 + ql + bl {
                    rep.violation(format!("C02:over-read:{entry}"), format!("{entry} consumed {consumed} bytes for a frame of {}", 48 + ql + bl), desc(entry));
                }
            }
        }
    }
}

#[cfg(feature = "net")]
#[path = "c02_net.rs"]
mod net;

pub fn run(args: &Args) -> Report {
    match args.stage.as_str() {
        #[cfg(feature = "net")]
        "net" => return net::parent(args),
        #[cfg(feature = "net")]
        "net-worker" => {
            net::worker(args);
            std::process::exit(0);
        }
        "child" => return run_child_parent(args),
        "child-worker" => {
            run_child_worker(args);
            std::process::exit(0);
        }
        _ => {}
    }
    let mut rep = Report::new(
        args,
        "c02-inproc",
        "hostile inputs: random bytes (<=4 KiB), random+magic, valid frames, header bit flips, every truncation, trailing \
         bytes, splices, the three 64-bit length fields over boundary classes relative to the buffer, wrapping sums; each \
         input goes to 5 slice parsers and (declared size <= 16 MiB) 4 stream readers; distinct = (generator kind, entry \
         point, predicate outcome, min(len,49))",
    );
    let miri = args.stage.starts_with("miri");
    let n = args.budget(40_000, 2_000_000);
    let max = if miri { 200 } else { 4096 };
    let mut rng = Rng::new(args.seed ^ 0xC02);
    let rt = tokio::runtime::Builder::new_current_thread().build().unwrap();
    quiet_panics(true);
    for case in 0..n {
        let mut r = rng.fork(case);
        let (kind, input) = gen_input(&mut r, max);
        if case < 4 {
            rep.sample(json!({"kind": kind, "len": input.len(), "hex": hex_trunc(&input, 64)}));
        }
        check_case(&mut rep, kind, &input, &mut r, &rt, true);
    }
    // every truncation point of a few valid frames, for every entry point
    let frames = if miri { 1 } else { args.budget(20, 400) };
    for f in 0..frames {
        let mut r = rng.fork(1_000_000 + f);
        let ql = r.usize_below(20);
        let bl = r.usize_below(if miri { 10 } else { 120 });
        let q = r.bytes(ql);
        let b = r.bytes(bl);
        let full = oracle::frame(SpecHeader { spec: oracle::SPEC, version: 1, id: f, ..Default::default() }, &q, &b);
        for k in 0..=full.len() {
            check_case(&mut rep, "every-truncation", &full[..k], &mut r, &rt, true);
        }
        rep.count("frames_truncated_at_every_byte", 1);
    }
    quiet_panics(false);
    rep
}

// ------------------------------------------------------------------ child-process stage
// Readers fed headers that declare >= 2^62 bytes: an allocation failure aborts the process and
// cannot be caught, so each case runs in a child that announces the case before running it.

fn child_cases(seed: u64, n: u64) -> Vec<(usize, SpecHeader)> {
    let mut rng = Rng::new(seed ^ 0xC02C);
    let mut v = vec![];
    let huge: [u64; 8] = [1 << 62, (1 << 62) + 1, 1 << 63, (1 << 63) - 1, u64::MAX - 48, u64::MAX >> 1, (1 << 62) + (1 << 33), 3 << 61];
    for i in 0..n {
        let reader = (i % 4) as usize;
        let mut h = SpecHeader { spec: oracle::SPEC, version: 1, id: i, ..Default::default() };
        // keep the header consistent (so it passes the length check) and >= 2^62 in total
        match rng.below(4) {
            0 => {
                h.query_length = *rng.pick(&huge) - 48;
                h.body_length = rng.below(3);
            }
            1 => {
                h.query_length = rng.below(3);
                h.body_length = *rng.pick(&huge) - 48;
            }
            2 => {
                h.query_length = 1 << 61;
                h.body_length = (1 << 61) + rng.below(1000);
            }
            _ => {
                h.query_length = (*rng.pick(&huge) - 48) / 2;
                h.body_length = h.query_length;
            }
        }
        if (48u128 + h.query_length as u128 + h.body_length as u128) > u64::MAX as u128 {
            h.body_length = 0;
        }
        h.length = 48 + h.query_length + h.body_length;
        // one case in four: inconsistent headers with huge fields, including sums that wrap to the
        // declared length; a reader must reject them at the header
        if i % 16 >= 12 {
            match rng.below(3) {
                0 => {
                    h.query_length = u64::MAX - rng.below(48);
                    h.body_length = 1 + rng.below(200);
                    h.length = 48u64.wrapping_add(h.query_length).wrapping_add(h.body_length);
                }
                1 => {
                    h.query_length = 1 << 63;
                    h.body_length = 1 << 63;
                    h.length = 48;
                }
                _ => {
                    h.query_length = *rng.pick(&huge);
                    h.body_length = *rng.pick(&huge);
                    h.length = rng.boundary_u64();
                }
            }
        }
        v.push((reader, h));
    }
    v
}

fn run_child_worker(args: &Args) {
    let start: usize = args.extra.first().and_then(|s| s.parse().ok()).unwrap_or(0);
    let n: u64 = args.extra.get(1).and_then(|s| s.parse().ok()).unwrap_or(0);
    let cases = child_cases(args.seed, n);
    let rt = tokio::runtime::Builder::new_current_thread().build().unwrap();
    quiet_panics(true);
    let out = std::io::stdout();
    for (i, (reader, h)) in cases.iter().enumerate().skip(start) {
        {
            let mut o = out.lock();
            writeln!(o, "CASE {i}").unwrap();
            o.flush().unwrap();
        }
        // the stream carries the header and a little data, then ends
        let mut input = h.encode().to_vec();
        input.extend_from_slice(&[0xEE; 40]);
        let mut rng = Rng::new(i as u64);
        let r = catching(|| reader_entry(READERS[*reader], &input, &mut rng, &rt));
        let line = match r {
            Ok((Outcome::Err(e), _)) => format!("RES {i} err {e}"),
            Ok((Outcome::Ok(..), _)) => format!("RES {i} accepted"),
            Err(p) => format!("RES {i} panic {p}"),
        };
        let mut o = out.lock();
        writeln!(o, "{line}").unwrap();
        o.flush().unwrap();
    }
}

fn run_child_parent(args: &Args) -> Report {
    let mut rep = Report::new(
        args,
        "c02-child",
        "stream readers fed a consistent 48-byte header declaring >= 2^62 bytes followed by 40 bytes and EOF, each case in \
         a child process that announces the case before running it (abort detection); distinct = (reader, which field is huge, size class)",
    );
    let n = args.budget(64, 2000);
    let cases = child_cases(args.seed, n);
    let exe = std::env::current_exe().unwrap();
    let mut start = 0usize;
    let mut restarts = 0;
    while start < cases.len() && restarts < 40 {
        let out = std::process::Command::new(&exe)
            .args(["c02", "--stage", "child-worker", "--seed", &args.seed.to_string(), &start.to_string(), &n.to_string()])
            .output()
            .expect("spawn child");
        let text = String::from_utf8_lossy(&out.stdout);
        let mut last_case: Option<usize> = None;
        let mut finished: Option<usize> = None;
        for l in text.lines() {
            if let Some(x) = l.strip_prefix("CASE ") {
                last_case = x.trim().parse().ok();
            } else if let Some(x) = l.strip_prefix("RES ") {
                let mut it = x.splitn(3, ' ');
                let i: usize = it.next().and_then(|s| s.parse().ok()).unwrap_or(0);
                let kind = it.next().unwrap_or("");
                let rest = it.next().unwrap_or("");
                finished = Some(i);
                let (reader, h) = &cases[i];
                rep.eval();
                rep.distinct(&(reader, h.query_length >= 1 << 61, h.body_length >= 1 << 61, h.length.leading_zeros()));
                let desc = json!({"reader": READERS[*reader], "header": format!("{h:?}"), "header_hex": hex(&h.encode())});
                match kind {
                    "err" => rep.count("returned_error", 1),
                    "panic" => rep.violation(
                        format!("C02:panic:{}:huge-declared-length:{}", READERS[*reader], panic_site(rest)),
                        format!("{} panicked on a header declaring {} bytes: {rest}", READERS[*reader], h.length),
                        desc,
                    ),
                    _ => rep.violation(format!("C02:accepts-inconsistent:{}:huge", READERS[*reader]), "reader returned Ok from an 88-byte stream whose header declares (or wraps around) >= 2^62 bytes".to_string(), desc),
                }
            }
        }
        if out.status.success() {
            break;
        }
        // child died: attribute to the announced, unfinished case
        let died_at = match (last_case, finished) {
            (Some(c), Some(f)) if f >= c => None,
            (Some(c), _) => Some(c),
            _ => None,
        };
        match died_at {
            Some(i) => {
                let (reader, h) = &cases[i];
                rep.eval();
                rep.distinct(&(reader, h.query_length >= 1 << 61, h.body_length >= 1 << 61, h.length.leading_zeros()));
                let err = String::from_utf8_lossy(&out.stderr);
                let why = err.lines().rev().find(|l| !l.trim().is_empty()).unwrap_or("").to_string();
                rep.violation(
                    format!("C02:abort:{}:huge-declared-length", READERS[*reader]),
                    format!("process died ({:?}) inside {} on a 48-byte header declaring {} bytes (q={}, b={}): {}", out.status, READERS[*reader], h.length, h.query_length, h.body_length, trunc(&why, 200)),
                    json!({"reader": READERS[*reader], "header": format!("{h:?}"), "header_hex": hex(&h.encode())}),
                );
                rep.count("child_deaths", 1);
                start = i + 1;
                restarts += 1;
            }
            None => {
                rep.inconclusive(format!("child exited {:?} outside any case", out.status));
                break;
            }
        }
    }
    if restarts >= 40 {
        rep.count("stopped_after_40_child_deaths", 1);
    }
    rep
}
