//! C05 scenarios whose endpoint under test is a server (repe::Server, repe::AsyncServer,
//! repe::websocket_server::WebSocketServer). The raw peer pipelines requests built with oracle.rs
//! to a handler that returns bodies of chosen sizes (and, on WebSocket, pushes notifies), and
//! records what the server writes.

use super::c05_oracle::{Book, Expect, pat_fill};
use super::c05_peers::*;
use super::{ConnOut, Cx, MedEvidence, ScenarioOut, WINDOW, med_split, med_sums, pick_len, size_class};
use crate::common::*;
use crate::oracle::{self, SpecHeader};
use futures_util::{SinkExt, StreamExt};
use repe::server::HandlerErased;
use serde_json::json;
use std::io::Write;
use std::os::fd::AsRawFd;
use std::sync::atomic::{AtomicU64, Ordering::SeqCst};
use std::sync::{Arc, Mutex};
use std::time::Duration;
use tokio_tungstenite::tungstenite::Message as WsMsg;

#[derive(Clone, Copy, PartialEq)]
pub enum SrvKind {
    Blocking,
    Async,
}

#[derive(Clone, Copy, PartialEq)]
pub enum Mode {
    Healthy,
    Stall,
    WriteTimeout,
    /// write timeout provoked by a pipelined stream of MEDIUM responses (sizes straddling the 8 KiB buffer)
    WriteTimeoutMedium,
}

#[derive(Default)]
struct HandlerLog {
    handled: AtomicU64,
    pushes_ok: Mutex<Vec<u64>>,
    pushes_failed: AtomicU64,
}

/// Returns a body of the requested size whose bytes are f(request id, offset); on a transport with
/// a peer handle first pushes the requested notifies (body f(push token, offset)).
struct GenHandler {
    log: Arc<HandlerLog>,
    off_reader: bool,
}

fn push_token(id: u64, j: u64) -> u64 {
    (1 << 62) | (id << 4) | (j + 1)
}

fn push_method(token: u64) -> String {
    format!("/push/{token:x}")
}

fn le(b: &[u8], off: usize, w: usize) -> u64 {
    (0..w).fold(0u64, |v, i| v | (*b.get(off + i).unwrap_or(&0) as u64) << (8 * i))
}

impl HandlerErased for GenHandler {
    fn handle(&self, req: &repe::Message) -> Result<repe::Message, repe::RepeError> {
        self.handle_with_ctx(req, &repe::CallContext::detached("/gen"))
    }
    fn handle_with_ctx(&self, req: &repe::Message, ctx: &repe::CallContext) -> Result<repe::Message, repe::RepeError> {
        let id = req.header.id;
        let len = le(&req.body, 0, 8) as usize;
        let pushes = le(&req.body, 8, 4);
        let push_len = le(&req.body, 12, 4) as usize;
        if let Some(peer) = ctx.peer() {
            for j in 0..pushes {
                let tk = push_token(id, j);
                let mut tries = 0;
                loop {
                    match peer.send_notify(&push_method(tk), repe::NotifyBody::Raw(pat_fill(tk, push_len), repe::BodyFormat::RawBinary)) {
                        Ok(()) => {
                            self.log.pushes_ok.lock().unwrap().push(tk);
                            break;
                        }
                        Err(repe::PeerSendError::Full) if self.off_reader && tries < 3000 => {
                            tries += 1;
                            std::thread::sleep(Duration::from_millis(1));
                        }
                        Err(_) => {
                            self.log.pushes_failed.fetch_add(1, SeqCst);
                            break;
                        }
                    }
                }
            }
        }
        self.log.handled.fetch_add(1, SeqCst);
        Ok(repe::Message::builder().id(id).query_format(repe::QueryFormat::JsonPointer).body_bytes(pat_fill(id, len)).body_format(repe::BodyFormat::RawBinary).build())
    }
    fn execution(&self) -> repe::Execution {
        if self.off_reader { repe::Execution::OffReader } else { repe::Execution::Inline }
    }
}

#[derive(Clone, Debug)]
struct Req {
    id: u64,
    len: usize,
    pushes: u32,
    push_len: usize,
    /// index into ROUTE_PADS: the route (= query echoed into the response) is "/gen" + padding
    route: usize,
}

/// Registered routes: "/gen" and longer aliases, so the response's query length varies.
const ROUTE_PADS: [usize; 6] = [0, 60, 300, 1200, 2500, 3900];

fn route_of(i: usize) -> String {
    let mut r = String::from("/gen");
    if ROUTE_PADS[i] > 0 {
        r.push('/');
        for _ in 1..ROUTE_PADS[i] {
            r.push('r');
        }
    }
    r
}

fn gen_router(log: &Arc<HandlerLog>, off_reader: bool) -> repe::Router {
    let mut router = repe::Router::new();
    for i in 0..ROUTE_PADS.len() {
        router = router.with_erased_handler(&route_of(i), Arc::new(GenHandler { log: log.clone(), off_reader }));
    }
    router
}

fn req_bytes(r: &Req) -> Vec<u8> {
    let mut b = Vec::with_capacity(16);
    for i in 0..8 {
        b.push(((r.len as u64) >> (8 * i)) as u8);
    }
    for i in 0..4 {
        b.push((r.pushes >> (8 * i)) as u8);
    }
    for i in 0..4 {
        b.push(((r.push_len as u32) >> (8 * i)) as u8);
    }
    oracle::frame(SpecHeader { spec: oracle::SPEC, version: 1, id: r.id, query_format: 1, body_format: 0, ..Default::default() }, route_of(r.route).as_bytes(), &b)
}

fn book_add(book: &mut Book, r: &Req) {
    book.add_by_id(r.id, Expect { token: r.id, kind: "server response", notify: 0, query: route_of(r.route).into_bytes(), body_len: r.len, fixed_id: Some(r.id), body_prefix: vec![], body_format: 0, exact_body: None });
    for j in 0..r.pushes as u64 {
        let tk = push_token(r.id, j);
        book.add_by_query(Expect { token: tk, kind: "server-pushed notify", notify: 1, query: push_method(tk).into_bytes(), body_len: r.push_len, fixed_id: Some(0), body_prefix: vec![], body_format: 0, exact_body: None });
    }
}

fn resp_len(r: &Req) -> u64 {
    (48 + route_of(r.route).len() + r.len) as u64
}

fn gen_reqs(rng: &mut Rng, base: u64, n: usize, left: &mut usize, thorough: bool, pushes: bool) -> Vec<Req> {
    (0..n)
        .map(|i| {
            let len = pick_len(rng, 4, left, thorough);
            let (p, pl) = if pushes && rng.chance(1, 2) { (1 + rng.below(3) as u32, pick_len(rng, 30, left, false).min(300_000)) } else { (0, 0) };
            Req { id: base + i as u64 + 1, len, pushes: p, push_len: pl, route: 0 }
        })
        .collect()
}

fn max_wall(cx: &Cx) -> Duration {
    Duration::from_secs(if cx.thorough { 240 } else { 60 })
}

fn small_req(rng: &mut Rng, id: u64) -> Req {
    Req { id, len: rng.usize_below(3000), pushes: 0, push_len: 0, route: 0 }
}

// ------------------------------------------------------------------------------------------------
// blocking Server / AsyncServer

pub fn tcp_server(cx: &Cx, rng: &mut Rng, kind: SrvKind, mode: Mode) -> ScenarioOut {
    let ep = if kind == SrvKind::Blocking { "server" } else { "async_server" };
    let (cause, mname) = match mode {
        Mode::Healthy => ("none", "healthy"),
        Mode::Stall => ("stall", "stall"),
        Mode::WriteTimeout => ("write_timeout", "write_timeout"),
        Mode::WriteTimeoutMedium => ("write_timeout", "write_timeout.medium_stream"),
    };
    let mut out = ScenarioOut::new(ep, cause, &format!("{ep}.{mname}"));
    let log = Arc::new(HandlerLog::default());
    let router = gen_router(&log, false);
    let small = mode != Mode::Healthy || rng.chance(1, 3);
    // below ~32 KiB the loopback path degenerates into persist-timer probing after a stall (minutes per MiB)
    let sndbuf = if small { Some(*rng.pick(&[65536usize, 131072])) } else { None };
    let rcvbuf = if small { Some(*rng.pick(&[32768usize, 65536, 131072])) } else { None };
    let t_ms = rng.range(120, 250);
    let wt = match mode {
        Mode::WriteTimeout | Mode::WriteTimeoutMedium => Some(Duration::from_millis(t_ms)),
        _ => *rng.pick(&[None, Some(Duration::from_secs(60))]),
    };
    let (l, addr) = match listener(None, sndbuf) {
        Ok(x) => x,
        Err(e) => {
            out.trouble.push(format!("listen: {e}"));
            return out;
        }
    };
    let mut server_task = None;
    match kind {
        SrvKind::Blocking => {
            let srv = repe::Server::new(router).write_timeout(wt);
            std::thread::spawn(move || {
                let _ = srv.serve(l);
            });
        }
        SrvKind::Async => {
            let _ = l.set_nonblocking(true);
            let srv = repe::AsyncServer::new(router).write_timeout(wt);
            server_task = Some(cx.rt.spawn(async move {
                if let Ok(l) = tokio::net::TcpListener::from_std(l) {
                    let _ = srv.serve(l).await;
                }
            }));
        }
    }
    if mode == Mode::WriteTimeout {
        one_conn_write_timeout(cx, rng, &mut out, addr, rcvbuf, sndbuf, t_ms);
    } else if mode == Mode::WriteTimeoutMedium {
        one_conn_medium_stream(cx, rng, &mut out, addr, rcvbuf, sndbuf, t_ms);
    } else {
        let nconn = 1 + rng.usize_below(3);
        let mut left: usize = if cx.thorough { 96 << 20 } else { 20 << 20 };
        let plans: Vec<(Vec<Req>, Vec<(u64, u64)>, Rng)> = (0..nconn)
            .map(|ci| {
                let n = if ci == 0 && rng.chance(1, 2) { 32 } else { 1 + rng.usize_below(32) };
                let idbase = ((rng.next_u64() >> 30) << 8) | ((ci as u64) << 40);
                let reqs = gen_reqs(rng, idbase, n, &mut left, cx.thorough, false);
                let total: u64 = reqs.iter().map(resp_len).sum();
                let mut plan: Vec<(u64, u64)> =
                    if mode == Mode::Stall { (0..2 + rng.usize_below(5)).map(|_| { let at = rng.below(total.max(1)); let long = rng.chance(1, 4); (at, 5 + rng.below(if long { 150 } else { 40 })) }).collect() } else { vec![] };
                plan.sort();
                (reqs, plan, rng.fork(ci as u64))
            })
            .collect();
        out.ident = hash_of(&(plans.iter().map(|(r, p, _)| (r.iter().map(|q| size_class(q.len)).collect::<Vec<_>>(), p.len())).collect::<Vec<_>>(), sndbuf, rcvbuf, wt.is_some()));
        out.params = json!({"connections": nconn, "pipelined_requests": plans.iter().map(|p| p.0.len()).collect::<Vec<_>>(), "server_sndbuf": sndbuf, "peer_rcvbuf": rcvbuf,
            "write_timeout_ms": wt.map(|d| d.as_millis() as u64), "stalls_at_byte_ms": plans.iter().map(|p| p.1.clone()).collect::<Vec<_>>(),
            "largest_body": plans.iter().flat_map(|p| p.0.iter().map(|r| r.len)).max()});
        let mw = max_wall(cx);
        let results: Vec<(ConnOut, Vec<String>, u64)> = std::thread::scope(|s| {
            let hs: Vec<_> = plans
                .into_iter()
                .enumerate()
                .map(|(ci, (reqs, plan, r))| s.spawn(move || pipelined_conn(addr, ci, reqs, plan, rcvbuf, r, mw)))
                .collect();
            hs.into_iter().filter_map(|h| h.join().ok()).collect()
        });
        for (c, tr, answered) in results {
            out.ops_ok += answered;
            out.trouble.extend(tr);
            out.conns.push(c);
        }
    }
    if let Some(t) = server_task {
        t.abort();
    }
    out
}

/// One connection: all requests written back-to-back, every response owed.
fn pipelined_conn(addr: std::net::SocketAddr, ci: usize, reqs: Vec<Req>, plan: Vec<(u64, u64)>, rcvbuf: Option<usize>, mut rng: Rng, mw: Duration) -> (ConnOut, Vec<String>, u64) {
    let mut trouble = vec![];
    let mut book = Book::default();
    reqs.iter().for_each(|r| book_add(&mut book, r));
    let must: Vec<u64> = reqs.iter().map(|r| r.id).collect();
    let ctl = Ctl::new();
    *ctl.plan.lock().unwrap() = plan;
    let mk = |record, end, book, must| ConnOut { label: format!("conn{ci}"), book, must_see: must, record, end, victim: None };
    let mut s = match std::net::TcpStream::connect(addr) {
        Ok(s) => s,
        Err(e) => {
            trouble.push(format!("connect: {e}"));
            return (mk(Record::Stream(vec![]), End::Deadline, book, vec![]), trouble, 0);
        }
    };
    if let Some(b) = rcvbuf {
        set_sockbuf(s.as_raw_fd(), libc::SO_RCVBUF, b);
    }
    let _ = s.set_nodelay(true);
    let _ = s.set_write_timeout(Some(Duration::from_secs(20)));
    let rd = s.try_clone().expect("clone");
    let (c2, r2) = (ctl.clone(), rng.fork(9));
    let h = std::thread::spawn(move || Some(tcp_recorder(rd, c2, false, r2, mw)));
    // pipeline: either one coalesced write or one write per request
    if rng.coin() {
        let all: Vec<u8> = reqs.iter().flat_map(|r| req_bytes(r)).collect();
        if s.write_all(&all).is_err() {
            trouble.push("writing the pipelined requests failed".into());
        }
    } else {
        for r in &reqs {
            if s.write_all(&req_bytes(r)).is_err() {
                trouble.push("writing a pipelined request failed".into());
                break;
            }
        }
    }
    let n = reqs.len() as u64;
    let all = wait_until(Duration::from_secs(90), || ctl.frames.load(SeqCst) >= n || ctl.done.load(SeqCst) || ctl.desync.load(SeqCst));
    if !all {
        trouble.push(format!("only {} of {n} responses arrived in 90 s", ctl.frames.load(SeqCst)));
    }
    let answered = ctl.frames.load(SeqCst);
    ctl.finish_when_quiet(150);
    let (record, end) = match join_bounded(h, Duration::from_secs(30)) {
        Some(Some((b, e))) => (Record::Stream(b), e),
        _ => {
            trouble.push("recorder did not finish".into());
            (Record::Stream(vec![]), End::Deadline)
        }
    };
    drop(s);
    (mk(record, end, book, must), trouble, answered)
}

/// The server's write timeout expires mid-response against a stalled peer; then the peer drains and
/// sends FURTHER requests on the same connection.
fn one_conn_write_timeout(cx: &Cx, rng: &mut Rng, out: &mut ScenarioOut, addr: std::net::SocketAddr, rcvbuf: Option<usize>, sndbuf: Option<usize>, t_ms: u64) {
    let base = (rng.next_u64() >> 30) << 8;
    let big_len = if cx.thorough { *rng.pick(&[4usize << 20, 8 << 20, 32 << 20]) } else { *rng.pick(&[1usize << 20, 4 << 20]) } + rng.usize_below(3) - 1;
    let x = 1 + rng.below((big_len as u64 / 2).min(200_000));
    let warm: Vec<Req> = (0..1 + rng.usize_below(4)).map(|i| small_req(rng, base + 1 + i as u64)).collect();
    let big = Req { id: base + 100, len: big_len, pushes: 0, push_len: 0, route: 0 };
    let during: Vec<Req> = (0..rng.usize_below(3)).map(|i| small_req(rng, base + 200 + i as u64)).collect();
    let further: Vec<Req> = (0..3).map(|i| small_req(rng, base + 300 + i as u64)).collect();
    out.ident = hash_of(&(rcvbuf, sndbuf, size_class(big_len), x / 50_000, warm.len(), during.len()));
    out.params = json!({"server_sndbuf": sndbuf, "peer_rcvbuf": rcvbuf, "write_timeout_ms": t_ms, "big_response_body": big_len, "peer_stalls_after_bytes_of_big_response": x,
        "warmup_requests": warm.len(), "requests_pipelined_during_stall": during.len(), "further_requests_after_drain": further.len(), "big_request_id": big.id});
    let mut book = Book::default();
    warm.iter().chain([&big]).chain(&during).chain(&further).for_each(|r| book_add(&mut book, r));
    let mut must: Vec<u64> = vec![];
    let ctl = Ctl::new();
    let mut s = match std::net::TcpStream::connect(addr) {
        Ok(s) => s,
        Err(e) => {
            out.trouble.push(format!("connect: {e}"));
            return;
        }
    };
    if let Some(b) = rcvbuf {
        set_sockbuf(s.as_raw_fd(), libc::SO_RCVBUF, b);
    }
    let _ = s.set_nodelay(true);
    let _ = s.set_write_timeout(Some(Duration::from_secs(5)));
    let rd = s.try_clone().expect("clone");
    let (c2, r2, mw) = (ctl.clone(), rng.fork(9), max_wall(cx));
    let h = std::thread::spawn(move || Some(tcp_recorder(rd, c2, false, r2, mw)));
    let mut script = || -> Result<(), String> {
        for r in &warm {
            s.write_all(&req_bytes(r)).map_err(|e| format!("warm-up write: {e}"))?;
        }
        let n = warm.len() as u64;
        if !wait_until(Duration::from_secs(15), || ctl.frames.load(SeqCst) >= n) {
            return Err(format!("only {} of {n} warm-up responses arrived", ctl.frames.load(SeqCst)));
        }
        must.extend(warm.iter().map(|r| r.id));
        out.ops_ok += n;
        let b0: u64 = warm.iter().map(resp_len).sum();
        if !wait_until(Duration::from_secs(5), || ctl.bytes.load(SeqCst) == b0) {
            return Err(format!("peer recorded {} bytes after warm-up, expected {b0}", ctl.bytes.load(SeqCst)));
        }
        // the peer stops reading once it holds x bytes of the big response
        ctl.hold_at(b0 + x);
        s.write_all(&req_bytes(&big)).map_err(|e| format!("big request write: {e}"))?;
        if !wait_until(Duration::from_secs(15), || ctl.stalled.load(SeqCst)) {
            out.trouble.push("peer never reached the stall point inside the big response".into());
        }
        for r in &during {
            let _ = s.write_all(&req_bytes(r));
        }
        // long enough for the configured write timeout to expire while nothing is read
        std::thread::sleep(Duration::from_millis(3 * t_ms + 300));
        // the peer drains everything ...
        ctl.release();
        wait_quiet(&ctl, Duration::from_millis(200), Duration::from_secs(15));
        // ... and keeps using the connection
        for r in &further {
            match s.write_all(&req_bytes(r)) {
                Ok(()) => out.further_ok += 1,
                Err(_) => out.further_err += 1,
            }
            wait_quiet(&ctl, Duration::from_millis(60), Duration::from_secs(3));
        }
        Ok(())
    };
    if let Err(e) = script() {
        out.trouble.push(e);
    }
    ctl.release();
    ctl.finish_when_quiet(400);
    let (record, end) = match join_bounded(h, Duration::from_secs(40)) {
        Some(Some((b, e))) => (Record::Stream(b), e),
        _ => {
            out.trouble.push("recorder did not finish".into());
            (Record::Stream(vec![]), End::Deadline)
        }
    };
    // event evidence that the interruption took effect: the big response is not whole where it should be
    if let Record::Stream(b) = &record {
        let b0: u64 = warm.iter().map(resp_len).sum();
        let whole = b.len() as u64 >= b0 + resp_len(&big) && {
            let w = super::c05_oracle::walk(&b[..(b0 + resp_len(&big)) as usize], &book);
            w.viol.is_none() && w.seen.iter().any(|s| s.token == big.id)
        };
        out.fault_triggered = Some(!whole);
    }
    drop(s);
    out.conns.push(ConnOut { label: "conn0".into(), book, must_see: must, record, end, victim: Some(big.id) });
}

/// The server's write timeout is provoked by a pipelined stream of MEDIUM responses (sizes straddling the
/// 8 KiB write buffer, query length varied through route aliases) to a peer that stopped reading; the
/// requests behind the interrupted response are already queued (the server meets them while the peer is
/// still stalled); then the peer drains and sends FURTHER requests on the same connection.
fn one_conn_medium_stream(cx: &Cx, rng: &mut Rng, out: &mut ScenarioOut, addr: std::net::SocketAddr, rcvbuf: Option<usize>, sndbuf: Option<usize>, t_ms: u64) {
    let base = (rng.next_u64() >> 30) << 12;
    let x = rng.below(30_000);
    let n = if cx.thorough { 500 } else { 300 };
    let warm: Vec<Req> = (0..1 + rng.usize_below(3)).map(|i| small_req(rng, base + 1 + i as u64)).collect();
    let sums = med_sums(rng, n);
    let stream: Vec<Req> = sums
        .iter()
        .enumerate()
        .map(|(i, s)| {
            // the route set is fixed: pick the alias nearest to the wished query length
            let (q, _) = med_split(rng, *s, 4);
            let route = (0..ROUTE_PADS.len()).min_by_key(|j| (4 + ROUTE_PADS[*j]).abs_diff(q)).unwrap();
            let ql = 4 + ROUTE_PADS[route];
            Req { id: base + 16 + i as u64, len: s - ql, pushes: 0, push_len: 0, route }
        })
        .collect();
    let further: Vec<Req> = (0..4)
        .map(|i| if i == 1 { Req { id: base + 3000 + i as u64, len: 8145 + rng.usize_below(48) - 4, pushes: 0, push_len: 0, route: 0 } } else { small_req(rng, base + 3000 + i as u64) })
        .collect();
    out.ident = hash_of(&("medium", rcvbuf, sndbuf, x / 8192, warm.len(), sums[..16].to_vec()));
    out.params = json!({"server_sndbuf": sndbuf, "peer_rcvbuf": rcvbuf, "write_timeout_ms": t_ms, "pipelined_medium_requests": n, "peer_stalls_after_bytes_of_stream": x,
        "warmup_requests": warm.len(), "further_requests_after_drain": further.len()});
    let mut book = Book::default();
    warm.iter().chain(&stream).chain(&further).for_each(|r| book_add(&mut book, r));
    let mut must: Vec<u64> = vec![];
    let mut med = MedEvidence::default();
    let mut victim = None;
    let ctl = Ctl::new();
    let mut s = match std::net::TcpStream::connect(addr) {
        Ok(s) => s,
        Err(e) => {
            out.trouble.push(format!("connect: {e}"));
            return;
        }
    };
    if let Some(b) = rcvbuf {
        set_sockbuf(s.as_raw_fd(), libc::SO_RCVBUF, b);
    }
    let _ = s.set_nodelay(true);
    let _ = s.set_write_timeout(Some(Duration::from_secs(5)));
    let rd = s.try_clone().expect("clone");
    let (c2, r2, mw) = (ctl.clone(), rng.fork(9), max_wall(cx));
    let h = std::thread::spawn(move || Some(tcp_recorder(rd, c2, false, r2, mw)));
    let written = Arc::new(AtomicU64::new(0));
    let nwarm = warm.len() as u64;
    let mut script = || -> Result<(), String> {
        for r in &warm {
            s.write_all(&req_bytes(r)).map_err(|e| format!("warm-up write: {e}"))?;
        }
        if !wait_until(Duration::from_secs(15), || ctl.frames.load(SeqCst) >= nwarm) {
            return Err(format!("only {} of {nwarm} warm-up responses arrived", ctl.frames.load(SeqCst)));
        }
        must.extend(warm.iter().map(|r| r.id));
        out.ops_ok += nwarm;
        let b0: u64 = warm.iter().map(resp_len).sum();
        if !wait_until(Duration::from_secs(5), || ctl.bytes.load(SeqCst) == b0) {
            return Err(format!("peer recorded {} bytes after warm-up, expected {b0}", ctl.bytes.load(SeqCst)));
        }
        ctl.hold_at(b0 + x);
        // the requests are written from their own thread: once the server is stuck in a response write it stops reading
        let hw = {
            let mut w = s.try_clone().map_err(|e| format!("clone: {e}"))?;
            let _ = w.set_write_timeout(Some(Duration::from_millis(500)));
            let frames: Vec<Vec<u8>> = stream.iter().map(req_bytes).collect();
            let written = written.clone();
            std::thread::spawn(move || {
                for f in frames {
                    if w.write_all(&f).is_err() {
                        break;
                    }
                    written.fetch_add(1, SeqCst);
                }
            })
        };
        if !wait_until(Duration::from_secs(15), || ctl.stalled.load(SeqCst)) {
            out.trouble.push("peer never reached the stall point inside the response stream".into());
        }
        // stuck = nothing more can be written to the server, or everything was; then let the write timeout expire (several times over)
        let _ = join_bounded(hw, Duration::from_secs(30));
        std::thread::sleep(Duration::from_millis(4 * t_ms + 300));
        // the peer drains everything ...
        ctl.release();
        wait_quiet(&ctl, Duration::from_millis(200), Duration::from_secs(15));
        // ... and keeps using the connection
        for r in &further {
            match s.write_all(&req_bytes(r)) {
                Ok(()) => out.further_ok += 1,
                Err(_) => out.further_err += 1,
            }
            wait_quiet(&ctl, Duration::from_millis(60), Duration::from_secs(3));
        }
        Ok(())
    };
    if let Err(e) = script() {
        out.trouble.push(e);
    }
    ctl.release();
    ctl.finish_when_quiet(400);
    let (record, end) = match join_bounded(h, Duration::from_secs(40)) {
        Some(Some((b, e))) => (Record::Stream(b), e),
        _ => {
            out.trouble.push("recorder did not finish".into());
            (Record::Stream(vec![]), End::Deadline)
        }
    };
    // event evidence: responses are written in request order, so the first request (fully written to the
    // server) whose response is not whole on the wire is the interrupted one
    let nwritten = written.load(SeqCst) as usize;
    if let Record::Stream(b) = &record {
        let w = super::c05_oracle::walk(b, &book);
        let whole: std::collections::HashSet<u64> = w.seen.iter().map(|s| s.token).collect();
        med.stream_sums = stream[..nwritten].iter().map(|r| 4 + ROUTE_PADS[r.route] + r.len).collect();
        if let Some((i, r)) = stream[..nwritten].iter().enumerate().find(|(_, r)| !whole.contains(&r.id)) {
            victim = Some(r.id);
            med.frames_before_interruption = i as u64;
            med.interrupted_sums.push(4 + ROUTE_PADS[r.route] + r.len);
            med.sends_after_first_interruption = (nwritten - i - 1) as u64;
        } else {
            must.extend(stream[..nwritten].iter().map(|r| r.id));
        }
        out.ops_ok += whole.len() as u64;
    }
    out.fault_triggered = Some(victim.is_some());
    if victim.is_none() {
        out.trouble.push(format!("every one of the {nwritten} pipelined medium responses arrived whole: the write timeout never took effect"));
    }
    out.params["requests_written_to_server"] = json!(nwritten);
    out.params["responses_before_interrupted_one"] = json!(med.frames_before_interruption);
    out.params["interrupted_response_query_plus_body"] = json!(med.interrupted_sums);
    out.params["interrupted_in_window"] = json!(med.interrupted_sums.iter().filter(|s| WINDOW.contains(s)).count());
    out.med = Some(med);
    drop(s);
    out.conns.push(ConnOut { label: "conn0".into(), book, must_see: must, record, end, victim });
}

// ------------------------------------------------------------------------------------------------
// WebSocketServer: responses from concurrent off-reader handlers + handler-pushed notifies

pub fn ws_server(cx: &Cx, rng: &mut Rng, stall: bool, off_reader: bool) -> ScenarioOut {
    let mut out = ScenarioOut::new("ws_server", if stall { "stall" } else { "none" }, &format!("ws_server.{}.{}", if stall { "stall" } else { "healthy" }, if off_reader { "offreader" } else { "inline" }));
    let log = Arc::new(HandlerLog::default());
    let router = gen_router(&log, off_reader);
    let small = stall || rng.chance(1, 3);
    // below ~32 KiB the loopback path degenerates into persist-timer probing after a stall (minutes per MiB)
    let sndbuf = if small { Some(*rng.pick(&[65536usize, 131072])) } else { None };
    let rcvbuf = if small { Some(*rng.pick(&[32768usize, 65536, 131072])) } else { None };
    let mut left: usize = if cx.thorough { 96 << 20 } else { 16 << 20 };
    let n = if rng.coin() { 32 } else { 1 + rng.usize_below(32) };
    let idbase = (rng.next_u64() >> 30) << 8;
    let reqs = gen_reqs(rng, idbase, n, &mut left, cx.thorough, true);
    let largest = reqs.iter().map(|r| r.len).max().unwrap_or(0);
    let unlimited = largest > (8 << 20) || rng.coin();
    let total: u64 = reqs.iter().map(|r| resp_len(r) + r.pushes as u64 * (48 + 30 + r.push_len as u64)).sum();
    let mut plan: Vec<(u64, u64)> = if stall { (0..2 + rng.usize_below(5)).map(|_| { let at = rng.below(total.max(1)); let long = rng.chance(1, 4); (at, 5 + rng.below(if long { 150 } else { 40 })) }).collect() } else { vec![] };
    plan.sort();
    out.ident = hash_of(&(reqs.iter().map(|q| (size_class(q.len), q.pushes, size_class(q.push_len))).collect::<Vec<_>>(), plan.len(), sndbuf, rcvbuf, off_reader, unlimited));
    out.params = json!({"concurrent_requests": n, "handler": if off_reader {"OffReader (blocking threads, concurrent)"} else {"Inline"}, "pushes_requested": reqs.iter().map(|r| r.pushes as u64).sum::<u64>(),
        "server_sndbuf": sndbuf, "peer_rcvbuf": rcvbuf, "stalls_at_payload_byte_ms": plan, "largest_body": largest, "limits_unlimited": unlimited});
    let mut book = Book::default();
    reqs.iter().for_each(|r| book_add(&mut book, r));
    let (l, addr) = match listener(None, sndbuf) {
        Ok(x) => x,
        Err(e) => {
            out.trouble.push(format!("listen: {e}"));
            return out;
        }
    };
    let _ = l.set_nonblocking(true);
    let mut srv = repe::WebSocketServer::new(router).with_offreader_limit(64);
    if unlimited {
        srv = srv.with_limits(repe::WebSocketLimits::unlimited());
    }
    let server_task = cx.rt.spawn(async move {
        if let Ok(l) = tokio::net::TcpListener::from_std(l) {
            let _ = srv.serve_listener(l, "/ws").await;
        }
    });
    let ctl = Ctl::new();
    *ctl.plan.lock().unwrap() = plan;
    let mw = max_wall(cx);
    let nreq = reqs.len() as u64;
    let res: Result<(Vec<WsItem>, End), String> = cx.rt.block_on(async {
        let s = std::net::TcpStream::connect(addr).map_err(|e| format!("connect: {e}"))?;
        if let Some(b) = rcvbuf {
            set_sockbuf(s.as_raw_fd(), libc::SO_RCVBUF, b);
        }
        let _ = s.set_nodelay(true);
        s.set_nonblocking(true).map_err(|e| e.to_string())?;
        let s = tokio::net::TcpStream::from_std(s).map_err(|e| e.to_string())?;
        let (ws, _) = tokio::time::timeout(Duration::from_secs(10), tokio_tungstenite::client_async_with_config(format!("ws://{addr}/ws"), s, Some(ws_config())))
            .await
            .map_err(|_| "ws handshake timed out".to_string())?
            .map_err(|e| format!("ws handshake: {e}"))?;
        let (mut wr, rd) = ws.split();
        let rec = tokio::spawn(ws_recorder(rd, None, ctl.clone(), mw));
        for r in &reqs {
            match tokio::time::timeout(Duration::from_secs(20), wr.send(WsMsg::Binary(req_bytes(r)))).await {
                Ok(Ok(())) => {}
                _ => {
                    out.trouble.push("sending a request failed".into());
                    break;
                }
            }
        }
        // all responses seen ⇒ every push that was accepted before its response is on the wire too (one FIFO)
        let ok = wait_until_async(Duration::from_secs(90), || {
            ctl.done.load(SeqCst) || (log.handled.load(SeqCst) >= nreq && ctl.frames.load(SeqCst) >= nreq + log.pushes_ok.lock().unwrap().len() as u64)
        })
        .await;
        if !ok {
            out.trouble.push(format!("only {} messages arrived for {nreq} requests + {} accepted pushes in 90 s", ctl.frames.load(SeqCst), log.pushes_ok.lock().unwrap().len()));
        }
        ctl.finish_when_quiet(150);
        let r = tokio::time::timeout(Duration::from_secs(30), rec).await.map_err(|_| "ws recorder did not finish".to_string())?.map_err(|e| e.to_string())?;
        let _ = tokio::time::timeout(Duration::from_secs(2), wr.close()).await;
        Ok(r)
    });
    server_task.abort();
    let mut must: Vec<u64> = reqs.iter().map(|r| r.id).collect();
    must.extend(log.pushes_ok.lock().unwrap().iter().copied());
    out.ops_ok = log.handled.load(SeqCst) + log.pushes_ok.lock().unwrap().len() as u64;
    out.params["pushes_rejected_channel_full"] = json!(log.pushes_failed.load(SeqCst));
    let (record, end) = match res {
        Ok((items, end)) => (Record::Msgs(items), end),
        Err(e) => {
            out.trouble.push(e);
            (Record::Msgs(vec![]), End::Deadline)
        }
    };
    out.conns.push(ConnOut { label: "conn0".into(), book, must_see: must, record, end, victim: None });
    out
}
