// C09 — side-car families (textually included into `mod imp` of c09.rs).
//
// A side-car family is a list of plans worked off by a few threads of its own NEXT to the stage's
// pool (its own tokio runtime, its own result channel, its own bounded join window), so that a
// family which mostly sleeps (slow consumers) or which needs bounded concurrency (zstd levels with
// very large encoder tables) neither lengthens the pool's queue nor depends on the pool's wall-clock
// budget. This file also holds what the side-car families share: one raw pull with its oracle, the
// classification of a byte mismatch, and a recording `Write`.

mod sidecar {
    use super::*;

    const MAX_SIGS_PER_FAMILY: usize = 12;

    pub struct Family {
        name: &'static str,
        rx: mpsc::Receiver<Acc>,
        n: usize,
        deadline: Instant,
    }

    /// Start `threads` workers over `plans` (taken in order). `window` bounds the whole family.
    pub fn spawn<P: Send + std::fmt::Debug + 'static>(name: &'static str, plans: Vec<P>, threads: usize, window: Duration, work: fn(&P, &Arc<tokio::runtime::Runtime>, &mut Acc)) -> Family {
        let rt = Arc::new(tokio::runtime::Builder::new_multi_thread().worker_threads(4).enable_all().build().expect("tokio runtime"));
        let n = plans.len();
        let mut plans = plans;
        plans.reverse();
        let queue = Arc::new(Mutex::new(plans));
        let (tx, rx) = mpsc::channel::<Acc>();
        let started = Instant::now();
        for _ in 0..threads.min(n).max(1) {
            let (queue, tx, rt) = (queue.clone(), tx.clone(), rt.clone());
            std::thread::spawn(move || {
                loop {
                    let Some(plan) = queue.lock().unwrap_or_else(|e| e.into_inner()).pop() else { break };
                    let mut acc = Acc::default();
                    if let Err(p) = catching(|| work(&plan, &rt, &mut acc)) {
                        acc.inconclusive.push(format!("harness panic in {name} plan {}: {p}", trunc(&format!("{plan:?}"), 300)));
                    }
                    acc.counts.insert("sidecar_plan_finished_ms".into(), started.elapsed().as_millis() as u64);
                    if tx.send(acc).is_err() {
                        break;
                    }
                }
            });
        }
        // leave the runtime to the process exit: dropping it would wait for blocked tasks
        std::mem::forget(rt);
        Family { name, rx, n, deadline: started + window }
    }

    /// Collect the family's results (bounded: a plan that does not come back is inconclusive).
    pub fn join(fam: Family, rep: &mut Report) {
        let mut done = 0usize;
        let mut busy_ms = 0u64;
        let mut sigs: Vec<String> = vec![];
        let mut not_forwarded = 0u64;
        while done < fam.n {
            let left = fam.deadline.saturating_duration_since(Instant::now());
            match fam.rx.recv_timeout(left.max(Duration::from_millis(1))) {
                Ok(mut acc) => {
                    busy_ms = busy_ms.max(acc.counts.remove("sidecar_plan_finished_ms").unwrap_or(0));
                    // one family must not crowd the others out of the report: it forwards a bounded number of distinct signatures
                    let viol = std::mem::take(&mut acc.viol);
                    for (sig, detail, replay) in viol {
                        if sigs.contains(&sig) {
                            continue;
                        }
                        if sigs.len() < MAX_SIGS_PER_FAMILY {
                            sigs.push(sig.clone());
                            acc.viol.push((sig, detail, replay));
                        } else {
                            not_forwarded += 1;
                        }
                    }
                    acc.merge_into(rep);
                    done += 1;
                }
                Err(mpsc::RecvTimeoutError::Timeout) => {
                    rep.inconclusive(format!("{} family: {} of {} plans did not return within the window", fam.name, fam.n - done, fam.n));
                    break;
                }
                Err(mpsc::RecvTimeoutError::Disconnected) => break,
            }
        }
        rep.set(&format!("{}_plans_total", fam.name.replace('-', "_")), json!(fam.n));
        rep.set(&format!("{}_plans_completed", fam.name.replace('-', "_")), json!(done));
        rep.set(&format!("{}_family_wall_ms", fam.name.replace('-', "_")), json!(busy_ms));
        if not_forwarded > 0 {
            rep.suppressed_violations += not_forwarded;
            rep.set(&format!("{}_violations_beyond_the_family_quota", fam.name.replace('-', "_")), json!(not_forwarded));
        }
    }

    /// A `Write` that keeps everything it is given (the harness's "digest": the oracle compares what
    /// the digest saw with what was published).
    pub struct Collect(pub Vec<u8>);
    impl Write for Collect {
        fn write(&mut self, b: &[u8]) -> io::Result<usize> {
            self.0.extend_from_slice(b);
            Ok(b.len())
        }
        fn flush(&mut self) -> io::Result<()> {
            Ok(())
        }
    }

    /// How `got` differs from `expected` (they do differ).
    pub fn diff_what(got: &[u8], expected: &[u8], chunk: usize) -> (&'static str, String) {
        let at = first_diff(got, expected);
        if got.len() < expected.len() {
            let gap = expected.len() - got.len();
            let how = if at == got.len() {
                format!("a clean prefix: the last {gap} of {} bytes are missing (cut at byte {at} = {} chunks of {chunk} + {})", expected.len(), at / chunk.max(1), at % chunk.max(1))
            } else if expected[at + gap..] == got[at..] {
                format!("exactly the {gap} bytes [{at}..{}) are missing, the rest is in place", at + gap)
            } else {
                format!("{gap} bytes short, first difference at byte {at}")
            };
            ("bytes-missing", how)
        } else if got.len() > expected.len() {
            ("bytes-extra", format!("{} bytes too many, first difference at byte {at}", got.len() - expected.len()))
        } else {
            ("bytes-differ", format!("same length, first difference at byte {at}"))
        }
    }

    #[derive(Debug, Clone, PartialEq)]
    pub enum RawEnd {
        Last,
        ErrResp(u32, String),
        /// more chunks than any legal stream of this payload can have
        Runaway,
    }

    /// Everything a raw client saw of one stream.
    pub struct RawPulled {
        pub open: Result<svs::OpenResp, (u32, String)>,
        pub chunks: Vec<(usize, bool)>,
        pub wire: Vec<u8>,
        pub end: RawEnd,
        pub bad_query: Option<Vec<u8>>,
        /// responses to the `next` requests sent after the terminal response
        pub after: Vec<NextOut>,
        /// how long the client paused mid-stream (slow raw consumer)
        pub paused: Option<Duration>,
    }

    /// open, `next` until a terminal response (pausing once after `pause.0` chunks for `pause.1`), then
    /// two more `next`.
    pub fn raw_pull_all<T: RawTransport>(cl: &mut RawSvs<T>, res: &str, logical_len: usize, pause: Option<(usize, Duration)>) -> Result<RawPulled, String> {
        let mut p = RawPulled { open: Err((0, String::new())), chunks: vec![], wire: vec![], end: RawEnd::Runaway, bad_query: None, after: vec![], paused: None };
        let sid = match cl.open(res)? {
            Err(e) => {
                p.open = Err(e);
                return Ok(p);
            }
            Ok(o) => {
                let sid = o.stream_id;
                p.open = Ok(o);
                sid
            }
        };
        // an upper bound on any legitimate stream: logical bytes, zstd worst-case expansion, one chunk per byte
        let bound = 2 * logical_len + 4096;
        loop {
            if let Some((after, d)) = pause {
                if p.paused.is_none() && p.chunks.len() == after {
                    let t = Instant::now();
                    std::thread::sleep(d);
                    p.paused = Some(t.elapsed());
                }
            }
            match cl.next(sid)? {
                NextOut::ErrResp { ec, msg } => {
                    p.end = RawEnd::ErrResp(ec, msg);
                    break;
                }
                NextOut::Chunk { bytes, last, query } => {
                    if (query.len() != 1 || query[0] > 1) && p.bad_query.is_none() {
                        p.bad_query = Some(query);
                    }
                    p.chunks.push((bytes.len(), last));
                    p.wire.extend_from_slice(&bytes);
                    if last {
                        p.end = RawEnd::Last;
                        break;
                    }
                    if p.wire.len() > bound || p.chunks.len() > bound {
                        let _ = cl.cancel(sid, false);
                        p.end = RawEnd::Runaway;
                        return Ok(p);
                    }
                }
            }
        }
        for _ in 0..2 {
            p.after.push(cl.next(sid)?);
        }
        Ok(p)
    }

    /// The usual oracle over one raw pull. `fail` = the producer fails after this many logical bytes
    /// (None: healthy). Returns (what, detail) per defect; `exact` tells whether a healthy stream matched.
    pub fn raw_defects(p: &RawPulled, zstd: bool, beve: bool, chunk: usize, expected: &[u8], fail: Option<usize>) -> (Vec<(String, String)>, bool) {
        let mut d: Vec<(String, String)> = vec![];
        let o = match &p.open {
            Err((ec, msg)) => {
                d.push(("open-refused".into(), format!("open answered ec={ec} '{}'", trunc(msg, 120))));
                return (d, false);
            }
            Ok(o) => o,
        };
        let want_fmt = if beve { svs::FMT_BEVE } else { svs::FMT_RAW };
        if o.version != 1 || o.compression != zstd as u8 || o.format != want_fmt {
            d.push(("open-tag-mismatch".into(), format!("open response {o:?} for a producer configured compression={} format={want_fmt}", zstd as u8)));
        }
        if let Some(q) = &p.bad_query {
            d.push(("last-flag-encoding".into(), format!("chunk response query is {} instead of one byte 0/1", hex_trunc(q, 16))));
        }
        let (logical, clean) = if zstd { svs::zstd_decompress_lossy(&p.wire) } else { (p.wire.clone(), true) };
        let mut exact = false;
        match (&p.end, fail) {
            (RawEnd::Runaway, _) => d.push(("no-end-marker".into(), format!("{} chunks / {} bytes pulled without an end marker from a {}-byte payload", p.chunks.len(), p.wire.len(), expected.len()))),
            (RawEnd::Last, None) => {
                if !clean {
                    d.push((
                        "zstd-frame-invalid".into(),
                        format!(
                            "the open response announces zstd, but the {} pulled bytes (starting {}) are not one complete zstd frame: {} bytes decompress, the producer's logical stream has {}{}",
                            p.wire.len(),
                            hex_trunc(&p.wire, 8),
                            logical.len(),
                            expected.len(),
                            if p.wire == expected { "; the pulled bytes ARE the uncompressed logical bytes" } else { "" }
                        ),
                    ));
                } else if logical != expected {
                    let (what, how) = diff_what(&logical, expected, chunk);
                    d.push((what.into(), format!("a complete stream ({} chunks, end marker) carries {} logical bytes, the producer emitted {}: {how}", p.chunks.len(), logical.len(), expected.len())));
                } else {
                    exact = true;
                }
                if expected.is_empty() && !zstd && !(p.chunks.len() == 1 && p.chunks[0] == (0, true)) {
                    d.push(("empty-payload-shape".into(), format!("empty payload arrived as chunks {:?}", p.chunks)));
                }
            }
            (RawEnd::ErrResp(ec, msg), None) => d.push(("error-instead-of-content".into(), format!("healthy producer: next answered ec={ec} '{}' after {} chunks", trunc(msg, 120), p.chunks.len()))),
            (RawEnd::Last, Some(k)) => d.push((
                "end-marker-after-producer-failure".into(),
                format!("the producer's source failed after {k} logical bytes, yet the stream ended with an end marker after {} chunks / {} logical bytes", p.chunks.len(), logical.len()),
            )),
            (RawEnd::ErrResp(..), Some(_)) => {}
        }
        if fail.is_some() || !matches!(p.end, RawEnd::Last) {
            let lim = fail.filter(|_| !beve).unwrap_or(expected.len()).min(expected.len());
            if logical.len() > lim || logical[..] != expected[..logical.len()] {
                d.push(("delivered-prefix-differs".into(), format!("the {} logical bytes delivered before {:?} are not a prefix of the producer's first {lim} bytes (first difference at {})", logical.len(), p.end, first_diff(&logical, expected))));
            }
        }
        for (i, a) in p.after.iter().enumerate() {
            if let NextOut::Chunk { bytes, last, .. } = a {
                let when = if matches!(p.end, RawEnd::Last) { "end" } else { "failure" };
                d.push((format!("next-after-{when}-served"), format!("next #{} after the {when} returned a chunk of {} bytes (last={last}) instead of an error", i + 1, bytes.len())));
                break;
            }
        }
        (d, exact)
    }

    /// Classify a library puller's result against the producer's bytes. None = as required.
    pub fn pull_defect(got: &Result<Vec<u8>, String>, expected: &[u8], fail: Option<usize>, chunk: usize) -> Option<(String, String)> {
        match (fail, got) {
            (None, Ok(b)) if b == expected => None,
            (None, Ok(b)) => {
                let (what, how) = diff_what(b, expected, chunk);
                Some((what.into(), format!("returned Ok with {} logical bytes, the producer emitted {}: {how}", b.len(), expected.len())))
            }
            (None, Err(e)) => Some(("error-on-healthy-stream".into(), format!("failed on a healthy {}-byte stream: {e}", expected.len()))),
            (Some(k), Ok(b)) => Some(("ok-on-producer-failure".into(), format!("returned Ok ({} bytes) although the producer's source failed after {k} logical bytes", b.len()))),
            (Some(_), Err(_)) => None,
        }
    }
}
