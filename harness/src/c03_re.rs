//! C03 helper: servers for the class "handlers that re-enter the state they are served from".
//!
//! The routers of every C03 server carry (c03_srv.rs) a registry mounted at /rr whose FUNCTIONS read and write that same
//! registry while they run (`read_value`, `register_value`, `merge_at`, `merge_root`, `set_root`, `register_function` from
//! inside the function), functions of /rr and /r2 that write into the other registry, plain value reads / writes on /rr,
//! and a context-aware handler that calls into the server's `PeerRegistry` (the one the WebSocket servers here attach with
//! `with_peer_registry`) while it runs. This module starts one server per dispatch path for that class — blocking TCP,
//! async TCP, WebSocket inline, WebSocket off-reader on the shared multi-thread runtime, plus async TCP and WebSocket
//! inline on a current-thread runtime of their own — so that a handler that never returns cannot disturb the servers of
//! the other classes.
//!
//! Oracle (c03.rs `check_server`, unchanged): the re-entrant call is a dispatched request like any other — exactly one
//! response with its id and the function's result, its handler runs exactly once — and so are the requests pipelined
//! behind it and the requests of the connections served at the same time. What the class adds is the verdict for a
//! request that is never answered at all: the peer wrote everything, kept the connection open for the bounded-progress
//! window (`cli::WAIT_T`), closed, waited again (`cli::EOS_T`) and still has neither the response nor the end of the
//! stream, while the machine did not stall: `C03:no-response-within-progress-window:<server>:<class>`.

use super::srv::{self, Srv, Tr};
use repe::{AsyncServer, Server, WebSocketServer};
use std::net::SocketAddr;
use std::time::Duration;

const FIRST_SID: u8 = 96;

fn ws_server(sid: u8, off: bool) -> WebSocketServer {
    WebSocketServer::new(srv::build_router(sid, off, false)).with_offreader_limit(0).with_peer_registry(srv::preg_for(sid)).on_error(|_| {})
}

/// An async TCP / WebSocket inline server on a current-thread runtime that lives on an OS thread of its own.
fn start_current_thread(sid: u8, ws: bool) -> std::io::Result<SocketAddr> {
    let (tx, rx) = std::sync::mpsc::channel::<std::io::Result<SocketAddr>>();
    std::thread::Builder::new().name(format!("c03-re-ct{sid}")).spawn(move || {
        let rt = match tokio::runtime::Builder::new_current_thread().enable_all().build() {
            Ok(rt) => rt,
            Err(e) => {
                let _ = tx.send(Err(e));
                return;
            }
        };
        rt.block_on(async move {
            let l = match tokio::net::TcpListener::bind("127.0.0.1:0").await {
                Ok(l) => l,
                Err(e) => {
                    let _ = tx.send(Err(e));
                    return;
                }
            };
            let _ = tx.send(l.local_addr());
            if ws {
                let _ = ws_server(sid, false).serve_listener(l, "/ws").await;
            } else {
                let _ = AsyncServer::new(srv::build_router(sid, false, false)).serve(l).await;
            }
        });
    })?;
    rx.recv_timeout(Duration::from_secs(10)).map_err(|_| std::io::Error::other("current-thread server did not come up"))?
}

/// `mt`: one multi-thread runtime per server that is not on a current-thread runtime (async TCP, WebSocket inline,
/// WebSocket off-reader), so that worker threads lost on one dispatch path are not missing on another.
pub fn start(mt: &[tokio::runtime::Runtime; 3]) -> std::io::Result<Vec<Srv>> {
    let mut mts = mt.iter();
    let mut v = vec![];
    let mut sid = FIRST_SID;
    for (tr, ct) in [(Tr::Tcp, false), (Tr::AsyncTcp, false), (Tr::AsyncTcp, true), (Tr::WsInline, false), (Tr::WsInline, true), (Tr::WsOff, false)] {
        let addr = match (tr, ct) {
            (Tr::Tcp, _) => {
                let l = std::net::TcpListener::bind("127.0.0.1:0")?;
                let addr = l.local_addr()?;
                let router = srv::build_router(sid, false, false);
                std::thread::Builder::new().name("c03-re-server".into()).spawn(move || {
                    let _ = Server::new(router).serve(l);
                })?;
                addr
            }
            (_, true) => start_current_thread(sid, tr == Tr::WsInline)?,
            (Tr::AsyncTcp, false) => {
                let mt = mts.next().expect("runtime");
                let l = mt.block_on(tokio::net::TcpListener::bind("127.0.0.1:0"))?;
                let addr = l.local_addr()?;
                let router = srv::build_router(sid, false, false);
                mt.spawn(async move {
                    let _ = AsyncServer::new(router).serve(l).await;
                });
                addr
            }
            (_, false) => {
                let mt = mts.next().expect("runtime");
                let l = mt.block_on(tokio::net::TcpListener::bind("127.0.0.1:0"))?;
                let addr = l.local_addr()?;
                let s = ws_server(sid, tr == Tr::WsOff);
                mt.spawn(async move {
                    let _ = s.serve_listener(l, "/ws").await;
                });
                addr
            }
        };
        v.push(Srv { sid, tr, mw: false, addr, tag: Some(if ct { "reentrant-current-thread".to_string() } else { "reentrant".to_string() }) });
        sid += 1;
    }
    Ok(v)
}
