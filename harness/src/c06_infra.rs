//! C06 infrastructure: probe gate controller, remote-controlled fake servers (raw TCP and
//! WebSocket, frames built with oracle.rs), client wrappers and call bookkeeping.

use crate::common::*;
use crate::oracle::{self, SpecHeader};
use futures_util::{SinkExt, StreamExt};
use serde_json::{Value, json};
use std::collections::BTreeMap;
use std::net::SocketAddr;
use std::sync::{Arc, Condvar, Mutex, mpsc};
use std::time::{Duration, Instant};
use tokio::io::{AsyncReadExt, AsyncWriteExt};
use tokio_tungstenite::tungstenite::Message as WsMsg;

pub const WINDOW: Duration = Duration::from_secs(15);
pub const GATE_MAX: Duration = Duration::from_secs(10);
pub const STEP_MAX: Duration = Duration::from_secs(10);

// ------------------------------------------------------------------ probe gates

pub type Pt = (&'static str, u64);

pub struct ProbeState {
    pub events: Vec<Pt>,
    park: Vec<Pt>,
    released: Vec<Pt>,
    parked: Vec<Pt>,
    release_all: bool,
    pub hits: BTreeMap<&'static str, u64>,
    pub gate_timeouts: u64,
    pub parks_done: u64,
}

static PS: Mutex<ProbeState> = Mutex::new(ProbeState {
    events: Vec::new(),
    park: Vec::new(),
    released: Vec::new(),
    parked: Vec::new(),
    release_all: false,
    hits: BTreeMap::new(),
    gate_timeouts: 0,
    parks_done: 0,
});
static PCV: Condvar = Condvar::new();

fn ps() -> std::sync::MutexGuard<'static, ProbeState> {
    PS.lock().unwrap_or_else(|e| e.into_inner())
}

fn probe_cb(point: &'static str, id: u64) {
    let mut g = ps();
    *g.hits.entry(point).or_insert(0) += 1;
    g.events.push((point, id));
    let me = (point, id);
    if g.park.contains(&me) && !g.release_all {
        g.parked.push(me);
        g.parks_done += 1;
        PCV.notify_all();
        let deadline = Instant::now() + GATE_MAX;
        while !g.released.contains(&me) && !g.release_all {
            let now = Instant::now();
            if now >= deadline {
                g.gate_timeouts += 1;
                break;
            }
            g = PCV.wait_timeout(g, deadline - now).unwrap_or_else(|e| e.into_inner()).0;
        }
        g.park.retain(|p| *p != me);
        g.parked.retain(|p| *p != me);
    }
    PCV.notify_all();
}

pub fn probes_install() {
    repe::verif_hooks::set_probe(Some(Arc::new(probe_cb)));
}
pub fn probes_remove() {
    ps_release_all();
    repe::verif_hooks::set_probe(None);
}
/// New scenario: forget events and rules (cumulative hit counters stay).
pub fn ps_reset() {
    let mut g = ps();
    g.events.clear();
    g.park.clear();
    g.released.clear();
    g.parked.clear();
    g.release_all = false;
}
pub fn ps_park(p: Pt) {
    ps().park.push(p);
}
pub fn ps_release(p: Pt) {
    let mut g = ps();
    g.released.push(p);
    g.park.retain(|x| *x != p);
    PCV.notify_all();
}
pub fn ps_release_all() {
    let mut g = ps();
    g.release_all = true;
    g.park.clear();
    PCV.notify_all();
}
fn ps_wait(mut pred: impl FnMut(&ProbeState) -> bool, dur: Duration) -> bool {
    let deadline = Instant::now() + dur;
    let mut g = ps();
    loop {
        if pred(&g) {
            return true;
        }
        let now = Instant::now();
        if now >= deadline {
            return false;
        }
        g = PCV.wait_timeout(g, deadline - now).unwrap_or_else(|e| e.into_inner()).0;
    }
}
pub fn ps_wait_event(p: Pt, dur: Duration) -> bool {
    ps_wait(|g| g.events.contains(&p), dur)
}
pub fn ps_wait_parked(p: Pt, dur: Duration) -> bool {
    ps_wait(|g| g.parked.contains(&p), dur)
}
pub fn ps_wait_count(point: &'static str, n: usize, dur: Duration) -> bool {
    ps_wait(|g| g.events.iter().filter(|e| e.0 == point).count() >= n, dur)
}
pub fn ps_index(p: Pt) -> Option<usize> {
    ps().events.iter().position(|e| *e == p)
}
pub fn ps_trace() -> String {
    let g = ps();
    let n = g.events.len();
    let tail = &g.events[n.saturating_sub(40)..];
    tail.iter().map(|(p, i)| format!("{p}#{i}")).collect::<Vec<_>>().join(" ")
}
pub fn ps_hits() -> BTreeMap<&'static str, u64> {
    ps().hits.clone()
}
pub fn ps_gate_stats() -> (u64, u64) {
    let g = ps();
    (g.parks_done, g.gate_timeouts)
}

// ------------------------------------------------------------------ client kinds

#[derive(Clone, Copy, Debug, PartialEq, Eq, Hash, PartialOrd, Ord)]
pub enum Kind {
    Sync,
    Async,
    Ws,
}
pub const KINDS: [Kind; 3] = [Kind::Sync, Kind::Async, Kind::Ws];

impl Kind {
    pub fn name(self) -> &'static str {
        match self {
            Kind::Sync => "client",
            Kind::Async => "async_client",
            Kind::Ws => "ws_client",
        }
    }
    /// Probe point name; None when the point does not exist for this client.
    pub fn pt(self, what: &str) -> Option<&'static str> {
        Some(match (self, what) {
            (Kind::Sync, "registered") => "client.registered",
            (Kind::Sync, "write.locked") => "client.write.locked",
            (Kind::Sync, "written") => "client.written",
            (Kind::Sync, "timeout.before_remove") => "client.timeout.before_remove",
            (Kind::Sync, "reader.received") => "client.reader.received",
            (Kind::Sync, "reader.before_deliver") => "client.reader.before_deliver",
            (Kind::Async, "registered") => "async_client.registered",
            (Kind::Async, "write.locked") => "async_client.write.locked",
            (Kind::Async, "written") => "async_client.written",
            (Kind::Async, "timeout.before_remove") => "async_client.timeout.before_remove",
            (Kind::Async, "reader.received") => "async_client.reader.received",
            (Kind::Async, "reader.before_deliver") => "async_client.reader.before_deliver",
            (Kind::Ws, "registered") => "ws_client.registered",
            (Kind::Ws, "write.locked") => "ws_client.write.locked",
            (Kind::Ws, "timeout.before_remove") => "ws_client.timeout.before_remove",
            (Kind::Ws, "reader.received") => "ws_client.reader.received",
            (Kind::Ws, "reader.before_deliver") => "ws_client.reader.before_deliver",
            _ => return None,
        })
    }
}

#[derive(Clone)]
pub enum Cli {
    Sync(repe::Client),
    Async(repe::AsyncClient),
    Ws(repe::WebSocketClient),
}

impl Cli {
    pub fn pending_len(&self) -> usize {
        match self {
            Cli::Sync(c) => c.verif_pending_len(),
            Cli::Async(c) => c.verif_pending_len(),
            Cli::Ws(c) => c.verif_pending_len(),
        }
    }
}

#[derive(Clone, Debug)]
pub enum CallRes {
    Ok(Value),
    Err(String),
    Panic(String),
}

pub fn ekind(e: &repe::RepeError) -> String {
    match e {
        repe::RepeError::Io(io) => format!("Io:{:?}", io.kind()),
        other => {
            let d = format!("{other:?}");
            d.split(|c: char| !c.is_alphanumeric()).next().unwrap_or("").to_string()
        }
    }
}

pub struct Done {
    pub idx: usize,
    pub res: CallRes,
}

pub struct CallInfo {
    pub token: u64,
    pub timeout: Option<Duration>,
    pub handle: Option<tokio::task::JoinHandle<()>>,
    pub res: Option<CallRes>,
    /// aborted and joined as cancelled: no result is expected
    pub cancelled: bool,
    /// blocking client: the caller thread stays alive and takes further jobs, so a follow-up call can be
    /// issued from the SAME OS thread (per-thread state in the client must not leak between calls)
    pub worker: Option<mpsc::Sender<(usize, String, Value, Option<Duration>)>>,
    /// `AsyncClient::forward_message*` call: the CALLER-CHOSEN request id it was issued with
    pub fwd_id: Option<u64>,
    /// forward launched droppable: firing this makes the task drop the forward future (the task lives on)
    pub drop_tx: Option<tokio::sync::oneshot::Sender<()>>,
}

pub struct Calls {
    tx: mpsc::Sender<Done>,
    rx: mpsc::Receiver<Done>,
    pub v: Vec<CallInfo>,
}

pub const PATH: &str = "/c06/echo";

pub fn body_for(token: u64, pad: usize) -> Value {
    json!({"t": token, "p": "x".repeat(pad)})
}

impl Calls {
    pub fn new() -> Calls {
        let (tx, rx) = mpsc::channel();
        Calls { tx, rx, v: vec![] }
    }
    pub fn launch(&mut self, env: &Env, cli: &Cli, token: u64, pad: usize, timeout: Option<Duration>) -> usize {
        self.launch_at(env, cli, PATH, token, pad, timeout)
    }
    /// `launch` with a caller-chosen route (the fake servers echo the request's query in the response, so
    /// the route is what a late / discarded response carries).
    pub fn launch_at(&mut self, env: &Env, cli: &Cli, path: &str, token: u64, pad: usize, timeout: Option<Duration>) -> usize {
        let idx = self.v.len();
        let path = path.to_string();
        let tx = self.tx.clone();
        let body = body_for(token, pad);
        let conv = |r: Result<Value, repe::RepeError>| match r {
            Ok(v) => CallRes::Ok(v),
            Err(e) => CallRes::Err(format!("{}: {}", ekind(&e), trunc(&e.to_string(), 120))),
        };
        let mut handle = None;
        let mut worker = None;
        match cli.clone() {
            Cli::Sync(c) => {
                let (jtx, jrx) = mpsc::channel::<(usize, String, Value, Option<Duration>)>();
                let _ = jtx.send((idx, path, body.clone(), timeout));
                worker = Some(jtx);
                let r = std::thread::Builder::new().stack_size(256 << 10).spawn(move || {
                    while let Ok((idx, path, body, timeout)) = jrx.recv() {
                        let r = catching(|| match timeout {
                            None => c.call_json(&path, &body),
                            Some(d) => c.call_json_with_timeout(&path, &body, d),
                        });
                        let res = match r {
                            Ok(r) => conv(r),
                            Err(p) => CallRes::Panic(p),
                        };
                        let _ = tx.send(Done { idx, res });
                    }
                });
                if let Err(e) = r {
                    let _ = self.tx.send(Done { idx, res: CallRes::Panic(format!("harness: thread spawn failed: {e}")) });
                }
            }
            Cli::Async(c) => {
                handle = Some(env.rt_cli.spawn(async move {
                    let r = match timeout {
                        None => c.call_json(&path, &body).await,
                        Some(d) => c.call_json_with_timeout(&path, &body, d).await,
                    };
                    let _ = tx.send(Done { idx, res: conv(r) });
                }));
            }
            Cli::Ws(c) => {
                handle = Some(env.rt_cli.spawn(async move {
                    let r = match timeout {
                        None => c.call_json(&path, &body).await,
                        Some(d) => c.call_json_with_timeout(&path, &body, d).await,
                    };
                    let _ = tx.send(Done { idx, res: conv(r) });
                }));
            }
        }
        self.v.push(CallInfo { token, timeout, handle, res: None, cancelled: false, worker, fwd_id: None, drop_tx: None });
        idx
    }
    /// Issue a call from the same OS thread that made call `from` (blocking client; that call must have
    /// returned). Other clients: an ordinary launch.
    pub fn launch_same_thread(&mut self, env: &Env, cli: &Cli, from: usize, token: u64, pad: usize, timeout: Option<Duration>) -> usize {
        self.launch_same_thread_at(env, cli, from, PATH, token, pad, timeout)
    }
    pub fn launch_same_thread_at(&mut self, env: &Env, cli: &Cli, from: usize, path: &str, token: u64, pad: usize, timeout: Option<Duration>) -> usize {
        if let Some(w) = self.v.get(from).and_then(|c| c.worker.clone()) {
            let idx = self.v.len();
            if w.send((idx, path.to_string(), body_for(token, pad), timeout)).is_ok() {
                self.v.push(CallInfo { token, timeout, handle: None, res: None, cancelled: false, worker: Some(w), fwd_id: None, drop_tx: None });
                return idx;
            }
        }
        self.launch_at(env, cli, path, token, pad, timeout)
    }
    /// Blocking client only: a caller thread that is already running and spins until `go` is set,
    /// then waits `delay_us` more and calls. Used to land registrations inside a window of a few
    /// microseconds (lock hand-over between a releasing caller and the failing reader).
    pub fn launch_spinning(&mut self, c: &repe::Client, token: u64, timeout: Option<Duration>, go: Arc<std::sync::atomic::AtomicBool>, delay_us: u64) -> usize {
        let idx = self.v.len();
        let tx = self.tx.clone();
        let body = body_for(token, 0);
        let c = c.clone();
        let r = std::thread::Builder::new().stack_size(256 << 10).spawn(move || {
            while !go.load(std::sync::atomic::Ordering::Acquire) {
                std::hint::spin_loop();
            }
            let t = Instant::now();
            while (t.elapsed().as_micros() as u64) < delay_us {
                std::hint::spin_loop();
            }
            let r = catching(|| match timeout {
                None => c.call_json(PATH, &body),
                Some(d) => c.call_json_with_timeout(PATH, &body, d),
            });
            let res = match r {
                Ok(Ok(v)) => CallRes::Ok(v),
                Ok(Err(e)) => CallRes::Err(format!("{}: {}", ekind(&e), trunc(&e.to_string(), 120))),
                Err(p) => CallRes::Panic(p),
            };
            let _ = tx.send(Done { idx, res });
        });
        if let Err(e) = r {
            let _ = self.tx.send(Done { idx, res: CallRes::Panic(format!("harness: thread spawn failed: {e}")) });
        }
        self.v.push(CallInfo { token, timeout, handle: None, res: None, cancelled: false, worker: None, fwd_id: None, drop_tx: None });
        idx
    }
    /// A forwarded call on the async client: a prebuilt request frame carrying the CALLER-CHOSEN id `id`
    /// goes through `AsyncClient::forward_message` / `forward_message_with_timeout` (the API a proxy uses
    /// to relay downstream frames over a shared upstream client). The result is the JSON body of the
    /// response plus `"_id"` = the id in the response header. With `droppable` the task selects between
    /// the forward future and a signal: `drop_future_and_wait` makes it DROP the future while the task
    /// itself lives on (the other flavour of cancellation next to `JoinHandle::abort`).
    pub fn launch_fwd(&mut self, env: &Env, cli: &Cli, id: u64, token: u64, pad: usize, timeout: Option<Duration>, droppable: bool) -> usize {
        let idx = self.v.len();
        let tx = self.tx.clone();
        let body = body_for(token, pad);
        let mut handle = None;
        let mut drop_tx = None;
        match cli.clone() {
            Cli::Async(c) => {
                let msg = match repe::Message::builder().id(id).query_str(PATH).query_format_code(1).body_json(&body) {
                    Ok(b) => b.build(),
                    Err(e) => {
                        let _ = self.tx.send(Done { idx, res: CallRes::Panic(format!("harness: request build failed: {e}")) });
                        self.v.push(CallInfo { token, timeout, handle: None, res: None, cancelled: false, worker: None, fwd_id: Some(id), drop_tx: None });
                        return idx;
                    }
                };
                let (dtx, drx) = tokio::sync::oneshot::channel::<()>();
                // not droppable: the sender lives inside the task, so the signal never fires
                let keep = if droppable {
                    drop_tx = Some(dtx);
                    None
                } else {
                    Some(dtx)
                };
                handle = Some(env.rt_cli.spawn(async move {
                    let _keep = keep;
                    let r = {
                        let fut = async {
                            match timeout {
                                None => c.forward_message(&msg).await,
                                Some(d) => c.forward_message_with_timeout(&msg, d).await,
                            }
                        };
                        tokio::pin!(fut);
                        tokio::select! {
                            biased;
                            r = &mut fut => Some(r),
                            _ = drx => None,
                        }
                        // `fut` is dropped here, before the result is published
                    };
                    let res = match r {
                        None => CallRes::Err("FutureDropped: the harness dropped the forward future".into()),
                        Some(Ok(Some(m))) => match serde_json::from_slice::<Value>(&m.body) {
                            Ok(mut v) => {
                                if let Some(o) = v.as_object_mut() {
                                    o.insert("_id".into(), json!(m.header.id));
                                }
                                CallRes::Ok(v)
                            }
                            Err(e) => CallRes::Err(format!("ForwardBodyNotJson: {e} (ec {}, {} body bytes)", m.header.ec, m.body.len())),
                        },
                        Some(Ok(None)) => CallRes::Err("ForwardReturnedNone: Ok(None) for a non-notify request".into()),
                        Some(Err(e)) => CallRes::Err(format!("{}: {}", ekind(&e), trunc(&e.to_string(), 120))),
                    };
                    let _ = tx.send(Done { idx, res });
                }));
            }
            _ => {
                let _ = self.tx.send(Done { idx, res: CallRes::Panic("harness: forward_message exists on AsyncClient only".into()) });
            }
        }
        self.v.push(CallInfo { token, timeout, handle, res: None, cancelled: false, worker: None, fwd_id: Some(id), drop_tx });
        idx
    }
    /// Make the task of droppable forward `idx` drop its forward future and wait until it has done so.
    /// Returns "cancelled" (future dropped before it completed), "completed", "panicked:<msg>",
    /// "join-timeout" or "no-handle".
    pub fn drop_future_and_wait(&mut self, idx: usize, dur: Duration, after_signal: impl FnOnce()) -> String {
        let Some(tx) = self.v[idx].drop_tx.take() else {
            return "no-handle".into();
        };
        let _ = tx.send(());
        after_signal();
        if !self.wait(&[idx], dur).is_empty() {
            return "join-timeout".into();
        }
        match self.v[idx].res.clone() {
            Some(CallRes::Err(e)) if e.starts_with("FutureDropped") => {
                self.v[idx].cancelled = true;
                self.v[idx].res = None;
                "cancelled".into()
            }
            Some(CallRes::Panic(p)) => format!("panicked:{p}"),
            _ => "completed".into(),
        }
    }
    fn absorb(&mut self, d: Done) {
        if let Some(c) = self.v.get_mut(d.idx) {
            c.res = Some(d.res);
        }
    }
    /// Wait until every call in `idxs` has a result (or is cancelled); returns the ones that have not.
    pub fn wait(&mut self, idxs: &[usize], dur: Duration) -> Vec<usize> {
        let deadline = Instant::now() + dur;
        loop {
            while let Ok(d) = self.rx.try_recv() {
                self.absorb(d);
            }
            let missing: Vec<usize> = idxs.iter().copied().filter(|i| self.v[*i].res.is_none() && !self.v[*i].cancelled).collect();
            if missing.is_empty() {
                return missing;
            }
            let now = Instant::now();
            if now >= deadline {
                return missing;
            }
            match self.rx.recv_timeout((deadline - now).min(Duration::from_millis(200))) {
                Ok(d) => self.absorb(d),
                Err(_) => {}
            }
        }
    }
    pub fn all(&self) -> Vec<usize> {
        (0..self.v.len()).collect()
    }
    /// Abort the task of call `idx` and wait for it to be gone. Returns "cancelled", "completed",
    /// "panicked:<msg>", "join-timeout" or "no-handle".
    pub fn abort_and_join(&mut self, env: &Env, idx: usize, dur: Duration, after_abort: impl FnOnce()) -> String {
        let Some(h) = self.v[idx].handle.take() else {
            return "no-handle".into();
        };
        h.abort();
        after_abort();
        let r = env.rt_cli.block_on(async { tokio::time::timeout(dur, h).await });
        match r {
            Err(_) => "join-timeout".into(),
            Ok(Ok(())) => "completed".into(),
            Ok(Err(e)) if e.is_cancelled() => {
                self.v[idx].cancelled = true;
                "cancelled".into()
            }
            Ok(Err(e)) => format!("panicked:{e}"),
        }
    }
}

// ------------------------------------------------------------------ environment

pub struct Env {
    pub rt_cli: tokio::runtime::Runtime,
    pub rt_srv: tokio::runtime::Runtime,
    tcp: Arc<tokio::net::TcpListener>,
    pub tcp_addr: SocketAddr,
    ws: Arc<tokio::net::TcpListener>,
    pub ws_addr: SocketAddr,
    pub hb: Heartbeat,
    /// largest heartbeat gap over all scenarios (the heartbeat itself is reset per scenario)
    pub max_gap_all: u64,
    next_token: u64,
    next_fwd_id: u64,
    pub hangs_left: i64,
    /// wall-clock cap of the whole stage: loops stop starting new scenarios after it
    pub deadline: Instant,
    kick_stop: Arc<std::sync::atomic::AtomicBool>,
}

impl Drop for Env {
    fn drop(&mut self) {
        self.kick_stop.store(true, std::sync::atomic::Ordering::Relaxed);
    }
}

impl Env {
    pub fn new(hang_budget: i64) -> Result<Env, String> {
        let rt_cli = tokio::runtime::Builder::new_multi_thread().worker_threads(6).enable_all().thread_name("c06-cli").build().map_err(|e| e.to_string())?;
        let rt_srv = tokio::runtime::Builder::new_multi_thread().worker_threads(2).enable_all().thread_name("c06-srv").build().map_err(|e| e.to_string())?;
        let tcp = rt_srv.block_on(tokio::net::TcpListener::bind("127.0.0.1:0")).map_err(|e| e.to_string())?;
        let ws = rt_srv.block_on(tokio::net::TcpListener::bind("127.0.0.1:0")).map_err(|e| e.to_string())?;
        let tcp_addr = tcp.local_addr().map_err(|e| e.to_string())?;
        let ws_addr = ws.local_addr().map_err(|e| e.to_string())?;
        // A probe that parks inside an async task blocks a tokio worker. If that worker was the one
        // driving the I/O + timer driver, no other worker takes the driver over until it is woken
        // (tokio only wakes a sibling when more than one task is queued), so socket readiness and
        // timers of the OTHER tasks would stall behind the gate. An external kicker injects a no-op
        // task every millisecond: the worker that runs it parks again and picks the free driver up.
        let kick_stop = Arc::new(std::sync::atomic::AtomicBool::new(false));
        {
            let (stop, h) = (kick_stop.clone(), rt_cli.handle().clone());
            let _ = std::thread::Builder::new().name("c06-kick".into()).spawn(move || {
                while !stop.load(std::sync::atomic::Ordering::Relaxed) {
                    drop(h.spawn(async {}));
                    std::thread::sleep(Duration::from_millis(1));
                }
            });
        }
        Ok(Env { rt_cli, rt_srv, tcp: Arc::new(tcp), tcp_addr, ws: Arc::new(ws), ws_addr, hb: Heartbeat::start(), max_gap_all: 0, next_token: 1000, next_fwd_id: 0, hangs_left: hang_budget, deadline: Instant::now() + Duration::from_secs(3600), kick_stop })
    }
    pub fn hb_reset(&mut self) {
        self.max_gap_all = self.max_gap_all.max(self.hb.max_gap_ms());
        self.hb.reset();
    }
    pub fn stop(&self) -> bool {
        self.hangs_left <= 0 || Instant::now() > self.deadline
    }
    pub fn token(&mut self) -> u64 {
        self.next_token += 1;
        self.next_token
    }
    /// A fresh caller-chosen request id for a forwarded frame: far away from the ids the client's own
    /// counter hands out (1, 2, ..), unique over the whole run unless a scenario reuses it on purpose.
    pub fn fwd_id(&mut self) -> u64 {
        self.next_fwd_id += 1;
        (1u64 << 40) + self.next_fwd_id * 7
    }
    /// Start a fake server connection and connect a client of `kind` to it.
    pub fn connect(&self, kind: Kind, reading: bool) -> Result<(Cli, Srv), String> {
        let srv = self.start_srv(kind == Kind::Ws, reading);
        let cli = match kind {
            Kind::Sync => Cli::Sync(repe::Client::connect(self.tcp_addr).map_err(|e| format!("connect: {e}"))?),
            Kind::Async => Cli::Async(self.rt_cli.block_on(async { tokio::time::timeout(STEP_MAX, repe::AsyncClient::connect(self.tcp_addr)).await }).map_err(|_| "connect timed out".to_string())?.map_err(|e| format!("connect: {e}"))?),
            Kind::Ws => {
                let url = format!("ws://{}/", self.ws_addr);
                Cli::Ws(self.rt_cli.block_on(async { tokio::time::timeout(STEP_MAX, repe::WebSocketClient::connect(&url)).await }).map_err(|_| "ws connect timed out".to_string())?.map_err(|e| format!("ws connect: {e}"))?)
            }
        };
        Ok((cli, srv))
    }
    fn start_srv(&self, ws: bool, reading: bool) -> Srv {
        let (ctx, crx) = tokio::sync::mpsc::unbounded_channel();
        let (etx, erx) = mpsc::channel();
        let l = if ws { self.ws.clone() } else { self.tcp.clone() };
        self.rt_srv.spawn(async move {
            match tokio::time::timeout(STEP_MAX, l.accept()).await {
                Ok(Ok((s, _))) => {
                    let _ = s.set_nodelay(true);
                    if ws { serve_ws(s, crx, etx).await } else { serve_tcp(s, crx, etx, reading).await }
                }
                _ => {
                    let _ = etx.send(Ev::Gone("accept failed".into()));
                }
            }
        });
        Srv { cmd: ctx, ev: erx, reqs: vec![], gone: None, sent_full: vec![], sent_tokens: vec![] }
    }
}

// ------------------------------------------------------------------ fake server

pub enum Cmd {
    StartReading,
    /// raw bytes on the TCP stream (for WebSocket: below the WebSocket layer)
    Raw(Vec<u8>),
    /// drop the socket (FIN, or RST by the kernel when unread data is queued); no WebSocket close handshake
    Close,
    /// SO_LINGER 0 then drop: RST
    Rst,
    WsBinary(Vec<u8>),
    WsText(String),
    WsCloseFrame,
}

pub enum Ev {
    Req(Req),
    /// peer closed / error / corrupt request stream / accept failed
    Gone(String),
}

#[derive(Clone, Debug)]
pub struct Req {
    pub header: SpecHeader,
    pub query: Vec<u8>,
    pub body: Vec<u8>,
    pub token: u64,
}

impl Req {
    pub fn response(&self) -> Vec<u8> {
        let h = SpecHeader { spec: oracle::SPEC, version: 1, notify: 0, id: self.header.id, query_format: self.header.query_format, body_format: self.header.body_format, ec: 0, ..Default::default() };
        oracle::frame(h, &self.query, &self.body)
    }
    pub fn fabricated(id: u64) -> Req {
        let body = serde_json::to_vec(&body_for(0, 6)).unwrap_or_default();
        Req { header: SpecHeader { spec: oracle::SPEC, version: 1, id, query_format: 1, body_format: 2, ..Default::default() }, query: PATH.as_bytes().to_vec(), body, token: 0 }
    }
}

fn to_req(h: SpecHeader, q: &[u8], b: &[u8]) -> Req {
    let token = serde_json::from_slice::<Value>(b).ok().and_then(|v| v["t"].as_u64()).unwrap_or(u64::MAX);
    Req { header: h, query: q.to_vec(), body: b.to_vec(), token }
}

pub struct Srv {
    cmd: tokio::sync::mpsc::UnboundedSender<Cmd>,
    ev: mpsc::Receiver<Ev>,
    pub reqs: Vec<Req>,
    pub gone: Option<String>,
    /// request ids for which a complete, correct response was handed to the socket
    pub sent_full: Vec<u64>,
    /// tokens of the requests for which a complete, correct response was handed to the socket
    /// (request ids can be reused by forwarded frames, tokens never are)
    pub sent_tokens: Vec<u64>,
}

impl Srv {
    pub fn send(&self, c: Cmd) {
        let _ = self.cmd.send(c);
    }
    fn absorb(&mut self, e: Ev) {
        match e {
            Ev::Req(r) => self.reqs.push(r),
            Ev::Gone(w) => {
                if self.gone.is_none() {
                    self.gone = Some(w)
                }
            }
        }
    }
    pub fn poll(&mut self) {
        while let Ok(e) = self.ev.try_recv() {
            self.absorb(e);
        }
    }
    /// Wait until the server has parsed `n` requests.
    pub fn wait_reqs(&mut self, n: usize, dur: Duration) -> bool {
        let deadline = Instant::now() + dur;
        loop {
            self.poll();
            if self.reqs.len() >= n {
                return true;
            }
            let now = Instant::now();
            if now >= deadline || self.gone.is_some() {
                return self.reqs.len() >= n;
            }
            if let Ok(e) = self.ev.recv_timeout((deadline - now).min(Duration::from_millis(100))) {
                self.absorb(e);
            }
        }
    }
    pub fn wait_token(&mut self, token: u64, dur: Duration) -> bool {
        let deadline = Instant::now() + dur;
        loop {
            self.poll();
            if self.reqs.iter().any(|r| r.token == token) {
                return true;
            }
            let now = Instant::now();
            if now >= deadline || self.gone.is_some() {
                return false;
            }
            if let Ok(e) = self.ev.recv_timeout((deadline - now).min(Duration::from_millis(100))) {
                self.absorb(e);
            }
        }
    }
    pub fn req_by_token(&self, token: u64) -> Option<Req> {
        self.reqs.iter().find(|r| r.token == token).cloned()
    }
    /// Send the complete correct response for `r` (binary WebSocket message when `ws`).
    pub fn answer(&mut self, r: &Req, ws: bool) {
        let f = r.response();
        self.send(if ws { Cmd::WsBinary(f) } else { Cmd::Raw(f) });
        self.sent_full.push(r.header.id);
        self.sent_tokens.push(r.token);
    }
}

fn set_linger0(s: &tokio::net::TcpStream) {
    let _ = s.set_linger(Some(Duration::ZERO));
}

async fn serve_tcp(mut s: tokio::net::TcpStream, mut cmd: tokio::sync::mpsc::UnboundedReceiver<Cmd>, ev: mpsc::Sender<Ev>, mut reading: bool) {
    let mut buf: Vec<u8> = vec![];
    let mut tmp = vec![0u8; 16 << 10];
    loop {
        tokio::select! {
            c = cmd.recv() => match c {
                None | Some(Cmd::Close) => return,
                Some(Cmd::Rst) => { set_linger0(&s); return; }
                Some(Cmd::StartReading) => reading = true,
                Some(Cmd::Raw(b)) => { let _ = s.write_all(&b).await; let _ = s.flush().await; }
                Some(_) => {}
            },
            r = s.read(&mut tmp), if reading => match r {
                Ok(0) => { reading = false; let _ = ev.send(Ev::Gone("eof".into())); }
                Err(e) => { reading = false; let _ = ev.send(Ev::Gone(format!("read error: {e}"))); }
                Ok(n) => {
                    buf.extend_from_slice(&tmp[..n]);
                    loop {
                        if buf.len() >= oracle::HDR && !SpecHeader::decode(&buf).consistent() {
                            reading = false;
                            let _ = ev.send(Ev::Gone("corrupt request stream".into()));
                            break;
                        }
                        match oracle::valid_parse(&buf, false) {
                            Some((h, ql, bl)) => {
                                let _ = ev.send(Ev::Req(to_req(h, &buf[48..48 + ql], &buf[48 + ql..48 + ql + bl])));
                                buf.drain(..48 + ql + bl);
                            }
                            None => break,
                        }
                    }
                }
            }
        }
    }
}

async fn serve_ws(s: tokio::net::TcpStream, mut cmd: tokio::sync::mpsc::UnboundedReceiver<Cmd>, ev: mpsc::Sender<Ev>) {
    let mut ws = match tokio::time::timeout(STEP_MAX, tokio_tungstenite::accept_async(s)).await {
        Ok(Ok(w)) => w,
        _ => {
            let _ = ev.send(Ev::Gone("ws handshake failed".into()));
            return;
        }
    };
    let mut reading = true;
    loop {
        tokio::select! {
            c = cmd.recv() => match c {
                None | Some(Cmd::Close) => return,
                Some(Cmd::Rst) => { set_linger0(ws.get_ref()); return; }
                Some(Cmd::StartReading) => {}
                Some(Cmd::Raw(b)) => { let t = ws.get_mut(); let _ = t.write_all(&b).await; let _ = t.flush().await; }
                Some(Cmd::WsBinary(b)) => { let _ = ws.send(WsMsg::Binary(b)).await; }
                Some(Cmd::WsText(t)) => { let _ = ws.send(WsMsg::Text(t)).await; }
                Some(Cmd::WsCloseFrame) => { let _ = ws.send(WsMsg::Close(None)).await; }
            },
            m = ws.next(), if reading => match m {
                None => { reading = false; let _ = ev.send(Ev::Gone("ws stream ended".into())); }
                Some(Err(e)) => { reading = false; let _ = ev.send(Ev::Gone(format!("ws error: {e}"))); }
                Some(Ok(WsMsg::Binary(p))) => match oracle::valid_parse(&p, true) {
                    Some((h, ql, bl)) => { let _ = ev.send(Ev::Req(to_req(h, &p[48..48 + ql], &p[48 + ql..48 + ql + bl]))); }
                    None => { let _ = ev.send(Ev::Gone("corrupt ws request".into())); }
                },
                Some(Ok(WsMsg::Close(_))) => { let _ = ev.send(Ev::Gone("ws close frame from client".into())); }
                Some(Ok(_)) => {}
            }
        }
    }
}

/// A server-to-client (unmasked) WebSocket binary frame built by hand, for cutting inside it.
pub fn ws_binary_frame(payload: &[u8]) -> (Vec<u8>, usize) {
    let mut f = vec![0x82u8];
    let n = payload.len();
    if n < 126 {
        f.push(n as u8);
    } else if n < 65536 {
        f.push(126);
        f.push((n >> 8) as u8);
        f.push(n as u8);
    } else {
        f.push(127);
        for i in (0..8).rev() {
            f.push(((n as u64) >> (8 * i)) as u8);
        }
    }
    let hdr = f.len();
    f.extend_from_slice(payload);
    (f, hdr)
}
