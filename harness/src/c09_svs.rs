//! Shared SVS helpers for C09 / C10: the SVS wire bodies written from docs (BEVE structs of the
//! harness's own), a RAW SVS client speaking REPE through `oracle.rs` over TCP or over a
//! tokio-tungstenite WebSocket, a scripted FAKE SVS server (raw TCP), payload generators and
//! directory snapshots. Nothing here calls into `repe::value_stream`.

use crate::common::*;
use crate::oracle::{self, Frame, SpecHeader};
use serde::{Deserialize, Serialize};
use std::collections::BTreeMap;
use std::io::{Read, Write};
use std::net::{SocketAddr, TcpListener, TcpStream};
use std::path::Path;
use std::sync::atomic::{AtomicBool, AtomicU64, Ordering};
use std::sync::{Arc, Mutex};
use std::time::Duration;

pub const ROUTE_OPEN: &str = "/_svs/open";
pub const ROUTE_NEXT: &str = "/_svs/next";
pub const ROUTE_CANCEL: &str = "/_svs/cancel";
pub const FMT_RAW: u16 = 0;
pub const FMT_BEVE: u16 = 1;
pub const FMT_UTF8: u16 = 3;
pub const IO_TIMEOUT: Duration = Duration::from_secs(20);

#[derive(Serialize, Deserialize, Debug, Clone)]
pub struct OpenReq {
    pub resource: String,
}
#[derive(Serialize, Deserialize, Debug, Clone)]
pub struct OpenResp {
    pub version: u8,
    pub stream_id: u64,
    pub format: u16,
    pub compression: u8,
}
#[derive(Serialize, Deserialize, Debug, Clone)]
pub struct NextReq {
    pub stream_id: u64,
}
#[derive(Serialize, Deserialize, Debug, Clone)]
pub struct CancelReq {
    pub stream_id: u64,
    pub reason: String,
}
#[derive(Serialize, Deserialize, Debug, Clone)]
pub struct CancelAck {
    pub ok: bool,
}

// ------------------------------------------------------------------ frame io over a byte stream

pub fn read_frame<R: Read>(r: &mut R) -> Result<Frame, String> {
    let mut h = [0u8; oracle::HDR];
    r.read_exact(&mut h).map_err(|e| format!("read header: {e}"))?;
    let sh = SpecHeader::decode(&h);
    if !sh.consistent() {
        return Err(format!("inconsistent header from peer: {sh:?}"));
    }
    if sh.length > (256 << 20) {
        return Err(format!("peer frame of {} bytes", sh.length));
    }
    let mut rest = vec![0u8; (sh.length as usize) - oracle::HDR];
    r.read_exact(&mut rest).map_err(|e| format!("read payload: {e}"))?;
    let q = sh.query_length as usize;
    Ok(Frame { header: sh, query: rest[..q].to_vec(), body: rest[q..].to_vec(), at: 0 })
}

pub fn request_frame(id: u64, notify: bool, path: &str, body: &[u8]) -> Vec<u8> {
    let h = SpecHeader { spec: oracle::SPEC, version: 1, notify: notify as u8, id, query_format: 1, body_format: FMT_BEVE, ..Default::default() };
    oracle::frame(h, path.as_bytes(), body)
}

// ------------------------------------------------------------------ raw SVS client

/// Byte-level request/response transport for the raw client.
pub trait RawTransport {
    /// write one REPE frame without waiting for anything
    fn send(&mut self, frame: Vec<u8>) -> Result<(), String>;
    /// read the next REPE frame from the peer (bounded by `IO_TIMEOUT`)
    fn recv(&mut self) -> Result<Frame, String>;
    /// send one REPE frame; when `want_reply`, return the next frame from the peer
    fn exchange(&mut self, frame: Vec<u8>, want_reply: bool) -> Result<Option<Frame>, String> {
        self.send(frame)?;
        if !want_reply {
            return Ok(None);
        }
        self.recv().map(Some)
    }
}

pub struct TcpRaw {
    s: TcpStream,
}
impl TcpRaw {
    pub fn connect(addr: SocketAddr) -> Result<TcpRaw, String> {
        let s = TcpStream::connect_timeout(&addr, IO_TIMEOUT).map_err(|e| format!("connect: {e}"))?;
        s.set_nodelay(true).ok();
        s.set_read_timeout(Some(IO_TIMEOUT)).ok();
        s.set_write_timeout(Some(IO_TIMEOUT)).ok();
        Ok(TcpRaw { s })
    }
}
impl RawTransport for TcpRaw {
    fn send(&mut self, frame: Vec<u8>) -> Result<(), String> {
        self.s.write_all(&frame).map_err(|e| format!("write: {e}"))
    }
    fn recv(&mut self) -> Result<Frame, String> {
        read_frame(&mut self.s)
    }
}

type WsStream = tokio_tungstenite::WebSocketStream<tokio_tungstenite::MaybeTlsStream<tokio::net::TcpStream>>;
pub struct WsRaw {
    rt: Arc<tokio::runtime::Runtime>,
    ws: WsStream,
}
impl WsRaw {
    pub fn connect(rt: Arc<tokio::runtime::Runtime>, url: &str) -> Result<WsRaw, String> {
        let ws = rt
            .block_on(async { tokio::time::timeout(IO_TIMEOUT, tokio_tungstenite::connect_async(url)).await })
            .map_err(|_| "ws connect timeout".to_string())?
            .map_err(|e| format!("ws connect: {e}"))?
            .0;
        Ok(WsRaw { rt, ws })
    }
}
impl RawTransport for WsRaw {
    fn send(&mut self, frame: Vec<u8>) -> Result<(), String> {
        use futures_util::SinkExt;
        use tokio_tungstenite::tungstenite::Message as M;
        let ws = &mut self.ws;
        self.rt.block_on(async {
            tokio::time::timeout(IO_TIMEOUT, ws.send(M::Binary(frame))).await.map_err(|_| "ws send timeout".to_string())?.map_err(|e| format!("ws send: {e}"))
        })
    }
    fn recv(&mut self) -> Result<Frame, String> {
        use futures_util::StreamExt;
        use tokio_tungstenite::tungstenite::Message as M;
        let ws = &mut self.ws;
        self.rt.block_on(async {
            loop {
                let m = tokio::time::timeout(IO_TIMEOUT, ws.next()).await.map_err(|_| "ws read timeout".to_string())?;
                match m {
                    None => return Err("ws closed".into()),
                    Some(Err(e)) => return Err(format!("ws read: {e}")),
                    Some(Ok(M::Binary(b))) => {
                        let (h, ql, _bl) = oracle::valid_parse(&b, true).ok_or_else(|| format!("ws binary message is not one exact REPE frame ({} bytes)", b.len()))?;
                        return Ok(Frame { header: h, query: b[48..48 + ql].to_vec(), body: b[48 + ql..].to_vec(), at: 0 });
                    }
                    Some(Ok(M::Close(_))) => return Err("ws close frame".into()),
                    Some(Ok(_)) => continue,
                }
            }
        })
    }
}

/// Outcome of one raw `next`.
#[derive(Debug, Clone)]
pub enum NextOut {
    Chunk { bytes: Vec<u8>, last: bool, query: Vec<u8> },
    /// error response (ec != 0) with its utf-8 body
    ErrResp { ec: u32, msg: String },
}

pub struct RawSvs<T: RawTransport> {
    pub t: T,
    next_id: u64,
    pub frames_sent: u64,
    pub frames_received: u64,
}

impl<T: RawTransport> RawSvs<T> {
    pub fn new(t: T) -> Self {
        RawSvs { t, next_id: 1, frames_sent: 0, frames_received: 0 }
    }
    fn call(&mut self, path: &str, body: &[u8]) -> Result<Frame, String> {
        let id = self.next_id;
        self.next_id += 1;
        self.frames_sent += 1;
        let f = self.t.exchange(request_frame(id, false, path, body), true)?.ok_or("no reply")?;
        self.frames_received += 1;
        if f.header.id != id {
            return Err(format!("response id {} for request {id} on {path}", f.header.id));
        }
        Ok(f)
    }
    pub fn open(&mut self, resource: &str) -> Result<Result<OpenResp, (u32, String)>, String> {
        let body = beve::to_vec(&OpenReq { resource: resource.to_string() }).map_err(|e| e.to_string())?;
        let f = self.call(ROUTE_OPEN, &body)?;
        if f.header.ec != 0 {
            return Ok(Err((f.header.ec, String::from_utf8_lossy(&f.body).into_owned())));
        }
        let r: OpenResp = beve::from_slice(&f.body).map_err(|e| format!("open response body is not the documented BEVE object: {e}"))?;
        Ok(Ok(r))
    }
    pub fn next(&mut self, stream_id: u64) -> Result<NextOut, String> {
        let body = beve::to_vec(&NextReq { stream_id }).map_err(|e| e.to_string())?;
        let f = self.call(ROUTE_NEXT, &body)?;
        Ok(Self::next_out(f))
    }
    /// Interpret a response frame to a `next` request.
    pub fn next_out(f: Frame) -> NextOut {
        if f.header.ec != 0 {
            return NextOut::ErrResp { ec: f.header.ec, msg: String::from_utf8_lossy(&f.body).into_owned() };
        }
        let last = f.query.first().copied() == Some(1);
        NextOut::Chunk { bytes: f.body, last, query: f.query }
    }
    /// Write a `next` request without waiting for the response; returns the request id. The
    /// response is collected later with `recv_reply` (several requests may be in flight).
    pub fn send_next(&mut self, stream_id: u64) -> Result<u64, String> {
        let body = beve::to_vec(&NextReq { stream_id }).map_err(|e| e.to_string())?;
        let id = self.next_id;
        self.next_id += 1;
        self.frames_sent += 1;
        self.t.send(request_frame(id, false, ROUTE_NEXT, &body))?;
        Ok(id)
    }
    /// Read the next response frame (whatever request it answers).
    pub fn recv_reply(&mut self) -> Result<Frame, String> {
        let f = self.t.recv()?;
        self.frames_received += 1;
        Ok(f)
    }
    /// request-form cancel; returns the ack's error code
    pub fn cancel(&mut self, stream_id: u64, notify: bool) -> Result<u32, String> {
        let body = beve::to_vec(&CancelReq { stream_id, reason: "raw client cancel".into() }).map_err(|e| e.to_string())?;
        if notify {
            let id = self.next_id;
            self.next_id += 1;
            self.frames_sent += 1;
            self.t.exchange(request_frame(id, true, ROUTE_CANCEL, &body), false)?;
            return Ok(0);
        }
        let f = self.call(ROUTE_CANCEL, &body)?;
        Ok(f.header.ec)
    }
}

// ------------------------------------------------------------------ payloads

/// Deterministic bytes; `compressible` repeats a short seeded motif with sparse noise.
pub fn payload(seed: u64, n: usize, compressible: bool) -> Vec<u8> {
    let mut r = Rng::new(seed ^ 0x5EED_0C09);
    if !compressible {
        return r.bytes(n);
    }
    let ml = 1 + r.usize_below(23);
    let motif = r.bytes(ml);
    let mut v = Vec::with_capacity(n);
    while v.len() < n {
        let take = (n - v.len()).min(motif.len());
        v.extend_from_slice(&motif[..take]);
    }
    let flips = n / 97;
    for _ in 0..flips {
        let i = r.usize_below(n);
        v[i] = r.next_u64() as u8;
    }
    v
}

pub fn zstd_compress(data: &[u8]) -> Vec<u8> {
    let mut e = zstd::stream::write::Encoder::new(Vec::new(), 3).expect("zstd encoder");
    e.write_all(data).expect("zstd write");
    e.finish().expect("zstd finish")
}

/// Decompress as much as possible; returns (output, clean) where clean = the frame ended properly.
pub fn zstd_decompress_lossy(data: &[u8]) -> (Vec<u8>, bool) {
    let mut out = Vec::new();
    let mut d = match zstd::stream::read::Decoder::new(data) {
        Ok(d) => d,
        Err(_) => return (out, false),
    };
    let mut buf = [0u8; 8192];
    loop {
        match d.read(&mut buf) {
            Ok(0) => return (out, true),
            Ok(n) => out.extend_from_slice(&buf[..n]),
            Err(_) => return (out, false),
        }
    }
}

/// FNV-1a 64 digest as a `Write` (the documented trailer use case).
#[derive(Clone)]
pub struct Fnv(pub u64);
impl Fnv {
    pub fn new() -> Fnv {
        Fnv(0xcbf29ce484222325)
    }
    pub fn of(b: &[u8]) -> u64 {
        let mut f = Fnv::new();
        f.write_all(b).unwrap();
        f.0
    }
}
impl Write for Fnv {
    fn write(&mut self, b: &[u8]) -> std::io::Result<usize> {
        for x in b {
            self.0 ^= *x as u64;
            self.0 = self.0.wrapping_mul(0x100000001b3);
        }
        Ok(b.len())
    }
    fn flush(&mut self) -> std::io::Result<()> {
        Ok(())
    }
}

// ------------------------------------------------------------------ directory snapshots

pub type Snapshot = BTreeMap<String, Vec<u8>>;

pub fn snapshot(dir: &Path) -> Snapshot {
    let mut m = BTreeMap::new();
    if let Ok(rd) = std::fs::read_dir(dir) {
        for e in rd.flatten() {
            let name = e.file_name().to_string_lossy().into_owned();
            let content = std::fs::read(e.path()).unwrap_or_else(|e| format!("<unreadable: {e}>").into_bytes());
            m.insert(name, content);
        }
    }
    m
}

pub fn describe_snapshot(s: &Snapshot) -> String {
    let v: Vec<String> = s.iter().map(|(k, v)| format!("{k}[{}B #{:08x}]", v.len(), hash_of(v) as u32)).collect();
    format!("{{{}}}", v.join(", "))
}

static DIR_SEQ: AtomicU64 = AtomicU64::new(0);
pub fn fresh_dir(tag: &str) -> std::path::PathBuf {
    let d = std::env::temp_dir().join(format!("rv-{tag}-{}-{}", std::process::id(), DIR_SEQ.fetch_add(1, Ordering::Relaxed)));
    let _ = std::fs::remove_dir_all(&d);
    std::fs::create_dir_all(&d).expect("create scratch dir");
    d
}

// ------------------------------------------------------------------ scripted fake SVS server

/// What the fake server does for the i-th `next` of a stream.
#[derive(Clone, Debug, PartialEq, Eq, Hash)]
pub enum Step {
    Chunk { bytes: Vec<u8>, last: bool },
    /// error response instead of a chunk
    Error(String),
    /// close the connection without answering
    CutNoReply,
    /// send the header and half of the chunk response, then close
    CutMidFrame { bytes: Vec<u8>, last: bool },
}

#[derive(Clone, Debug)]
pub struct Script {
    pub version: u8,
    pub format: u16,
    pub compression: u8,
    /// answer `open` with an error
    pub open_error: Option<String>,
    /// close right after answering `open`
    pub cut_after_open: bool,
    pub steps: Vec<Step>,
    /// close the connection after this many `next` responses have been sent (None = never)
    pub cut_after_responses: Option<usize>,
    /// what to do when `next` is asked beyond the script: true = close, false = error response
    pub exhausted_closes: bool,
}

impl Script {
    pub fn clean(format: u16, compression: u8, chunks: Vec<Vec<u8>>) -> Script {
        let n = chunks.len();
        let steps = chunks.into_iter().enumerate().map(|(i, c)| Step::Chunk { bytes: c, last: i + 1 == n }).collect();
        Script { version: 1, format, compression, open_error: None, cut_after_open: false, steps, cut_after_responses: None, exhausted_closes: false }
    }
}

#[derive(Default, Debug, Clone)]
pub struct FakeStats {
    pub opens: u64,
    pub nexts: u64,
    pub cancels: u64,
    pub responses: u64,
    pub connections: u64,
}

pub struct FakeServer {
    pub addr: SocketAddr,
    stop: Arc<AtomicBool>,
    pub stats: Arc<Mutex<FakeStats>>,
    script: Arc<Mutex<Script>>,
}

impl FakeServer {
    /// Every accepted connection plays the script current at accept time from the start (one stream
    /// per connection is enough for the pullers; a second `open` restarts the script).
    pub fn start(script: Script) -> FakeServer {
        let l = TcpListener::bind("127.0.0.1:0").expect("bind fake server");
        let addr = l.local_addr().unwrap();
        let stop = Arc::new(AtomicBool::new(false));
        let stats = Arc::new(Mutex::new(FakeStats::default()));
        let script = Arc::new(Mutex::new(script));
        let (st, sp, sc) = (stats.clone(), stop.clone(), script.clone());
        std::thread::spawn(move || {
            for c in l.incoming() {
                if sp.load(Ordering::SeqCst) {
                    break;
                }
                let Ok(c) = c else { continue };
                let script = sc.lock().unwrap().clone();
                let st = st.clone();
                std::thread::spawn(move || fake_conn(c, script, st));
            }
        });
        FakeServer { addr, stop, stats, script }
    }
    /// Replace the script for connections accepted from now on and reset the counters. One listener
    /// serves many scenarios, which keeps the number of bound ports small.
    pub fn set_script(&self, script: Script) {
        *self.script.lock().unwrap() = script;
        *self.stats.lock().unwrap() = FakeStats::default();
    }
    pub fn stats(&self) -> FakeStats {
        self.stats.lock().unwrap().clone()
    }
}

impl Drop for FakeServer {
    fn drop(&mut self) {
        self.stop.store(true, Ordering::SeqCst);
        let _ = TcpStream::connect_timeout(&self.addr, Duration::from_millis(500));
    }
}

fn fake_conn(mut c: TcpStream, script: Script, stats: Arc<Mutex<FakeStats>>) {
    c.set_nodelay(true).ok();
    c.set_read_timeout(Some(Duration::from_secs(30))).ok();
    c.set_write_timeout(Some(IO_TIMEOUT)).ok();
    stats.lock().unwrap().connections += 1;
    let mut step = 0usize;
    let mut responses = 0usize;
    let reply = |c: &mut TcpStream, id: u64, ec: u32, qf: u16, q: &[u8], bf: u16, b: &[u8]| -> bool {
        let h = SpecHeader { spec: oracle::SPEC, version: 1, id, ec, query_format: qf, body_format: bf, ..Default::default() };
        c.write_all(&oracle::frame(h, q, b)).is_ok()
    };
    loop {
        let Ok(f) = read_frame(&mut c) else { return };
        let path = String::from_utf8_lossy(&f.query).into_owned();
        let id = f.header.id;
        match path.as_str() {
            ROUTE_OPEN => {
                stats.lock().unwrap().opens += 1;
                step = 0;
                if let Some(e) = &script.open_error {
                    if !reply(&mut c, id, 6, 1, b"", FMT_UTF8, e.as_bytes()) {
                        return;
                    }
                    continue;
                }
                let body = beve::to_vec(&OpenResp { version: script.version, stream_id: 77, format: script.format, compression: script.compression }).unwrap();
                if !reply(&mut c, id, 0, 1, b"", FMT_BEVE, &body) {
                    return;
                }
                if script.cut_after_open {
                    let _ = c.shutdown(std::net::Shutdown::Both);
                    return;
                }
            }
            ROUTE_NEXT => {
                stats.lock().unwrap().nexts += 1;
                if f.header.notify != 0 {
                    continue;
                }
                let s = script.steps.get(step).cloned();
                step += 1;
                match s {
                    None => {
                        if script.exhausted_closes {
                            let _ = c.shutdown(std::net::Shutdown::Both);
                            return;
                        }
                        if !reply(&mut c, id, 3, 1, b"", FMT_UTF8, b"svs next: unknown stream_id 77") {
                            return;
                        }
                    }
                    Some(Step::Chunk { bytes, last }) => {
                        if !reply(&mut c, id, 0, 0, &[last as u8], FMT_RAW, &bytes) {
                            return;
                        }
                    }
                    Some(Step::Error(m)) => {
                        if !reply(&mut c, id, 9, 1, b"", FMT_UTF8, m.as_bytes()) {
                            return;
                        }
                    }
                    Some(Step::CutNoReply) => {
                        let _ = c.shutdown(std::net::Shutdown::Both);
                        return;
                    }
                    Some(Step::CutMidFrame { bytes, last }) => {
                        let h = SpecHeader { spec: oracle::SPEC, version: 1, id, query_format: 0, body_format: FMT_RAW, ..Default::default() };
                        let fr = oracle::frame(h, &[last as u8], &bytes);
                        let cut = 48 + 1 + bytes.len() / 2;
                        let _ = c.write_all(&fr[..cut.min(fr.len() - 1)]);
                        let _ = c.shutdown(std::net::Shutdown::Both);
                        return;
                    }
                }
                responses += 1;
                stats.lock().unwrap().responses += 1;
                if script.cut_after_responses == Some(responses) {
                    let _ = c.shutdown(std::net::Shutdown::Both);
                    return;
                }
            }
            ROUTE_CANCEL => {
                stats.lock().unwrap().cancels += 1;
                if f.header.notify == 0 {
                    let body = beve::to_vec(&CancelAck { ok: true }).unwrap();
                    if !reply(&mut c, id, 0, 1, b"", FMT_BEVE, &body) {
                        return;
                    }
                }
            }
            _ => {
                if f.header.notify == 0 && !reply(&mut c, id, 6, 1, b"", FMT_UTF8, b"method not found") {
                    return;
                }
            }
        }
    }
}

/// Split `data` into chunks of `c` bytes (last one shorter); an empty input gives one empty chunk.
pub fn split_chunks(data: &[u8], c: usize) -> Vec<Vec<u8>> {
    if data.is_empty() {
        return vec![vec![]];
    }
    data.chunks(c.max(1)).map(|x| x.to_vec()).collect()
}
