//! C17 — no outbound WebSocket message exceeds the assumed peer frame limit.
//!
//! Workload: for every limit L ∈ {1 KiB, 4 KiB, 64 KiB, 1 MiB, 16 MiB (thorough), none} and every
//! outbound path — inline response, off-reader response, handler-pushed notify, registry broadcast,
//! proxy-forwarded response, client request, client notify — the real server / proxy / client is
//! asked to emit a message whose wire size (48 + query + body) is exactly S, for S = L−2..L+2 and
//! random S, by solving for the body length.
//!
//! Oracle: a raw tungstenite peer (client for the server paths, server for the client paths) that
//! speaks REPE through `oracle.rs` logs every binary message it receives:
//!  * no logged message is larger than L;
//!  * S ≤ L: the message arrives and is byte-identical to the frame the oracle codec builds;
//!  * S > L: a response is replaced by an ec 9 response with the SAME id (and ≤ L); a notify never
//!    arrives and an `OutboundTooLarge` report reaches `on_error`; a client request / notify fails
//!    locally with `RepeError::MessageTooLarge` and nothing reaches the wire;
//!  * after every case a small follow-up call on the same connection succeeds.
//!
//! Long-query sweep (limits 1 KiB, 4 KiB, 64 KiB × inline / off-reader / proxy-forwarded response):
//! the QUERY length is swept close to the limit (limit − 250 .. limit − 40 in fixed steps around the
//! size of a bare error reply, plus seeded ones) on registered long routes whose response is solved to
//! be at the limit, one byte over, or far over, and on UNKNOWN long routes whose MethodNotFound
//! reply is itself oversized. Same oracle; in particular the ec 9 replacement must itself fit the
//! limit (a reply that echoes nothing is ~180 bytes, and every limit used is ≥ 1 KiB).
//!
//! Queued-message family (`c17_burst.rs`, stage "queued", part of "main" and "server"): scripts that
//! put several messages into a connection's outbound queue before its writer task runs, with the
//! oversized one NOT at the head — a handler pushing notifies and answering, runs of k notifies,
//! back-to-back registry broadcasts to 1..3 peers, requests pipelined in one flush (inline, off-reader,
//! proxy) — with the server on a current-thread and on a multi-thread runtime and
//! `with_outbound_capacity` varied. Same oracle, plus queue order of the delivered messages.

use crate::common::*;
use crate::oracle::{self, SpecHeader};
use futures_util::{SinkExt, StreamExt};
use repe::server::{HandlerErased, Router};
use repe::websocket_server::proxy_connection_with_limits;
use repe::{
    AsyncClient, AsyncServer, BodyFormat, CallContext, ConnectionError, Execution, Message, NotifyBody, PeerRegistry, RepeError, WebSocketClient,
    WebSocketLimits, WebSocketServer, proxy_connection,
};
use serde_json::{Value, json};
use std::collections::{BTreeMap, HashSet};
use std::net::SocketAddr;
use std::sync::{Arc, Mutex};
use std::time::{Duration, Instant};
use tokio_tungstenite::tungstenite::Message as WsMsg;
use tokio_tungstenite::tungstenite::protocol::WebSocketConfig;

#[path = "c17_burst.rs"]
mod burst;

type Ws = tokio_tungstenite::WebSocketStream<tokio::net::TcpStream>;

const WINDOW: Duration = Duration::from_secs(20);
const MIB16: usize = 16 << 20;
const LONG_ROUTE: &str = "/blob/with/a/much/longer/route/name/0123456789";
const LONG_METHOD: &str = "/events/with/a/longer/method/name";
/// 109 bytes, non-ASCII: every byte offset from 9 on that is even falls inside a two-byte character (a report or a replacement
/// text that quotes a byte-limited prefix of the method must still be well-formed)
const NONASCII_METHOD: &str = "/mesures/éééééééééééééééééééééééééééééééééééééééééééééééééé";

#[derive(Clone, Copy, Debug, Hash, PartialEq, Eq, PartialOrd, Ord)]
enum Path {
    Inline,
    OffReader,
    Push,
    Broadcast,
    Proxy,
    ClientReq,
    ClientNotify,
}
const PATHS: [Path; 7] = [Path::Inline, Path::OffReader, Path::Push, Path::Broadcast, Path::Proxy, Path::ClientReq, Path::ClientNotify];
impl Path {
    fn name(self) -> &'static str {
        match self {
            Path::Inline => "inline-response",
            Path::OffReader => "off-reader-response",
            Path::Push => "handler-pushed-notify",
            Path::Broadcast => "registry-broadcast",
            Path::Proxy => "proxy-forwarded-response",
            Path::ClientReq => "client-request",
            Path::ClientNotify => "client-notify",
        }
    }
    fn variants(self) -> u32 {
        match self {
            Path::Inline => 3,
            Path::OffReader => 2,
            Path::Push => 32,
            Path::Broadcast => 8,
            Path::Proxy => 2,
            Path::ClientReq => 3,
            Path::ClientNotify => 3,
        }
    }
}

#[derive(Clone, Debug)]
struct CaseSpec {
    size: usize,
    variant: u32,
    boundary: bool,
    /// 0: the path's usual short route; otherwise the request goes to a route of exactly this many bytes
    q: usize,
    /// the long route is not registered (the reply is the router's MethodNotFound, `size` = 48 + q is a lower bound)
    unknown: bool,
}

#[derive(Clone, Debug)]
struct Group {
    path: Path,
    limit: Option<usize>,
    /// use the library defaults (no explicit limits object) — only meaningful for the 16 MiB limit
    defaults: bool,
    /// proxy path only: the INBOUND limits the proxy's own accept call was given (they say nothing about the peer):
    /// 0 the library defaults, 1 = 4 KiB, 2 = 64 KiB, 3 = none at all, 4 = 64 MiB
    accept: u8,
    cases: Vec<CaseSpec>,
    seed: u64,
}

/// Inbound thresholds of the proxy's accept call (`Group::accept`).
fn accept_limits(a: u8) -> WebSocketLimits {
    let d = WebSocketLimits::default();
    match a {
        1 => d.with_max_incoming_frame_size(Some(4 << 10)).with_max_incoming_message_size(Some(4 << 10)),
        2 => d.with_max_incoming_frame_size(Some(64 << 10)).with_max_incoming_message_size(Some(64 << 10)),
        3 => d.with_max_incoming_frame_size(None).with_max_incoming_message_size(None),
        4 => d.with_max_incoming_frame_size(Some(64 << 20)).with_max_incoming_message_size(Some(64 << 20)),
        _ => d,
    }
}

fn limit_name(l: Option<usize>) -> String {
    match l {
        None => "none".into(),
        Some(n) if n >= 1 << 20 => format!("{}MiB", n >> 20),
        Some(n) => format!("{}KiB", n >> 10),
    }
}

/// Deterministic payload bytes for a token. `alpha` keeps them JSON/UTF-8 clean.
fn pat(tok: u64, n: usize, alpha: bool) -> Vec<u8> {
    let mut v = Vec::with_capacity(n);
    let mut x = tok.wrapping_mul(0x9E37_79B9_7F4A_7C15) | 1;
    for i in 0..n {
        if i % 8 == 0 {
            x ^= x << 13;
            x ^= x >> 7;
            x ^= x << 17;
        }
        let b = (x >> ((i % 8) * 8)) as u8;
        v.push(if alpha { b'a' + b % 26 } else { b });
    }
    v
}
fn pat_str(tok: u64, n: usize) -> String {
    String::from_utf8(pat(tok, n, true)).unwrap()
}

/// Body (as the library will encode it) of logical kind `fmt` whose encoded length is exactly `b`.
/// fmt: 0 raw bytes, 1 JSON string, 2 UTF-8 text, 3 BEVE string. Returns (payload chars k, encoded body).
fn sized_body(tok: u64, fmt: u32, b: usize) -> Option<(usize, Vec<u8>)> {
    match fmt {
        0 => Some((b, pat(tok, b, false))),
        1 => {
            let k = b.checked_sub(2)?;
            let mut v = Vec::with_capacity(b);
            v.push(b'"');
            v.extend_from_slice(&pat(tok, k, true));
            v.push(b'"');
            Some((k, v))
        }
        2 => Some((b, pat(tok, b, true))),
        _ => {
            for over in 2..=9usize {
                let k = b.checked_sub(over)?;
                let enc = beve::to_vec(&pat_str(tok, k)).ok()?;
                if enc.len() == b {
                    return Some((k, enc));
                }
            }
            None
        }
    }
}

fn hdr(id: u64, notify: bool, body_format: u16, ec: u32) -> SpecHeader {
    SpecHeader { spec: oracle::SPEC, version: 1, notify: notify as u8, id, query_format: 1, body_format, ec, ..Default::default() }
}

// ------------------------------------------------------------------ plan

fn plan(args: &Args) -> Vec<Group> {
    let mut rng = Rng::new(args.seed ^ 0xC17);
    let mut limits: Vec<(Option<usize>, bool)> = vec![(Some(1 << 10), false), (Some(4 << 10), false), (Some(64 << 10), false), (Some(1 << 20), false), (None, false)];
    if args.thorough() {
        limits.push((Some(MIB16), false));
        limits.push((Some(MIB16), true));
    }
    let only: Option<Vec<Path>> = match args.stage.as_str() {
        "server" => Some(vec![Path::Inline, Path::OffReader, Path::Push, Path::Broadcast, Path::Proxy]),
        "client" => Some(vec![Path::ClientReq, Path::ClientNotify]),
        _ => None,
    };
    let mut groups = vec![];
    for (limit, defaults) in limits {
        for path in PATHS {
            if let Some(o) = &only {
                if !o.contains(&path) {
                    continue;
                }
            }
            let mut cases = vec![];
            let heavy = limit == Some(MIB16);
            let per_boundary = if heavy { 2 } else { args.budget(6, 32) as usize };
            let randoms = if heavy { args.budget(2, 8) as usize } else { args.budget(40, 400) as usize };
            let nv = path.variants();
            if let Some(l) = limit {
                for s in [l - 2, l - 1, l, l + 1, l + 2] {
                    let mut vs: Vec<u32> = (0..nv).collect();
                    rng.shuffle(&mut vs);
                    for v in vs.into_iter().take(per_boundary.max(1)) {
                        cases.push(CaseSpec { size: s, variant: v, boundary: true, q: 0, unknown: false });
                    }
                }
                for _ in 0..randoms {
                    let size = match rng.below(5) {
                        0 | 1 => (l as i64 + rng.range(0, 128) as i64 - 64) as usize,
                        2 => rng.range(160, l as u64) as usize,
                        3 => rng.range(l as u64 + 1, (2 * l as u64).min(l as u64 + (256 << 10))) as usize,
                        _ => rng.range(160, 700) as usize,
                    };
                    cases.push(CaseSpec { size: size.max(160), variant: rng.below(nv as u64) as u32, boundary: false, q: 0, unknown: false });
                }
            } else {
                for i in 0..(randoms * 2) {
                    let size = match i % 4 {
                        0 => rng.range(160, 2048),
                        1 => rng.range(2048, 128 << 10),
                        2 => rng.range(128 << 10, 2 << 20),
                        _ => 1 << rng.range(8, 21),
                    } as usize;
                    cases.push(CaseSpec { size, variant: rng.below(nv as u64) as u32, boundary: false, q: 0, unknown: false });
                }
                // larger than the library's own 16 MiB default frame size: with the guard switched off there is no limit at all,
                // so these are delivered unchanged (the raw peers accept any size)
                let big: &[usize] = if args.thorough() { &[MIB16, MIB16 + 1, MIB16 + 4097, 2 * MIB16 + 3] } else { &[MIB16 + 1, MIB16 + 4097] };
                for &size in big {
                    cases.push(CaseSpec { size, variant: rng.below(nv as u64) as u32, boundary: true, q: 0, unknown: false });
                }
            }
            rng.shuffle(&mut cases);
            groups.push(Group { path, limit, defaults, accept: 0, cases, seed: rng.next_u64() });
        }
    }
    // long-query sweep on the three response paths
    let mut rng = Rng::new(args.seed ^ 0xC17_10_96);
    for l in [1usize << 10, 4 << 10, 64 << 10] {
        for path in [Path::Inline, Path::OffReader, Path::Proxy] {
            if let Some(o) = &only {
                if !o.contains(&path) {
                    continue;
                }
            }
            // d = limit − query length: dense around 48 + (length of a bare error reply's text) and around 48
            let mut ds: Vec<usize> = vec![250, 220, 200, 190, 186, 184, 183, 182, 181, 180, 179, 178, 177, 176, 174, 170, 160, 140, 120, 100, 80, 60, 50, 49, 48, 47, 44, 40];
            for _ in 0..args.budget(6, 60) {
                ds.push(rng.range(40, 251) as usize);
            }
            let mut cases = vec![];
            for d in ds {
                let q = l - d;
                for variant in 0..2u32 {
                    // variant 0: JSON string body (at least the two quotes), variant 1: raw bytes (may be empty)
                    let min_size = 48 + q + if variant == 0 { 2 } else { 0 };
                    // one byte over the limit (or the smallest response there is), and far over it
                    cases.push(CaseSpec { size: (l + 1).max(min_size), variant, boundary: true, q, unknown: false });
                    cases.push(CaseSpec { size: l + rng.range(2, l as u64) as usize, variant, boundary: false, q, unknown: false });
                    // within the limit when the query leaves room for a body: exactly at the limit and a random one below
                    if min_size <= l {
                        cases.push(CaseSpec { size: l, variant, boundary: true, q, unknown: false });
                        cases.push(CaseSpec { size: rng.range(min_size as u64, l as u64 + 1) as usize, variant, boundary: false, q, unknown: false });
                    }
                }
                cases.push(CaseSpec { size: 48 + q, variant: 0, boundary: false, q, unknown: true });
            }
            rng.shuffle(&mut cases);
            groups.push(Group { path, limit: Some(l), defaults: false, accept: 0, cases, seed: rng.next_u64() });
        }
    }
    // the proxy's own INBOUND thresholds differ from what the peer is assumed to take: a proxy that accepted its downstream
    // socket with small / large / no inbound limits, then forwards through the limit-less `proxy_connection` (guard = the
    // library's 16 MiB default) or through `proxy_connection_with_limits` with an explicit assumption. What the proxy itself
    // is willing to RECEIVE must not move the guard either way.
    if only.as_ref().map(|o| o.contains(&Path::Proxy)).unwrap_or(true) {
        let mut rng = Rng::new(args.seed ^ 0xC17_ACC);
        for accept in 1..=4u8 {
            for (limit, defaults) in [(Some(MIB16), true), (Some(64usize << 10), false), (Some(1usize << 20), false)] {
                let l = limit.unwrap();
                let mut cases = vec![];
                let mut sizes: Vec<usize> = vec![];
                // around the proxy's own inbound thresholds and around the real limit
                for b in [4usize << 10, 64 << 10] {
                    sizes.extend([b - 1, b, b + 1, b + rng.range(2, 200) as usize]);
                }
                for _ in 0..args.budget(4, 24) {
                    sizes.push(rng.range(160, 700) as usize);
                    sizes.push(rng.range(3 << 10, 6 << 10) as usize);
                    sizes.push(rng.range(60 << 10, 70 << 10) as usize);
                    sizes.push(rng.range(70 << 10, 2 << 20) as usize);
                }
                if l < MIB16 {
                    sizes.extend([l - 1, l, l + 1, l + 2, l + rng.range(3, 4096) as usize]);
                } else if accept >= 3 || args.thorough() {
                    // above the library default only a proxy that itself receives such messages could be fooled
                    sizes.extend([l, l + 1, l + 4097]);
                }
                for size in sizes {
                    cases.push(CaseSpec { size, variant: rng.below(Path::Proxy.variants() as u64) as u32, boundary: size + 2 >= l && size <= l + 2, q: 0, unknown: false });
                }
                rng.shuffle(&mut cases);
                groups.push(Group { path: Path::Proxy, limit, defaults, accept, cases, seed: rng.next_u64() });
            }
        }
    }
    groups
}

/// A route of exactly `q` bytes: `prefix` + padding.
fn long_route(prefix: &str, q: usize) -> String {
    let mut r = String::with_capacity(q);
    r.push_str(prefix);
    while r.len() < q {
        r.push((b'a' + (r.len() % 26) as u8) as char);
    }
    r
}
const LONG_KINDS: [&str; 4] = ["/lblob/", "/lraw/", "/lbblob/", "/lbraw/"];
const LONG_UNKNOWN: &str = "/lnone/";

// ------------------------------------------------------------------ workload handlers

struct RawBlob {
    off_reader: bool,
}
impl HandlerErased for RawBlob {
    fn handle(&self, req: &Message) -> Result<Message, RepeError> {
        let v: Value = serde_json::from_slice(&req.body)?;
        let n = v["n"].as_u64().unwrap_or(0) as usize;
        let tok = v["tok"].as_u64().unwrap_or(0);
        Ok(Message::builder()
            .id(req.header.id)
            .query_format_code(req.header.query_format)
            .body_bytes(pat(tok, n, false))
            .body_format(BodyFormat::RawBinary)
            .build())
    }
    fn execution(&self) -> Execution {
        if self.off_reader { Execution::OffReader } else { Execution::Inline }
    }
}

fn blob(v: Value) -> Result<Value, (repe::ErrorCode, String)> {
    let n = v["n"].as_u64().unwrap_or(0) as usize;
    let tok = v["tok"].as_u64().unwrap_or(0);
    Ok(Value::String(pat_str(tok, n)))
}

fn push(ctx: &CallContext, v: Value) -> Result<Value, (repe::ErrorCode, String)> {
    let b = v["b"].as_u64().unwrap_or(0) as usize;
    let tok = v["tok"].as_u64().unwrap_or(0);
    let fmt = v["fmt"].as_u64().unwrap_or(0) as u32;
    let room = v["room"].as_bool().unwrap_or(false);
    let method = v["method"].as_str().unwrap_or("/evt").to_string();
    let Some((_, enc)) = sized_body(tok, if fmt == 3 { 2 } else { fmt }, b) else {
        return Ok(json!({ "sent": "unsizable" }));
    };
    // with `room` the body buffer has spare capacity for header + query, so `into_wire_bytes`
    // takes its in-place path; without it the fresh-allocation path
    let bytes = if room {
        let mut w = Vec::with_capacity(b + 48 + method.len() + 7);
        w.extend_from_slice(&enc);
        w
    } else {
        let mut e = enc;
        e.shrink_to_fit();
        e
    };
    let body = match fmt {
        0 => NotifyBody::Raw(bytes, BodyFormat::RawBinary),
        1 => NotifyBody::Json(bytes),
        2 => NotifyBody::Utf8(String::from_utf8(bytes).unwrap_or_default()),
        _ => NotifyBody::Beve(bytes),
    };
    let sent = match ctx.peer() {
        None => "nopeer".to_string(),
        Some(p) => match p.send_notify(&method, body) {
            Ok(()) => "ok".to_string(),
            Err(e) => format!("{e}"),
        },
    };
    Ok(json!({ "sent": sent, "tok": tok }))
}

fn router(g: &Group) -> Router {
    // long routes of every query length the group's cases use (long-query sweep)
    let mut qs: Vec<usize> = g.cases.iter().filter(|c| c.q > 0 && !c.unknown).map(|c| c.q).collect();
    qs.sort();
    qs.dedup();
    let mut r = Router::new();
    for q in qs {
        r = r
            .with_json(&long_route(LONG_KINDS[0], q), blob)
            .with_erased_handler(&long_route(LONG_KINDS[1], q), Arc::new(RawBlob { off_reader: false }))
            .with_json_blocking(&long_route(LONG_KINDS[2], q), blob)
            .with_erased_handler(&long_route(LONG_KINDS[3], q), Arc::new(RawBlob { off_reader: true }));
    }
    r.with_json("/ping", |v| Ok(json!({ "pong": v["tok"].clone() })))
        .with_json("/blob", blob)
        .with_json(LONG_ROUTE, blob)
        .with_json_blocking("/bblob", blob)
        .with_erased_handler("/raw", Arc::new(RawBlob { off_reader: false }))
        .with_erased_handler("/braw", Arc::new(RawBlob { off_reader: true }))
        .with_json_ctx("/push", push)
        .with_json_ctx_blocking("/bpush", push)
}

fn limits_for(l: Option<usize>) -> WebSocketLimits {
    WebSocketLimits::default().with_assumed_peer_frame_limit(l)
}

fn unlimited_cfg() -> WebSocketConfig {
    #[allow(deprecated)]
    WebSocketConfig { max_frame_size: None, max_message_size: None, ..WebSocketConfig::default() }
}

// ------------------------------------------------------------------ accounting

#[derive(Default)]
struct Acc {
    viols: Vec<(String, String, Value)>,
    inconcl: Vec<String>,
    counts: BTreeMap<String, u64>,
    max_seen: usize,
    distinct: Vec<(Path, Option<usize>, usize, u32, usize, bool)>,
    /// identities of the queued-message cases (c17_burst.rs)
    distinct_h: Vec<u64>,
    evals: u64,
    samples: Vec<Value>,
}
impl Acc {
    fn count(&mut self, k: &str, n: u64) {
        *self.counts.entry(k.to_string()).or_insert(0) += n;
    }
}

struct Ctx<'a> {
    g: &'a Group,
    hb: &'a Heartbeat,
    acc: Acc,
}
impl Ctx<'_> {
    fn replay(&self, c: &CaseSpec) -> Value {
        json!({"path": self.g.path.name(), "limit": self.g.limit, "library_defaults": self.g.defaults, "proxy_accept_inbound": self.g.accept, "size": c.size, "variant": c.variant, "query_len": c.q, "unknown_route": c.unknown, "group_seed": self.g.seed.to_string()})
    }
    fn viol(&mut self, c: &CaseSpec, sig: String, detail: String) {
        let lq = if c.q > 0 { format!(" query {} bytes ({:+} vs limit){}", c.q, self.g.limit.map(|l| c.q as i64 - l as i64).unwrap_or(0), if c.unknown { ", unknown route" } else { "" }) } else { String::new() };
        let acc = if self.g.accept != 0 { format!(", proxy accepted with inbound limits {}{}", ["default", "4KiB", "64KiB", "none", "64MiB"][self.g.accept.min(4) as usize], if self.g.defaults { " and forwards through the limit-less proxy_connection" } else { "" }) } else { String::new() };
        let d = format!("{detail} [path {} limit {} wire size {} ({:+} vs limit) variant {}{lq}{acc}]", self.g.path.name(), limit_name(self.g.limit), c.size, self.g.limit.map(|l| c.size as i64 - l as i64).unwrap_or(0), c.variant);
        let r = self.replay(c);
        self.acc.viols.push((sig, d, r));
    }
    fn progress_viol(&mut self, c: &CaseSpec, sig: String, detail: String) {
        let gap = self.hb.max_gap_ms();
        if gap > 1000 {
            self.acc.inconcl.push(format!("{sig} suppressed: heartbeat saw a {gap} ms stall ({detail})"));
        } else {
            self.viol(c, sig, detail);
        }
    }
    /// Size log: every binary message a raw peer receives goes through here.
    fn observe(&mut self, c: &CaseSpec, len: usize) {
        self.acc.count("binary_messages_observed_by_raw_peer", 1);
        self.acc.max_seen = self.acc.max_seen.max(len);
        if let Some(l) = self.g.limit {
            if len > l {
                self.viol(c, format!("C17:oversized-message-sent:{}", self.g.path.name()), format!("raw peer received a binary message of {len} bytes, {} over the assumed peer frame limit {l}", len - l));
            }
        }
    }
    fn over(&self, c: &CaseSpec) -> bool {
        self.g.limit.map(|l| c.size > l).unwrap_or(false)
    }
    fn at(&self, c: &CaseSpec) -> &'static str {
        match self.g.limit {
            Some(l) if c.size == l => "exactly-at-limit",
            _ => "below-limit",
        }
    }
}

// ------------------------------------------------------------------ raw client (server paths)

struct Rc {
    ws: Ws,
    next_id: u64,
}
enum Got {
    Frame(Vec<u8>),
    Timeout,
    Closed(String),
}
impl Rc {
    async fn connect(addr: SocketAddr) -> Result<Rc, String> {
        let stream = tokio::net::TcpStream::connect(addr).await.map_err(|e| e.to_string())?;
        let _ = stream.set_nodelay(true);
        let (ws, _) = tokio_tungstenite::client_async_with_config(format!("ws://{addr}/repe"), stream, Some(unlimited_cfg())).await.map_err(|e| e.to_string())?;
        Ok(Rc { ws, next_id: 1000 })
    }
    fn id(&mut self) -> u64 {
        self.next_id += 1;
        // the peer chooses its request ids: every fourth one sits at an edge of the range (exchanges are sequential, so the
        // same edge id coming round again is never in flight twice)
        const EDGE: [u64; 8] = [0, u64::MAX, 1, 1 << 63, u32::MAX as u64, 1 << 32, u64::MAX - 1, (1 << 63) - 1];
        if self.next_id % 4 == 0 {
            return EDGE[((self.next_id / 4) % 8) as usize];
        }
        0x00C1_7000_0000_0000 | (self.next_id << 4) | 5
    }
    async fn send(&mut self, f: Vec<u8>) -> Result<(), String> {
        self.ws.send(WsMsg::Binary(f)).await.map_err(|e| e.to_string())
    }
    async fn recv(&mut self, dl: Instant) -> Got {
        loop {
            let left = dl.saturating_duration_since(Instant::now());
            if left.is_zero() {
                return Got::Timeout;
            }
            match tokio::time::timeout(left, self.ws.next()).await {
                Err(_) => return Got::Timeout,
                Ok(None) => return Got::Closed("stream ended".into()),
                Ok(Some(Err(e))) => return Got::Closed(format!("transport error: {e}")),
                Ok(Some(Ok(WsMsg::Binary(b)))) => return Got::Frame(b),
                Ok(Some(Ok(WsMsg::Close(c)))) => return Got::Closed(format!("close frame {c:?}")),
                Ok(Some(Ok(_))) => continue,
            }
        }
    }
}

/// What came back while waiting for the reply to `id`.
struct Exchange {
    notifies: Vec<Vec<u8>>,
    reply: Option<Vec<u8>>,
    strays: Vec<Vec<u8>>,
    closed: Option<String>,
}

async fn exchange(rc: &mut Rc, cx: &mut Ctx<'_>, c: &CaseSpec, req: Vec<u8>, id: u64, stop_on_stray: bool) -> Exchange {
    let mut ex = Exchange { notifies: vec![], reply: None, strays: vec![], closed: None };
    if let Err(e) = rc.send(req).await {
        ex.closed = Some(format!("send failed: {e}"));
        return ex;
    }
    let dl = Instant::now() + WINDOW;
    loop {
        match rc.recv(dl).await {
            Got::Timeout => return ex,
            Got::Closed(w) => {
                ex.closed = Some(w);
                return ex;
            }
            Got::Frame(b) => {
                cx.observe(c, b.len());
                match oracle::valid_parse(&b, true) {
                    None => ex.strays.push(b),
                    Some((h, _, _)) => {
                        if h.notify != 0 {
                            ex.notifies.push(b);
                        } else if h.id == id {
                            ex.reply = Some(b);
                            return ex;
                        } else {
                            // one request is outstanding at a time, so a response-type frame with another
                            // id is the answer under a wrong id: stop waiting
                            ex.strays.push(b);
                            if stop_on_stray {
                                return ex;
                            }
                        }
                    }
                }
            }
        }
    }
}

/// Small follow-up call on the same raw connection. Returns the notifies that arrived before its
/// reply (the outbound channel is FIFO, so this is also the barrier for pushed notifies).
async fn follow_up(rc: &mut Rc, cx: &mut Ctx<'_>, c: &CaseSpec, after: &str) -> Option<Vec<Vec<u8>>> {
    let id = rc.id();
    let tok = id ^ 0x55;
    let req = oracle::frame(hdr(id, false, 2, 0), b"/ping", serde_json::to_vec(&json!({ "tok": tok })).unwrap().as_slice());
    let ex = exchange(rc, cx, c, req, id, false).await;
    let ok = ex.reply.as_ref().and_then(|b| {
        let (h, ql, _) = oracle::valid_parse(b, true)?;
        let v: Value = serde_json::from_slice(&b[oracle::HDR + ql..]).ok()?;
        (h.ec == 0 && v["pong"].as_u64() == Some(tok)).then_some(())
    });
    if ok.is_some() && ex.strays.is_empty() {
        cx.acc.count("follow_up_calls_ok", 1);
        return Some(ex.notifies);
    }
    let p = cx.g.path.name();
    if !ex.strays.is_empty() {
        let ec = oracle::valid_parse(&ex.strays[0], true).map(|x| x.0.ec);
        if after == "dropped-notify" {
            cx.viol(c, format!("C17:oversized-notify-replaced-by-frame:{p}"), format!("an oversized notify must be dropped, but the peer received a {}-byte frame with ec {ec:?}: {}", ex.strays[0].len(), hex_trunc(&ex.strays[0], 64)));
        } else {
            cx.viol(c, format!("C17:unexpected-frame:{p}"), format!("{} unexpected frames while waiting for the follow-up reply, first {}", ex.strays.len(), hex_trunc(&ex.strays[0], 64)));
        }
        if ok.is_some() {
            return Some(ex.notifies);
        }
    } else if let Some(w) = ex.closed {
        cx.viol(c, format!("C17:connection-unusable-after:{after}:{p}"), format!("follow-up call failed, connection ended: {w}"));
    } else if ex.reply.is_none() {
        cx.progress_viol(c, format!("C17:connection-unusable-after:{after}:{p}"), format!("follow-up call got no reply within {WINDOW:?}"));
    } else {
        cx.viol(c, format!("C17:connection-unusable-after:{after}:{p}"), format!("follow-up call answered wrongly: {}", hex_trunc(ex.reply.as_ref().unwrap(), 80)));
    }
    None
}

type Reports = Arc<Mutex<Vec<(String, usize, usize)>>>;

struct Srv {
    addr: SocketAddr,
    peers: PeerRegistry,
    reports: Reports,
    tasks: Vec<tokio::task::JoinHandle<()>>,
}
impl Drop for Srv {
    fn drop(&mut self) {
        for t in &self.tasks {
            t.abort();
        }
    }
}

async fn start_ws_server(g: &Group) -> Result<Srv, String> {
    let listener = tokio::net::TcpListener::bind("127.0.0.1:0").await.map_err(|e| e.to_string())?;
    let addr = listener.local_addr().map_err(|e| e.to_string())?;
    let peers = PeerRegistry::new();
    let reports: Reports = Arc::new(Mutex::new(vec![]));
    let r2 = reports.clone();
    let mut server = WebSocketServer::new(router(g)).with_peer_registry(peers.clone()).on_error(move |e| {
        if let ConnectionError::OutboundTooLarge { method, size, limit } = e {
            r2.lock().unwrap().push((method.clone(), *size, *limit));
        }
    });
    if !g.defaults {
        server = server.with_limits(limits_for(g.limit));
    }
    let t = tokio::spawn(async move {
        let _ = server.serve_listener(listener, "/repe").await;
    });
    Ok(Srv { addr, peers, reports, tasks: vec![t] })
}

/// TCP backend + WebSocket proxy in front of it.
async fn start_proxy(g: &Group) -> Result<Srv, String> {
    let backend = AsyncServer::listen("127.0.0.1:0").await.map_err(|e| e.to_string())?;
    let baddr = backend.local_addr().map_err(|e| e.to_string())?;
    let backend_router = router(g);
    let t1 = tokio::spawn(async move {
        let _ = AsyncServer::new(backend_router).serve(backend).await;
    });
    let listener = tokio::net::TcpListener::bind("127.0.0.1:0").await.map_err(|e| e.to_string())?;
    let addr = listener.local_addr().map_err(|e| e.to_string())?;
    let (limit, defaults, accept) = (g.limit, g.defaults, g.accept);
    let t2 = tokio::spawn(async move {
        loop {
            let Ok((stream, _)) = listener.accept().await else { break };
            tokio::spawn(async move {
                let Ok(upstream) = AsyncClient::connect(baddr).await else { return };
                let ws = if accept == 0 { WebSocketServer::accept(stream, "/repe").await } else { WebSocketServer::accept_with_limits(stream, "/repe", accept_limits(accept)).await };
                let Ok(ws) = ws else { return };
                let _ = if defaults { proxy_connection(ws, upstream).await } else { proxy_connection_with_limits(ws, upstream, limits_for(limit)).await };
            });
        }
    });
    Ok(Srv { addr, peers: PeerRegistry::new(), reports: Arc::new(Mutex::new(vec![])), tasks: vec![t1, t2] })
}

/// Check the refusal reports `on_error` received since the last case.
fn check_reports(cx: &mut Ctx<'_>, c: &CaseSpec, srv: &Srv, method: &str, is_notify: bool) {
    let reps: Vec<(String, usize, usize)> = std::mem::take(&mut *srv.reports.lock().unwrap());
    let p = cx.g.path.name();
    if cx.over(c) {
        if reps.is_empty() {
            if is_notify {
                cx.viol(c, format!("C17:oversized-notify-not-reported:{p}"), format!("the oversized notify {method} was dropped but no OutboundTooLarge reached on_error"));
            } else {
                cx.acc.count("refused_responses_without_on_error_report", 1);
            }
        } else {
            cx.acc.count("on_error_outbound_too_large_reports", reps.len() as u64);
            let exact = reps.len() == 1 && reps[0].0 == method && reps[0].1 == c.size && Some(reps[0].2) == cx.g.limit;
            if exact {
                cx.acc.count("on_error_reports_with_exact_method_size_limit", 1);
            } else {
                cx.acc.count("on_error_reports_with_other_numbers", 1);
                if cx.acc.samples.len() < 3 {
                    cx.acc.samples.push(json!({"odd_on_error_reports": format!("{reps:?}"), "expected": [method, c.size, cx.g.limit]}));
                }
            }
        }
    } else if !reps.is_empty() {
        cx.acc.count("on_error_reports_for_messages_within_limit", reps.len() as u64);
    }
}

/// Server-side paths: one case on an open raw connection. Returns false when the connection must be replaced.
async fn server_case(rc: &mut Rc, srv: &Srv, cx: &mut Ctx<'_>, c: &CaseSpec, tok: u64) -> bool {
    let path = cx.g.path;
    let p = path.name();
    let over = cx.over(c);
    match path {
        Path::Inline | Path::OffReader | Path::Proxy => {
            let (route, fmt): (&str, u32) = match (path, c.variant) {
                (Path::Inline, 0) => ("/blob", 1),
                (Path::Inline, 1) => ("/raw", 0),
                (Path::Inline, _) => (LONG_ROUTE, 1),
                (Path::OffReader, 0) => ("/bblob", 1),
                (Path::OffReader, _) => ("/braw", 0),
                (_, 0) => ("/blob", 1),
                (_, _) => ("/raw", 0),
            };
            // long-query sweep: the same four handlers registered under a route of exactly c.q bytes
            let long;
            let (route, fmt): (&str, u32) = if c.q > 0 {
                let kind = match (path, c.variant & 1) {
                    (Path::OffReader, 0) => 2,
                    (Path::OffReader, _) => 3,
                    (_, v) => v as usize,
                };
                long = long_route(if c.unknown { LONG_UNKNOWN } else { LONG_KINDS[kind] }, c.q);
                (long.as_str(), if c.variant & 1 == 0 { 1 } else { 0 })
            } else {
                (route, fmt)
            };
            if c.unknown {
                return unknown_route_case(rc, srv, cx, c, tok, route).await;
            }
            cx.acc.count(if c.q > 0 { "long_query_cases_registered_route" } else { "short_query_response_cases" }, 1);
            let Some(b) = c.size.checked_sub(48 + route.len()) else { return true };
            let Some((k, body)) = sized_body(tok, fmt, b) else { return true };
            let id = rc.id();
            let req = oracle::frame(hdr(id, false, 2, 0), route.as_bytes(), serde_json::to_vec(&json!({ "n": k, "tok": tok })).unwrap().as_slice());
            let ex = exchange(rc, cx, c, req, id, true).await;
            if let Some(f) = ex.notifies.first() {
                cx.viol(c, format!("C17:unexpected-frame:{p}"), format!("unexpected notify frame while waiting for the reply: {}", hex_trunc(f, 64)));
            }
            if let (None, Some(f)) = (&ex.reply, ex.strays.first()) {
                let sh = oracle::valid_parse(f, true).map(|x| x.0);
                let what = if over { "oversized-response-not-replaced" } else { "within-limit-response-lost" };
                cx.viol(
                    c,
                    format!("C17:{what}:{p}:wrong-id"),
                    format!("request id {id} was answered by a frame with id {:?} ec {:?} ({} bytes): {}", sh.map(|h| h.id), sh.map(|h| h.ec), f.len(), String::from_utf8_lossy(&f[48.min(f.len())..f.len().min(160)])),
                );
                return follow_up(rc, cx, c, "misaddressed-response").await.is_some();
            }
            let Some(reply) = ex.reply else {
                let what = if over { "oversized-response-not-replaced" } else { "within-limit-response-lost" };
                match ex.closed {
                    Some(w) => cx.viol(c, format!("C17:{what}:{p}:connection-closed"), format!("no reply to request id {id}; the connection ended: {w}")),
                    None => cx.progress_viol(c, format!("C17:{what}:{p}:no-reply"), format!("no reply to request id {id} within {WINDOW:?}")),
                }
                return false;
            };
            let (h, _, _) = oracle::valid_parse(&reply, true).unwrap();
            if over {
                if h.ec == 9 && h.id == id && cx.g.limit.map(|l| reply.len() <= l).unwrap_or(true) {
                    cx.acc.count("oversized_responses_replaced_by_ec9_same_id", 1);
                    if c.q > 0 {
                        cx.acc.count("long_query_oversized_responses_replaced_by_fitting_ec9", 1);
                    }
                } else if h.ec == 9 && h.id == id {
                    cx.viol(
                        c,
                        format!("C17:replacement-error-over-limit:{p}"),
                        format!(
                            "the oversized response was replaced by an ec 9 reply with the right id, but the replacement is itself {} bytes ({} over the limit): 48 header + {} query + {} body; body: {}",
                            reply.len(),
                            reply.len() - cx.g.limit.unwrap_or(0),
                            h.query_length,
                            h.body_length,
                            trunc(&String::from_utf8_lossy(&reply[(48 + h.query_length as usize).min(reply.len())..]), 140)
                        ),
                    );
                } else if reply.len() == c.size {
                    cx.viol(c, format!("C17:oversized-response-not-replaced:{p}:sent-as-is"), format!("the {}-byte response was sent unchanged (ec {})", reply.len(), h.ec));
                } else {
                    cx.viol(c, format!("C17:oversized-response-not-replaced:{p}:ec={}", h.ec), format!("reply is {} bytes, ec {}, id {} (request id {id}): {}", reply.len(), h.ec, h.id, hex_trunc(&reply, 96)));
                }
            } else {
                let want = oracle::frame(hdr(id, false, if fmt == 0 { 0 } else { 2 }, 0), route.as_bytes(), &body);
                if reply == want {
                    cx.acc.count("within_limit_messages_byte_identical", 1);
                    if Some(c.size) == cx.g.limit {
                        cx.acc.count("messages_exactly_at_limit_delivered", 1);
                    }
                } else if h.ec != 0 {
                    cx.viol(c, format!("C17:within-limit-message-refused:{p}:{}", cx.at(c)), format!("a {}-byte response was answered with ec {} instead: {}", c.size, h.ec, String::from_utf8_lossy(&reply[48.min(reply.len())..reply.len().min(200)])));
                } else {
                    let at = reply.iter().zip(want.iter()).position(|(a, b)| a != b).unwrap_or(reply.len().min(want.len()));
                    cx.viol(c, format!("C17:within-limit-message-altered:{p}"), format!("response differs from the oracle frame: got {} bytes, want {}, first difference at byte {at}; got header {}", reply.len(), want.len(), hex(&reply[..48.min(reply.len())])));
                }
            }
            let alive = follow_up(rc, cx, c, if over { "refused-response" } else { "delivered-response" }).await.is_some();
            if path != Path::Proxy {
                check_reports(cx, c, srv, route, false);
            }
            alive
        }
        Path::Push => {
            let v = c.variant;
            let route = if v & 1 == 0 { "/push" } else { "/bpush" };
            let fmt = (v >> 1) & 3;
            let room = (v >> 3) & 1 == 1;
            let method = if (v >> 4) & 1 == 0 { "/evt" } else if c.size % 2 == 0 { LONG_METHOD } else { NONASCII_METHOD };
            let b = c.size - 48 - method.len();
            let Some((_, body)) = sized_body(tok, if fmt == 3 { 2 } else { fmt }, b) else { return true };
            let bf: u16 = match fmt {
                0 => 0,
                1 => 2,
                2 => 3,
                _ => 1,
            };
            let id = rc.id();
            let req = oracle::frame(hdr(id, false, 2, 0), route.as_bytes(), serde_json::to_vec(&json!({ "b": b, "tok": tok, "fmt": fmt, "room": room, "method": method })).unwrap().as_slice());
            let ex = exchange(rc, cx, c, req, id, false).await;
            let sent_ok = ex.reply.as_ref().and_then(|r| {
                let (h, ql, _) = oracle::valid_parse(r, true)?;
                let v: Value = serde_json::from_slice(&r[oracle::HDR + ql..]).ok()?;
                (h.ec == 0 && v["sent"] == "ok").then_some(())
            });
            if sent_ok.is_none() {
                match (&ex.reply, &ex.closed) {
                    (Some(r), _) => cx.acc.inconcl.push(format!("push handler could not queue the notify: {}", String::from_utf8_lossy(&r[48.min(r.len())..r.len().min(160)]))),
                    (None, Some(w)) => cx.viol(c, format!("C17:connection-lost:{p}"), format!("connection ended while a {}-byte notify was pushed: {w}", c.size)),
                    (None, None) => cx.progress_viol(c, format!("C17:no-reply:{p}"), format!("push request got no reply within {WINDOW:?}")),
                }
                return false;
            }
            if let Some(f) = ex.strays.first() {
                let ec = oracle::valid_parse(f, true).map(|x| x.0.ec);
                if over {
                    cx.viol(c, format!("C17:oversized-notify-replaced-by-frame:{p}"), format!("an oversized notify must be dropped, but the peer received a {}-byte frame with ec {ec:?}: {}", f.len(), hex_trunc(f, 64)));
                } else {
                    cx.viol(c, format!("C17:unexpected-frame:{p}"), format!("unexpected frame before the push reply: {}", hex_trunc(f, 64)));
                }
            }
            let mut nots = ex.notifies;
            let alive = match follow_up(rc, cx, c, if over { "dropped-notify" } else { "delivered-notify" }).await {
                Some(more) => {
                    nots.extend(more);
                    true
                }
                None => false,
            };
            if judge_notify(cx, c, &nots, method, bf, &body) || !over {
                check_reports(cx, c, srv, method, true);
            } else {
                std::mem::take(&mut *srv.reports.lock().unwrap());
            }
            alive
        }
        Path::Broadcast => {
            let v = c.variant;
            let fmt = v & 3;
            let method = if (v >> 2) & 1 == 0 { "/evt" } else if c.size % 2 == 0 { LONG_METHOD } else { NONASCII_METHOD };
            let b = c.size - 48 - method.len();
            let Some((k, body)) = sized_body(tok, fmt, b) else { return true };
            if srv.peers.len() != 1 {
                cx.acc.inconcl.push(format!("registry holds {} peers, expected exactly the raw client", srv.peers.len()));
                return false;
            }
            let res = match fmt {
                0 => Ok(srv.peers.broadcast_notify_raw(method, BodyFormat::RawBinary, &body)),
                1 => srv.peers.broadcast_notify_json(method, &pat_str(tok, k)),
                2 => Ok(srv.peers.broadcast_notify_utf8(method, pat_str(tok, k))),
                _ => srv.peers.broadcast_notify_beve(method, &pat_str(tok, k)),
            };
            let bf: u16 = match fmt {
                0 => 0,
                1 => 2,
                2 => 3,
                _ => 1,
            };
            match res {
                Ok(m) if m.len() == 1 && m.values().all(|r| r.is_ok()) => {}
                other => {
                    cx.acc.inconcl.push(format!("broadcast did not queue for the one peer: {other:?}"));
                    return false;
                }
            }
            let alive;
            let nots = match follow_up(rc, cx, c, if over { "dropped-notify" } else { "delivered-notify" }).await {
                Some(n) => {
                    alive = true;
                    n
                }
                None => {
                    alive = false;
                    vec![]
                }
            };
            if alive {
                if judge_notify(cx, c, &nots, method, bf, &body) || !over {
                    check_reports(cx, c, srv, method, true);
                } else {
                    std::mem::take(&mut *srv.reports.lock().unwrap());
                }
            }
            alive
        }
        _ => true,
    }
}

/// Long-query sweep, UNKNOWN route of c.q bytes: the router's MethodNotFound reply echoes the query (and
/// names the path), so close to the limit it is itself oversized and must be replaced by a fitting ec 9
/// reply with the same id; when it fits it may arrive as it is (ec 6). Returns false when the
/// connection must be replaced.
async fn unknown_route_case(rc: &mut Rc, srv: &Srv, cx: &mut Ctx<'_>, c: &CaseSpec, tok: u64, route: &str) -> bool {
    let p = cx.g.path.name();
    let limit = cx.g.limit.unwrap_or(usize::MAX);
    cx.acc.count("long_query_cases_unknown_route", 1);
    let id = rc.id();
    let req = oracle::frame(hdr(id, false, 2, 0), route.as_bytes(), serde_json::to_vec(&json!({ "n": 0, "tok": tok })).unwrap().as_slice());
    let ex = exchange(rc, cx, c, req, id, true).await;
    if let Some(f) = ex.notifies.first() {
        cx.viol(c, format!("C17:unexpected-frame:{p}"), format!("unexpected notify frame while waiting for the reply: {}", hex_trunc(f, 64)));
    }
    if let (None, Some(f)) = (&ex.reply, ex.strays.first()) {
        let sh = oracle::valid_parse(f, true).map(|x| x.0);
        cx.viol(c, format!("C17:unknown-route-reply:{p}:wrong-id"), format!("request id {id} was answered by a frame with id {:?} ec {:?} ({} bytes)", sh.map(|h| h.id), sh.map(|h| h.ec), f.len()));
        return follow_up(rc, cx, c, "misaddressed-response").await.is_some();
    }
    let Some(reply) = ex.reply else {
        match ex.closed {
            Some(w) => cx.viol(c, format!("C17:unknown-route-reply:{p}:connection-closed"), format!("no reply to request id {id} for an unknown {}-byte route; the connection ended: {w}", c.q)),
            None => cx.progress_viol(c, format!("C17:unknown-route-reply:{p}:no-reply"), format!("no reply to request id {id} for an unknown {}-byte route within {WINDOW:?}", c.q)),
        }
        return false;
    };
    let (h, ql, _) = oracle::valid_parse(&reply, true).unwrap();
    let body = trunc(&String::from_utf8_lossy(&reply[(48 + ql).min(reply.len())..]), 140);
    if h.ec == 9 {
        if reply.len() <= limit {
            cx.acc.count("unknown_long_route_error_replies_replaced_by_fitting_ec9", 1);
        } else {
            cx.viol(
                c,
                format!("C17:replacement-error-over-limit:{p}"),
                format!("the oversized MethodNotFound reply for an unknown {}-byte route was replaced by an ec 9 reply, but the replacement is itself {} bytes ({} over the limit): 48 header + {ql} query + {} body; body: {body}", c.q, reply.len(), reply.len() - limit, h.body_length),
            );
        }
    } else if h.ec == 6 {
        if reply.len() <= limit {
            if &reply[48..48 + ql] == route.as_bytes() {
                cx.acc.count("unknown_long_route_error_replies_delivered_within_limit", 1);
            } else {
                cx.viol(c, format!("C17:within-limit-message-altered:{p}"), format!("the MethodNotFound reply does not echo the {}-byte query (it carries {ql} query bytes)", c.q));
            }
        } else {
            cx.viol(c, format!("C17:oversized-response-not-replaced:{p}:sent-as-is"), format!("the {}-byte MethodNotFound reply for an unknown {}-byte route was sent unchanged: {body}", reply.len(), c.q));
        }
    } else {
        cx.viol(c, format!("C17:unknown-route-reply:{p}:ec={}", h.ec), format!("reply to an unknown {}-byte route is {} bytes with ec {}: {body}", c.q, reply.len(), h.ec));
    }
    let alive = follow_up(rc, cx, c, "unknown-long-route").await.is_some();
    // the refusal report carries the library's own size of the reply it refused: not predictable here
    let n = std::mem::take(&mut *srv.reports.lock().unwrap()).len();
    cx.acc.count("on_error_outbound_too_large_reports", n as u64);
    alive
}

/// Returns true when the notify did not reach the peer.
fn judge_notify(cx: &mut Ctx<'_>, c: &CaseSpec, nots: &[Vec<u8>], method: &str, bf: u16, body: &[u8]) -> bool {
    let p = cx.g.path.name();
    if cx.over(c) {
        if nots.is_empty() {
            cx.acc.count("oversized_notifies_dropped", 1);
        } else if nots.iter().any(|n| n.len() == c.size) {
            cx.viol(c, format!("C17:oversized-notify-sent:{p}"), format!("the {}-byte notify {method} reached the peer", c.size));
        } else {
            cx.viol(c, format!("C17:oversized-notify-replaced-by-frame:{p}"), format!("an oversized notify must be dropped, but the peer received {}", hex_trunc(&nots[0], 96)));
        }
        return nots.is_empty();
    }
    let want = oracle::frame(hdr(0, true, bf, 0), method.as_bytes(), body);
    match nots {
        [] => cx.viol(c, format!("C17:within-limit-message-refused:{p}:{}", cx.at(c)), format!("the {}-byte notify {method} never arrived (FIFO barrier: the follow-up reply did)", c.size)),
        [one] if *one == want => {
            cx.acc.count("within_limit_messages_byte_identical", 1);
            if Some(c.size) == cx.g.limit {
                cx.acc.count("messages_exactly_at_limit_delivered", 1);
            }
        }
        [one] => {
            let at = one.iter().zip(want.iter()).position(|(a, b)| a != b).unwrap_or(one.len().min(want.len()));
            cx.viol(c, format!("C17:within-limit-message-altered:{p}"), format!("notify differs from the oracle frame: got {} bytes, want {}, first difference at byte {at}; got header {}", one.len(), want.len(), hex(&one[..48.min(one.len())])));
        }
        many => cx.viol(c, format!("C17:unexpected-frame:{p}"), format!("{} notify frames arrived for one push", many.len())),
    }
    nots.is_empty()
}

async fn run_server_group(g: &Group, hb: &Heartbeat) -> Acc {
    let mut cx = Ctx { g, hb, acc: Acc::default() };
    let srv = match if g.path == Path::Proxy { start_proxy(g).await } else { start_ws_server(g).await } {
        Ok(s) => s,
        Err(e) => {
            cx.acc.inconcl.push(format!("server setup: {e}"));
            return cx.acc;
        }
    };
    let mut rc: Option<Rc> = None;
    let mut reconnects = 0;
    let mut tokc = g.seed | 1;
    for c in &g.cases {
        if rc.is_none() {
            match Rc::connect(srv.addr).await {
                Ok(mut r) => {
                    // make sure the peer is registered before the first broadcast
                    let warm = CaseSpec { size: 0, variant: 0, boundary: false, q: 0, unknown: false };
                    if follow_up(&mut r, &mut cx, &warm, "connect").await.is_none() {
                        cx.acc.inconcl.push("fresh connection does not answer a ping".into());
                        break;
                    }
                    rc = Some(r);
                }
                Err(e) => {
                    cx.acc.inconcl.push(format!("raw client connect: {e}"));
                    break;
                }
            }
        }
        tokc = tokc.wrapping_mul(6364136223846793005).wrapping_add(1442695040888963407);
        let tok = tokc >> 12;
        cx.acc.evals += 1;
        if g.accept != 0 {
            cx.acc.count(if g.defaults { "proxy_cases_limitless_proxy_connection_nondefault_inbound_accept" } else { "proxy_cases_explicit_limits_nondefault_inbound_accept" }, 1);
        }
        cx.acc.distinct.push((g.path, g.limit, c.size, c.variant, c.q, c.unknown));
        let before = cx.acc.viols.len();
        let alive = server_case(rc.as_mut().unwrap(), &srv, &mut cx, c, tok).await;
        if cx.over(c) {
            cx.acc.count("cases_over_limit", 1);
        } else {
            cx.acc.count("cases_within_limit", 1);
        }
        if cx.acc.samples.len() < 1 && c.boundary && cx.acc.viols.len() == before {
            cx.acc.samples.push(json!({"path": g.path.name(), "limit": g.limit, "size": c.size, "variant": c.variant, "verdict": if cx.over(c) {"refused as specified"} else {"delivered byte-identical"}}));
        }
        if !alive {
            if let Some(mut r) = rc.take() {
                let _ = tokio::time::timeout(Duration::from_secs(1), r.ws.close(None)).await;
            }
            std::mem::take(&mut *srv.reports.lock().unwrap());
            reconnects += 1;
            if reconnects > 2 {
                break;
            }
            // wait for the registry to forget the old peer
            let dl = Instant::now() + Duration::from_secs(5);
            while srv.peers.len() > 0 && Instant::now() < dl {
                tokio::time::sleep(Duration::from_millis(5)).await;
            }
        }
    }
    if let Some(mut r) = rc.take() {
        let _ = tokio::time::timeout(Duration::from_secs(1), r.ws.close(None)).await;
    }
    cx.acc.count("reconnects_after_failures", reconnects);
    cx.acc
}

// ------------------------------------------------------------------ raw server (client paths)

type FrameLog = Arc<Mutex<Vec<Vec<u8>>>>;

async fn start_raw_server() -> Result<(SocketAddr, FrameLog, tokio::task::JoinHandle<()>), String> {
    let listener = tokio::net::TcpListener::bind("127.0.0.1:0").await.map_err(|e| e.to_string())?;
    let addr = listener.local_addr().map_err(|e| e.to_string())?;
    let log: FrameLog = Arc::new(Mutex::new(vec![]));
    let l2 = log.clone();
    let t = tokio::spawn(async move {
        loop {
            let Ok((stream, _)) = listener.accept().await else { break };
            let log = l2.clone();
            tokio::spawn(async move {
                let _ = stream.set_nodelay(true);
                let Ok(mut ws) = tokio_tungstenite::accept_async_with_config(stream, Some(unlimited_cfg())).await else { return };
                while let Some(Ok(m)) = ws.next().await {
                    if let WsMsg::Binary(b) = m {
                        let reply = oracle::valid_parse(&b, true).and_then(|(h, ql, _)| {
                            (h.notify == 0).then(|| oracle::frame(hdr(h.id, false, 2, 0), &b[oracle::HDR..oracle::HDR + ql], b"null"))
                        });
                        log.lock().unwrap().push(b);
                        if let Some(r) = reply {
                            if ws.send(WsMsg::Binary(r)).await.is_err() {
                                break;
                            }
                        }
                    }
                }
            });
        }
    });
    Ok((addr, log, t))
}

async fn run_client_group(g: &Group, hb: &Heartbeat) -> Acc {
    let mut cx = Ctx { g, hb, acc: Acc::default() };
    let (addr, log, task) = match start_raw_server().await {
        Ok(x) => x,
        Err(e) => {
            cx.acc.inconcl.push(format!("raw server: {e}"));
            return cx.acc;
        }
    };
    let url = format!("ws://{addr}/repe");
    let mut client: Option<WebSocketClient> = None;
    let mut reconnects = 0u64;
    let mut tokc = g.seed | 1;
    let p = g.path.name();
    let mut ids_seen: HashSet<u64> = HashSet::new();
    for c in &g.cases {
        if client.is_none() {
            let r = if g.defaults { WebSocketClient::connect(&url).await } else { WebSocketClient::connect_with_limits(&url, limits_for(g.limit)).await };
            match r {
                Ok(cl) => client = Some(cl),
                Err(e) => {
                    cx.acc.inconcl.push(format!("client connect: {e}"));
                    break;
                }
            }
            log.lock().unwrap().clear();
        }
        let cl = client.as_ref().unwrap().clone();
        tokc = tokc.wrapping_mul(6364136223846793005).wrapping_add(1442695040888963407);
        let tok = tokc >> 12;
        cx.acc.evals += 1;
        cx.acc.distinct.push((g.path, g.limit, c.size, c.variant, c.q, c.unknown));
        let over = cx.over(c);
        if over {
            cx.acc.count("cases_over_limit", 1);
        } else {
            cx.acc.count("cases_within_limit", 1);
        }
        let route = if tok & 1 == 0 { "/sink" } else { LONG_ROUTE };
        let b = c.size - 48 - route.len();
        // variant: 0 raw bytes via *_with_formats, 1 JSON string via call_json / notify_json, 2 BEVE string via *_typed_beve
        let fmt = match c.variant {
            0 => 0,
            1 => 1,
            _ => 3,
        };
        let Some((k, body)) = sized_body(tok, fmt, b) else { continue };
        let is_notify = g.path == Path::ClientNotify;
        let res: Result<(), RepeError> = match (is_notify, c.variant) {
            (false, 0) => cl.call_with_formats_and_timeout(route, 1, Some(&body), 0, WINDOW).await.map(|_| ()),
            (false, 1) => cl.call_json_with_timeout(route, &pat_str(tok, k), WINDOW).await.map(|_| ()),
            (false, _) => cl.call_typed_beve_with_timeout::<_, _, Value>(route, &pat_str(tok, k), WINDOW).await.map(|_| ()),
            (true, 0) => cl.notify_with_formats(route, 1, Some(&body), 0).await,
            (true, 1) => cl.notify_json(route, &pat_str(tok, k)).await,
            (true, _) => cl.notify_typed_beve(route, &pat_str(tok, k)).await,
        };
        let bf: u16 = match c.variant {
            0 => 0,
            1 => 2,
            _ => 1,
        };
        // follow-up small call on the same client: also the barrier for what reached the wire
        let fu = cl.call_json_with_timeout("/ping", &json!({ "tok": tok }), WINDOW).await;
        let frames: Vec<Vec<u8>> = std::mem::take(&mut *log.lock().unwrap());
        for f in &frames {
            cx.observe(c, f.len());
        }
        let mut usable = true;
        match &fu {
            Ok(_) => cx.acc.count("follow_up_calls_ok", 1),
            Err(e) => {
                usable = false;
                let after = if over { "refused-message" } else { "delivered-message" };
                if matches!(e, RepeError::Io(x) if x.kind() == std::io::ErrorKind::TimedOut) {
                    cx.progress_viol(c, format!("C17:connection-unusable-after:{after}:{p}"), format!("follow-up call failed: {e}"));
                } else {
                    cx.viol(c, format!("C17:connection-unusable-after:{after}:{p}"), format!("follow-up call failed: {e}"));
                }
            }
        }
        // what the raw server saw for this case, without the follow-up ping
        let mine: Vec<&Vec<u8>> = frames.iter().filter(|f| oracle::valid_parse(f, true).map(|(_, ql, _)| &f[oracle::HDR..oracle::HDR + ql] != b"/ping").unwrap_or(true)).collect();
        if over {
            match &res {
                Err(RepeError::MessageTooLarge { size, limit }) => {
                    cx.acc.count("oversized_client_messages_refused_locally", 1);
                    if *size == c.size && Some(*limit) == g.limit {
                        cx.acc.count("too_large_errors_with_exact_size_and_limit", 1);
                    } else {
                        cx.acc.count("too_large_errors_with_other_numbers", 1);
                    }
                }
                Ok(()) => cx.viol(c, format!("C17:oversized-client-message-not-refused:{p}"), "the call returned Ok".to_string()),
                Err(e) => cx.viol(c, format!("C17:oversized-client-message-wrong-error:{p}"), format!("expected MessageTooLarge, got: {e}")),
            }
            if !mine.is_empty() {
                cx.viol(c, format!("C17:refused-client-message-reached-wire:{p}"), format!("{} frames reached the peer, first is {} bytes", mine.len(), mine[0].len()));
            } else if usable {
                cx.acc.count("refused_client_messages_nothing_on_wire", 1);
            }
        } else {
            match &res {
                Ok(()) => {}
                Err(RepeError::MessageTooLarge { size, limit }) => {
                    cx.viol(c, format!("C17:within-limit-message-refused:{p}:{}", cx.at(c)), format!("refused locally with MessageTooLarge {{ size: {size}, limit: {limit} }}"));
                }
                Err(e) => {
                    usable = false;
                    cx.progress_viol(c, format!("C17:within-limit-client-message-failed:{p}"), format!("{e}"));
                }
            }
            if res.is_ok() {
                match mine.as_slice() {
                    [one] => {
                        let got = oracle::valid_parse(one, true);
                        let id = got.map(|g| g.0.id).unwrap_or(0);
                        let want = oracle::frame(hdr(id, is_notify, bf, 0), route.as_bytes(), &body);
                        if **one == want {
                            cx.acc.count("within_limit_messages_byte_identical", 1);
                            if Some(c.size) == g.limit {
                                cx.acc.count("messages_exactly_at_limit_delivered", 1);
                            }
                            if !ids_seen.insert(id) {
                                cx.acc.count("client_request_ids_reused", 1);
                            }
                        } else {
                            let at = one.iter().zip(want.iter()).position(|(a, b)| a != b).unwrap_or(one.len().min(want.len()));
                            cx.viol(c, format!("C17:within-limit-message-altered:{p}"), format!("frame at the peer differs from the oracle frame: got {} bytes, want {}, first difference at byte {at}; got header {}", one.len(), want.len(), hex(&one[..48.min(one.len())])));
                        }
                    }
                    [] => cx.viol(c, format!("C17:within-limit-message-refused:{p}:{}", cx.at(c)), "the call returned Ok but nothing reached the peer before the follow-up call".to_string()),
                    many => cx.viol(c, format!("C17:unexpected-frame:{p}"), format!("{} frames reached the peer for one call", many.len())),
                }
            }
        }
        if cx.acc.samples.is_empty() && c.boundary {
            cx.acc.samples.push(json!({"path": p, "limit": g.limit, "size": c.size, "variant": c.variant, "result": format!("{res:?}").chars().take(120).collect::<String>(), "frames_at_peer": mine.len()}));
        }
        if !usable {
            client = None;
            reconnects += 1;
            if reconnects > 2 {
                break;
            }
        }
    }
    cx.acc.count("reconnects_after_failures", reconnects);
    drop(client);
    task.abort();
    if let Some(l) = g.limit.filter(|l| *l >= 64 << 10) {
        refusal_behind_stalled_send(&mut cx, l).await;
    }
    cx.acc
}

/// An oversized client message must fail LOCALLY, also while another task's deliverable send is parked on a peer that stopped
/// reading: the refusal needs nothing from the connection. K tasks send in-limit notifies (≈ 24 MiB in all) to a peer with an
/// 8 KiB receive buffer that does not read; once that stall is seen to be in effect an oversized request / notify is issued and
/// must come back with `MessageTooLarge` within a bound that is long on the heartbeat's clock; then the peer reads everything
/// and every message it got is within the limit.
async fn refusal_behind_stalled_send(cx: &mut Ctx<'_>, l: usize) {
    let g = cx.g;
    let p = g.path.name();
    let c = CaseSpec { size: l + 1 + (g.seed % 4096) as usize, variant: 0, boundary: false, q: 0, unknown: false };
    let mk = || -> std::io::Result<tokio::net::TcpListener> {
        let s = tokio::net::TcpSocket::new_v4()?;
        let _ = s.set_recv_buffer_size(8 * 1024);
        s.bind("127.0.0.1:0".parse().unwrap())?;
        s.listen(8)
    };
    let Ok(listener) = mk() else {
        cx.acc.inconcl.push("stalled-send part: listener".into());
        return;
    };
    let Ok(addr) = listener.local_addr() else { return };
    let resume = Arc::new(tokio::sync::Notify::new());
    let r2 = resume.clone();
    let sizes: Arc<Mutex<Vec<usize>>> = Arc::new(Mutex::new(vec![]));
    let s2 = sizes.clone();
    let peer = tokio::spawn(async move {
        let Ok((stream, _)) = listener.accept().await else { return };
        let Ok(mut ws) = tokio_tungstenite::accept_async_with_config(stream, Some(unlimited_cfg())).await else { return };
        r2.notified().await;
        while let Some(Ok(m)) = ws.next().await {
            if let WsMsg::Binary(b) = m {
                s2.lock().unwrap().push(b.len());
            }
        }
    });
    let url = format!("ws://{addr}/repe");
    let cl = match if g.defaults { WebSocketClient::connect(&url).await } else { WebSocketClient::connect_with_limits(&url, limits_for(g.limit)).await } {
        Ok(c) => c,
        Err(e) => {
            cx.acc.inconcl.push(format!("stalled-send part: client connect: {e}"));
            peer.abort();
            return;
        }
    };
    let per = l.min(1 << 20);
    let k = ((24usize << 20) / per).clamp(2, 400);
    let body = vec![0x5au8; per - 48 - 5];
    let done = Arc::new(std::sync::atomic::AtomicUsize::new(0));
    let mut sends = vec![];
    for _ in 0..k {
        let (cl, body, done) = (cl.clone(), body.clone(), done.clone());
        sends.push(tokio::spawn(async move {
            let r = cl.notify_with_formats("/sink", 1, Some(&body), 0).await;
            done.fetch_add(1, std::sync::atomic::Ordering::SeqCst);
            r.is_ok()
        }));
    }
    tokio::time::sleep(Duration::from_millis(300)).await;
    let finished = done.load(std::sync::atomic::Ordering::SeqCst);
    if finished >= k {
        // the kernel absorbed everything: no stall to speak of on this run
        cx.acc.count("stalled_send_parts_where_the_peer_buffers_absorbed_everything", 1);
    } else {
        cx.acc.count("stalled_send_parts_with_sends_parked_on_a_non_reading_peer", 1);
        let body = vec![0x5au8; c.size - 48 - 5];
        cx.hb.reset();
        let t0 = Instant::now();
        let is_notify = g.path == Path::ClientNotify;
        let res = tokio::time::timeout(Duration::from_secs(5), async {
            if is_notify { cl.notify_with_formats("/sink", 1, Some(&body), 0).await } else { cl.call_with_formats_and_timeout("/sink", 1, Some(&body), 0, WINDOW).await.map(|_| ()) }
        })
        .await;
        let still_stalled = done.load(std::sync::atomic::Ordering::SeqCst) < k;
        match res {
            Ok(Err(RepeError::MessageTooLarge { .. })) => {
                cx.acc.count("oversized_client_messages_refused_locally_behind_a_stalled_send", 1);
                cx.acc.count("refusal_behind_stalled_send_ms_total", t0.elapsed().as_millis() as u64);
            }
            Ok(Ok(())) => cx.viol(&c, format!("C17:oversized-client-message-not-refused:{p}"), "the call returned Ok behind a stalled send".to_string()),
            Ok(Err(e)) => cx.viol(&c, format!("C17:oversized-client-message-wrong-error:{p}"), format!("behind a stalled send: expected MessageTooLarge, got: {e}")),
            Err(_) if still_stalled => cx.progress_viol(
                &c,
                format!("C17:oversized-client-message-refusal-waits-for-the-peer:{p}"),
                format!("{k} deliverable notifies of {per} bytes are parked on a peer that stopped reading ({finished} had completed); the oversized message was not refused locally within 5 s"),
            ),
            Err(_) => cx.acc.inconcl.push("stalled-send part: refusal slow but the stall had ended".into()),
        }
    }
    resume.notify_one();
    let mut ok = 0usize;
    for h in sends {
        match tokio::time::timeout(Duration::from_secs(30), h).await {
            Ok(Ok(true)) => ok += 1,
            Ok(_) => {}
            Err(_) => {
                cx.acc.inconcl.push("stalled-send part: parked sends did not complete within 30 s after the peer resumed".into());
                break;
            }
        }
    }
    drop(cl);
    let _ = tokio::time::timeout(Duration::from_secs(10), peer).await;
    let seen = std::mem::take(&mut *sizes.lock().unwrap());
    cx.acc.count("stalled_send_part_messages_sent_ok", ok as u64);
    for n in seen {
        cx.observe(&c, n);
    }
}

// ------------------------------------------------------------------ stage

pub fn run(args: &Args) -> Report {
    let mut rep = Report::new(
        args,
        "c17-outbound-limit",
        "for each assumed peer frame limit × outbound path × wire size (limit−2..limit+2 and random, hit exactly by solving \
         48+query+body): a raw tungstenite peer logs every binary message; none exceeds the limit; ≤ limit ⇒ byte-identical to \
         the oracle frame; > limit ⇒ response replaced by ec 9 with the same id / notify dropped and reported to on_error / \
         client call fails with MessageTooLarge and nothing is sent; a follow-up call works after every case. \
         Queued-message scripts (several messages enqueued before the writer task runs, the oversized one not at the head: \
         handler notifies + response, notify runs, back-to-back broadcasts, requests pipelined in one flush; server on a \
         current-thread / multi-thread runtime, outbound capacity varied): same oracle and delivered messages keep queue order. \
         distinct = (path, limit, wire size, variant) / (script kind, limit, runtime, capacity, script)",
    );
    let rt = match tokio::runtime::Builder::new_multi_thread().worker_threads(8).enable_all().build() {
        Ok(r) => r,
        Err(e) => {
            rep.inconclusive(format!("tokio runtime: {e}"));
            return rep;
        }
    };
    let mut bursts: Vec<burst::BGroup> = vec![];
    let groups = match &args.replay {
        None => {
            if args.stage != "client" {
                bursts = burst::plan(args);
            }
            if args.stage == "queued" { vec![] } else { plan(args) }
        }
        Some(p) => {
            // replay one witness: the "replay" object of a violation
            let v: Option<Value> = std::fs::read_to_string(p).ok().and_then(|s| serde_json::from_str(&s).ok());
            if let Some(b) = v.as_ref().filter(|v| v["burst"] == true).and_then(burst::from_replay) {
                bursts.push(b);
            }
            let g = v.filter(|_| bursts.is_empty()).and_then(|v| {
                Some(Group {
                    path: *PATHS.iter().find(|x| Some(x.name()) == v["path"].as_str())?,
                    limit: v["limit"].as_u64().map(|x| x as usize),
                    defaults: v["library_defaults"].as_bool().unwrap_or(false),
                    accept: v["proxy_accept_inbound"].as_u64().unwrap_or(0) as u8,
                    cases: vec![CaseSpec {
                        size: v["size"].as_u64()? as usize,
                        variant: v["variant"].as_u64()? as u32,
                        boundary: true,
                        q: v["query_len"].as_u64().unwrap_or(0) as usize,
                        unknown: v["unknown_route"].as_bool().unwrap_or(false),
                    }],
                    seed: v["group_seed"].as_str().and_then(|x| x.parse().ok()).unwrap_or(1),
                })
            });
            match g {
                Some(g) => vec![g],
                None if !bursts.is_empty() => vec![],
                None => {
                    rep.inconclusive(format!("cannot read replay case {p}"));
                    return rep;
                }
            }
        }
    };
    // the servers of the multi-thread queued-message groups live on their own runtime
    let srv_rt = match tokio::runtime::Builder::new_multi_thread().worker_threads(4).thread_name("c17-mt-server").enable_all().build() {
        Ok(r) => r,
        Err(e) => {
            rep.inconclusive(format!("tokio server runtime: {e}"));
            return rep;
        }
    };
    let hb = Arc::new(Heartbeat::start());
    quiet_panics(true);
    let heavy = Arc::new(tokio::sync::Semaphore::new(2));
    let light = Arc::new(tokio::sync::Semaphore::new(14));
    let thorough = args.thorough();
    // (path name, group label, result)
    let accs: Vec<(String, String, Option<Acc>)> = rt.block_on(async {
        let mut set = tokio::task::JoinSet::new();
        for g in groups {
            let (hb, heavy, light) = (hb.clone(), heavy.clone(), light.clone());
            set.spawn(async move {
                let sem = if g.limit == Some(MIB16) { heavy } else { light };
                let _p = sem.acquire_owned().await;
                let budget = Duration::from_secs(if g.limit == Some(MIB16) { 420 } else { 240 });
                let fut = async {
                    match g.path {
                        Path::ClientReq | Path::ClientNotify => run_client_group(&g, &hb).await,
                        _ => run_server_group(&g, &hb).await,
                    }
                };
                let acc = tokio::time::timeout(budget, fut).await.ok();
                (g.path.name().to_string(), format!("{} / limit {}", g.path.name(), limit_name(g.limit)), acc)
            });
        }
        for g in bursts {
            let (hb, light, mt) = (hb.clone(), light.clone(), srv_rt.handle().clone());
            set.spawn(async move {
                let _p = light.acquire_owned().await;
                let acc = tokio::time::timeout(Duration::from_secs(240), burst::run_group(&g, &hb, &mt, thorough)).await.ok();
                (g.kind.name().to_string(), g.label(), acc)
            });
        }
        let mut out = vec![];
        while let Some(r) = set.join_next().await {
            if let Ok(x) = r {
                out.push(x);
            }
        }
        out
    });
    quiet_panics(false);
    rt.shutdown_timeout(Duration::from_secs(3));
    srv_rt.shutdown_timeout(Duration::from_secs(3));

    let mut per_path: BTreeMap<String, u64> = BTreeMap::new();
    let mut max_by_limit: BTreeMap<String, usize> = BTreeMap::new();
    let mut counts: BTreeMap<String, u64> = BTreeMap::new();
    for (path, label, acc) in accs {
        let Some(acc) = acc else {
            rep.inconclusive(format!("group {label} exceeded its wall budget"));
            continue;
        };
        rep.evaluations += acc.evals;
        for d in &acc.distinct {
            rep.distinct(d);
        }
        for d in &acc.distinct_h {
            rep.distinct(&("queued", d));
        }
        *per_path.entry(path).or_insert(0) += acc.evals;
        let lim = label.split("limit ").nth(1).and_then(|x| x.split(' ').next()).unwrap_or("?").to_string();
        let e = max_by_limit.entry(lim).or_insert(0);
        *e = (*e).max(acc.max_seen);
        for (k, v) in acc.counts {
            *counts.entry(k).or_insert(0) += v;
        }
        for (sig, d, r) in acc.viols {
            rep.violation(sig, d, r);
        }
        for i in acc.inconcl {
            rep.inconclusive(format!("{i} [{label}]"));
        }
        for s in acc.samples {
            rep.sample(s);
        }
    }
    for (k, v) in &counts {
        rep.set(k, json!(v));
    }
    rep.set("cases_per_path", json!(per_path));
    rep.set("largest_message_observed_by_limit", json!(max_by_limit));
    rep.set("heartbeat_max_gap_ms", json!(hb.max_gap_ms()));
    let need: &[&str] = if args.stage == "queued" {
        &["within_limit_messages_byte_identical", "oversized_messages_queued_not_at_head", "queued_behind_oversized_notifies_dropped", "queued_behind_oversized_responses_replaced_by_ec9"]
    } else if args.stage == "client" {
        &["within_limit_messages_byte_identical", "cases_over_limit", "messages_exactly_at_limit_delivered"]
    } else {
        &["within_limit_messages_byte_identical", "cases_over_limit", "messages_exactly_at_limit_delivered", "oversized_messages_queued_not_at_head"]
    };
    if args.replay.is_none() && rep.violations.is_empty() && need.iter().any(|k| counts.get(*k).copied().unwrap_or(0) == 0) {
        rep.inconclusive("too few events: no delivered, at-limit or over-limit case was observed");
    }
    rep
}
