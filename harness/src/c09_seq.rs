// C09 — same-thread histories (textually included into `mod imp` of c09.rs), stage pullers.
//
// The grid and the other families judge every pull on its own. Here the unit is a HISTORY: one OS
// thread (a fresh one per history, so a witness is self-contained) performs a long sequence of pulls
// over a handful of producers (every producer kind, both compression settings, one connection per
// producer and client kind), and the earlier pulls of the sequence END IN EVERY WAY A CONSUMER CAN
// END: read to the end; stop after a prefix and return Ok (before the first byte, after one byte,
// inside a chunk, on a chunk boundary, one byte before the end, after exactly the last byte without
// ever asking for the end of the stream); run a self-delimiting decoder over the reader (it stops at
// the end of its value); return an error of its own after a prefix; a digest that refuses to take
// more bytes; a verify callback that refuses the trailer; a producer that fails mid-stream; a cancel
// sent by another connection in the middle of the pull; (async) the reader dropped early. All
// blocking entry points that take a consumer or decode are used — pull_consume, pull_to_vec,
// pull_value, pull_typed_slice / pull_complex_slice, pull_to_file, pull_to_beve_file,
// pull_to_beve_zst_file, pull_to_file_trailer_verified, pull_stream with the Value and RawFile
// outputs — and, in the same history, their async forms over AsyncClient (or, in WebSocket
// histories, over WebSocketClient), whose blocking decoders run on the runtime's reused blocking
// threads. After every irregular ending the same thread makes ordinary complete pulls, compressed
// AND uncompressed, compressible and incompressible payloads, small and multi-chunk (also beyond one
// zstd block).
// Oracle: every pull is judged on its own, byte for byte, against what ITS producer emitted — Ok of a
// complete pull carries exactly the producer's logical bytes, a consumer that stopped early saw
// exactly the prefix, a healthy stream never fails, a failing producer never yields Ok. Nothing of
// an earlier transfer (per thread, per connection, per client) may show in a later one.

mod seq {
    use super::sidecar;
    use super::slow::Cl;
    use super::*;
    use repe::value_stream::{StreamOutput, pull_stream, pull_to_beve_file, pull_to_beve_zst_file, pull_to_file_trailer_verified, pull_to_file_trailer_verified_async};

    const TRAILER: usize = 8;

    /// Where a consumer that stops early stops (logical bytes).
    #[derive(Clone, Copy, Debug, PartialEq, Eq, Hash)]
    enum At {
        Zero,
        One,
        InsideChunk,
        ChunkBoundary,
        OneBeforeEnd,
        Random,
    }
    const ATS: [At; 6] = [At::Zero, At::One, At::InsideChunk, At::ChunkBoundary, At::OneBeforeEnd, At::Random];

    /// What the consumer handed to pull_consume* does.
    #[derive(Clone, Copy, Debug, PartialEq, Eq, Hash)]
    enum Stop {
        ToEnd,
        /// read a prefix, return Ok
        Prefix(At),
        /// read exactly the stream's logical length, never ask for the end
        ExactLen,
        /// read a prefix, return an error of its own
        PrefixThenErr(At),
        /// a BEVE value decoder over the reader: stops at the end of its value
        SelfDelimiting,
        /// read a prefix; another connection cancels the stream (request form, acknowledged); read on to the end
        ForeignCancel(At),
    }

    #[derive(Clone, Copy, Debug, PartialEq, Eq, Hash)]
    enum TrailerEnd {
        VerifyOk,
        VerifyErr,
        DigestErr,
    }

    #[derive(Clone, Copy, Debug, PartialEq, Eq, Hash)]
    enum Entry {
        Consume(Stop),
        ToVec,
        Decode,
        StreamValue,
        ToFile,
        StreamRawFile,
        BeveFile,
        BeveZst,
        Trailer(TrailerEnd),
    }

    /// How a pull of the history ended, from the consumer's point of view.
    #[derive(Clone, Copy, Debug, PartialEq, Eq, Hash)]
    enum EndClass {
        Complete,
        ValueDecode,
        EarlyOkStop,
        ConsumerError,
        VerifyRefused,
        ProducerFailure,
        Cancel,
    }
    impl EndClass {
        fn tag(&self) -> &'static str {
            match self {
                EndClass::Complete => "complete-pull",
                EndClass::ValueDecode => "value-decode",
                EndClass::EarlyOkStop => "early-ok-stop",
                EndClass::ConsumerError => "consumer-error",
                EndClass::VerifyRefused => "verify-refused",
                EndClass::ProducerFailure => "producer-failure",
                EndClass::Cancel => "cancel",
            }
        }
        fn regular(&self) -> bool {
            matches!(self, EndClass::Complete | EndClass::ValueDecode)
        }
    }

    #[derive(Clone, Debug)]
    pub struct Plan {
        tr: Tr,
        chunk: usize,
        depth: usize,
        steps: usize,
        seed: u64,
    }
    impl Plan {
        fn json(&self) -> Value {
            json!({"family": "same-thread", "transport": format!("{:?}", self.tr), "chunk_bytes": self.chunk, "session_depth": self.depth, "history_seed": self.seed, "pulls_planned": self.steps})
        }
    }

    #[derive(Clone, Debug)]
    struct Step {
        target: usize,
        cl: Cl,
        entry: Entry,
        spec: Spec,
    }

    /// The producers of one history: (kind, zstd).
    fn targets(plan: &Plan) -> Vec<(Kind, bool)> {
        let mut r = Rng::new(plan.seed ^ 0x7A26);
        let e = ELEMS[r.usize_below(5)];
        let c = if r.coin() { Elem::F32 } else { Elem::F64 };
        vec![
            (Kind::Reader, true),
            (Kind::Reader, false),
            (Kind::Writer, true),
            (Kind::Writer, false),
            (Kind::Value, true),
            (Kind::Value, false),
            (Kind::Typed(e), true),
            (Kind::Complex(c), r.coin()),
        ]
    }

    fn class_of(step: &Step) -> EndClass {
        if step.spec.fail.is_some() {
            return EndClass::ProducerFailure;
        }
        match step.entry {
            Entry::Consume(Stop::Prefix(_)) | Entry::Consume(Stop::ExactLen) => EndClass::EarlyOkStop,
            Entry::Consume(Stop::PrefixThenErr(_)) | Entry::Trailer(TrailerEnd::DigestErr) => EndClass::ConsumerError,
            Entry::Consume(Stop::ForeignCancel(_)) => EndClass::Cancel,
            Entry::Trailer(TrailerEnd::VerifyErr) => EndClass::VerifyRefused,
            Entry::Consume(Stop::SelfDelimiting) | Entry::Decode | Entry::StreamValue => EndClass::ValueDecode,
            _ => EndClass::Complete,
        }
    }

    fn puller_name(entry: Entry, kind: Kind, is_async: bool) -> &'static str {
        match (entry, is_async) {
            (Entry::Consume(_), a) => Pk::Consume.name(kind, a),
            (Entry::ToVec, a) => Pk::ToVec.name(kind, a),
            (Entry::Decode, a) => Pk::Decode.name(kind, a),
            (Entry::ToFile, a) => Pk::ToFile.name(kind, a),
            (Entry::StreamValue, _) => "pull_stream-Value",
            (Entry::StreamRawFile, _) => "pull_stream-RawFile",
            (Entry::BeveFile, _) => "pull_to_beve_file",
            (Entry::BeveZst, _) => "pull_to_beve_zst_file",
            (Entry::Trailer(_), false) => "pull_to_file_trailer_verified",
            (Entry::Trailer(_), true) => "pull_to_file_trailer_verified_async",
        }
    }

    // ------------------------------------------------------------------ generating a history

    /// A payload for `kind`: the size parameter for about `bytes` logical bytes.
    fn spec_of(kind: Kind, bytes: usize, rng: &mut Rng) -> Spec {
        let unit = match kind {
            Kind::Typed(e) => elem_size(e),
            Kind::Complex(Elem::F64) => 16,
            Kind::Complex(_) => 8,
            _ => 1,
        };
        Spec { p: bytes / unit, seed: rng.below(1 << 40), compressible: matches!(kind, Kind::Reader | Kind::Writer) && rng.coin(), fail: None, panic: false, delay: rng.chance(1, 5), vt: rng.below(2) as u8 }
    }

    fn size(plan: &Plan, rng: &mut Rng, multi: Option<bool>) -> usize {
        let c = plan.chunk;
        let cap = 420_000usize;
        let multi = multi.unwrap_or_else(|| rng.coin());
        if !multi {
            return match rng.below(6) {
                0 => 0,
                1 => 1 + rng.usize_below(40),
                2 => c.saturating_sub(1).min(cap),
                3 => c.min(cap),
                4 => (c + 1).min(cap),
                _ => rng.usize_below(c.min(cap) + 1),
            };
        }
        match rng.below(4) {
            0 => (3 * c + rng.usize_below(c)).min(cap),
            1 => (20 * c + rng.usize_below(c)).min(cap),
            // beyond one zstd block (128 KiB): a consumer that stops early leaves whole blocks unread
            2 if c >= 4096 => 140_000 + rng.usize_below(cap - 140_000),
            2 => (60 * c + rng.usize_below(c)).min(cap),
            _ => (5 * c + rng.usize_below(8 * c)).min(cap),
        }
    }

    fn complete_entry(plan: &Plan, kind: Kind, zstd: bool, cl: Cl, rng: &mut Rng) -> Entry {
        let mut v = vec![Entry::Consume(Stop::ToEnd), Entry::ToVec, Entry::ToVec, Entry::ToFile, Entry::Trailer(TrailerEnd::VerifyOk)];
        if kind.beve() {
            v.push(Entry::Decode);
        }
        if cl == Cl::Sync {
            v.push(Entry::StreamRawFile);
            if zstd {
                v.push(Entry::BeveZst);
                if kind.beve() {
                    v.push(Entry::BeveFile);
                }
            }
            if kind == Kind::Value {
                v.push(Entry::StreamValue);
            }
        }
        if kind == Kind::Value {
            v.push(Entry::Consume(Stop::SelfDelimiting));
        }
        let _ = plan;
        *rng.pick(&v)
    }

    fn who(plan: &Plan, rng: &mut Rng) -> Cl {
        match plan.tr {
            Tr::Ws => Cl::Ws,
            Tr::Tcp => {
                if rng.chance(3, 10) {
                    Cl::Async
                } else {
                    Cl::Sync
                }
            }
        }
    }

    fn history(plan: &Plan) -> Vec<Step> {
        let tg = targets(plan);
        let mut rng = Rng::new(plan.seed ^ 0x5E9_0C09);
        let mut v: Vec<Step> = vec![];
        let pick_target = |rng: &mut Rng, zstd: Option<bool>| -> usize {
            loop {
                let i = rng.usize_below(tg.len());
                if zstd.map(|z| tg[i].1 == z).unwrap_or(true) {
                    return i;
                }
            }
        };
        while v.len() < plan.steps {
            if rng.chance(2, 5) {
                // an ordinary complete pull
                let t = pick_target(&mut rng, None);
                let cl = who(plan, &mut rng);
                let bytes = size(plan, &mut rng, None);
                let spec = spec_of(tg[t].0, bytes, &mut rng);
                v.push(Step { target: t, cl, entry: complete_entry(plan, tg[t].0, tg[t].1, cl, &mut rng), spec });
                continue;
            }
            // a pull that ends irregularly (three in four on a compressed stream) ...
            let want_z = rng.chance(3, 4);
            let t = pick_target(&mut rng, Some(want_z));
            let (kind, zstd) = tg[t];
            let cl = who(plan, &mut rng);
            let at = *rng.pick(&ATS);
            let multi = rng.chance(3, 4);
            let bytes = size(plan, &mut rng, Some(multi));
            let mut spec = spec_of(kind, bytes, &mut rng);
            let can_fail = matches!(kind, Kind::Reader | Kind::Writer | Kind::Value);
            let entry = match rng.below(if can_fail { 12 } else { 10 }) {
                0..=3 => Entry::Consume(Stop::Prefix(at)),
                4 => Entry::Consume(Stop::ExactLen),
                5 | 6 => Entry::Consume(Stop::PrefixThenErr(at)),
                7 => Entry::Trailer(if rng.coin() { TrailerEnd::VerifyErr } else { TrailerEnd::DigestErr }),
                8 if cl == Cl::Sync => Entry::Consume(Stop::ForeignCancel(at)),
                8 => Entry::Consume(Stop::Prefix(at)),
                9 if kind == Kind::Value => Entry::Consume(Stop::SelfDelimiting),
                9 => Entry::Consume(Stop::Prefix(At::Random)),
                _ => {
                    // the producer fails after k logical bytes; the consumer wanted everything
                    let len = logical_bytes(kind, &spec).len();
                    let k = rng.usize_below(len + 1);
                    spec.fail = Some(k);
                    spec.vt = 0;
                    spec.panic = kind == Kind::Writer && rng.chance(1, 4);
                    if kind == Kind::Value {
                        spec.p = k.min(spec.p);
                        spec.fail = Some(spec.p);
                    }
                    complete_entry(plan, kind, zstd, cl, &mut rng)
                }
            };
            let entry = if matches!(entry, Entry::Consume(Stop::SelfDelimiting) | Entry::StreamValue | Entry::Decode) && spec.fail.is_some() && kind != Kind::Value { Entry::ToVec } else { entry };
            v.push(Step { target: t, cl, entry, spec });
            // ... followed on the same thread by ordinary complete pulls: one compressed, one not (either order),
            // the first of them often from the very producer and connection of the irregular one
            let first_z = rng.coin();
            for (i, z) in [first_z, !first_z].into_iter().enumerate() {
                let t2 = if i == 0 && tg[t].1 == z && rng.chance(2, 3) { t } else { pick_target(&mut rng, Some(z)) };
                let cl2 = if i == 0 && rng.chance(2, 3) { cl } else { who(plan, &mut rng) };
                let bytes2 = size(plan, &mut rng, None);
                let spec2 = spec_of(tg[t2].0, bytes2, &mut rng);
                v.push(Step { target: t2, cl: cl2, entry: complete_entry(plan, tg[t2].0, tg[t2].1, cl2, &mut rng), spec: spec2 });
            }
        }
        v
    }

    fn stop_at(at: At, len: usize, chunk: usize, rng: &mut Rng) -> usize {
        match at {
            At::Zero => 0,
            At::One => 1.min(len),
            At::InsideChunk => {
                let base = if len > chunk { chunk * rng.usize_below(len / chunk) } else { 0 };
                (base + 1 + rng.usize_below(chunk.max(2) - 1)).min(len)
            }
            At::ChunkBoundary => {
                if len >= chunk {
                    chunk * (1 + rng.usize_below(len / chunk))
                } else {
                    len
                }
            }
            At::OneBeforeEnd => len.saturating_sub(1),
            At::Random => rng.usize_below(len + 1),
        }
    }

    // ------------------------------------------------------------------ the consumers

    fn own_error(what: &str) -> RepeError {
        RepeError::Io(io::Error::other(format!("harness consumer: {what}")))
    }

    /// Read up to `k` bytes with seeded read sizes; fewer only when the reader reports its end.
    fn read_upto(reader: &mut dyn Read, k: usize, rng: &mut Rng) -> io::Result<Vec<u8>> {
        let mut out = vec![0u8; k];
        let mut got = 0;
        while got < k {
            let step = if rng.coin() { k - got } else { 1 + rng.usize_below(k - got) };
            let n = reader.read(&mut out[got..got + step])?;
            if n == 0 {
                break;
            }
            got += n;
        }
        out.truncate(got);
        Ok(out)
    }

    fn decode_value(reader: &mut dyn Read, vt: u8) -> Result<Vec<u8>, RepeError> {
        if vt == 0 {
            let v: String = beve::from_reader_streaming(reader).map_err(RepeError::from)?;
            Ok(beve::to_vec(&v).expect("beve"))
        } else {
            let v: Doc = beve::from_reader_streaming(reader).map_err(RepeError::from)?;
            Ok(beve::to_vec(&v).expect("beve"))
        }
    }

    /// The consumer closure's body. `seen` receives what a consumer that ends with its own error had read.
    #[allow(clippy::too_many_arguments)]
    fn consume(reader: &mut dyn Read, stop: Stop, k: usize, vt: u8, seed: u64, chunk: usize, seen: &Mutex<Option<Vec<u8>>>, cancel: &mut dyn FnMut() -> Result<(), String>) -> Result<Vec<u8>, RepeError> {
        let mut rng = Rng::new(seed ^ 0xC0_5E9);
        match stop {
            Stop::ToEnd => slow_drain(reader, seed, chunk),
            Stop::Prefix(_) | Stop::ExactLen => Ok(read_upto(reader, k, &mut rng)?),
            Stop::PrefixThenErr(_) => {
                let got = read_upto(reader, k, &mut rng)?;
                *seen.lock().unwrap_or_else(|e| e.into_inner()) = Some(got);
                Err(own_error("gives up after a prefix"))
            }
            Stop::SelfDelimiting => decode_value(reader, vt),
            Stop::ForeignCancel(_) => {
                let mut got = read_upto(reader, k, &mut rng)?;
                cancel().map_err(|e| own_error(&format!("harness: {e}")))?;
                reader.read_to_end(&mut got)?;
                Ok(got)
            }
        }
    }

    /// A digest that refuses to take more than `limit` bytes.
    struct Dg {
        seen: Vec<u8>,
        limit: Option<usize>,
    }
    impl Write for Dg {
        fn write(&mut self, b: &[u8]) -> io::Result<usize> {
            if let Some(l) = self.limit {
                if self.seen.len() + b.len() > l {
                    return Err(io::Error::other("harness digest: gives up"));
                }
            }
            self.seen.extend_from_slice(b);
            Ok(b.len())
        }
        fn flush(&mut self) -> io::Result<()> {
            Ok(())
        }
    }

    struct Out {
        got: Result<Vec<u8>, String>,
        /// what a consumer that ended with its own error had read / what the digest had been fed when verify was called
        seen: Option<Vec<u8>>,
        extra: Option<(&'static str, String)>,
    }
    fn plain(got: Result<Vec<u8>, String>) -> Out {
        Out { got, seen: None, extra: None }
    }
    fn read_back(dest: &std::path::Path) -> Result<Vec<u8>, String> {
        let r = std::fs::read(dest).map_err(|e| format!("harness: the published file cannot be read: {e}"));
        let _ = std::fs::remove_file(dest);
        r
    }
    fn after_trailer(r: Result<(), String>, dest: &std::path::Path, seen: Option<Vec<u8>>, trailer: Vec<u8>) -> Out {
        match r {
            Err(e) => {
                let _ = std::fs::remove_file(dest);
                Out { got: Err(e), seen, extra: None }
            }
            Ok(()) => match read_back(dest) {
                Err(e) => plain(Err(e)),
                Ok(f) => {
                    let extra = match &seen {
                        Some(d) if *d != f => Some(("digest-saw-other-bytes", format!("the digest had been fed {} bytes, the committed file has {}; first difference at {}", d.len(), f.len(), first_diff(d, &f)))),
                        _ => None,
                    };
                    let mut all = f;
                    all.extend_from_slice(&trailer);
                    Out { got: Ok(all), seen, extra }
                }
            },
        }
    }

    #[allow(clippy::too_many_arguments)]
    fn run_sync(step: &Step, kind: Kind, client: &Client, res: &str, k: usize, len: usize, dest: &std::path::Path, chunk: usize, cancel: &mut dyn FnMut() -> Result<(), String>) -> Out {
        let et = |e: RepeError| err_text(&e);
        let vt = if step.spec.fail.is_some() { 0 } else { step.spec.vt };
        match step.entry {
            Entry::Consume(stop) => {
                let seen = Mutex::new(None);
                let got = pull_consume(client, res, |r| consume(r, stop, k, vt, step.spec.seed, chunk, &seen, cancel)).map_err(et);
                Out { got, seen: seen.into_inner().unwrap_or_else(|e| e.into_inner()), extra: None }
            }
            Entry::ToVec => plain(pull_to_vec(client, res).map_err(et)),
            Entry::Decode => plain(slow::pull_bytes_sync(Pk::Decode, kind, res, client, dest, step.spec.seed, chunk)),
            Entry::StreamValue => plain(if vt == 0 {
                pull_stream::<String>(client, res, StreamOutput::Value).map_err(et).and_then(|v| v.map(|v| beve::to_vec(&v).expect("beve")).ok_or_else(|| "harness: StreamOutput::Value returned None".to_string()))
            } else {
                pull_stream::<Doc>(client, res, StreamOutput::Value).map_err(et).and_then(|v| v.map(|v| beve::to_vec(&v).expect("beve")).ok_or_else(|| "harness: StreamOutput::Value returned None".to_string()))
            }),
            Entry::ToFile => plain(pull_to_file(client, res, dest).map_err(et).and_then(|_| read_back(dest))),
            Entry::StreamRawFile => plain(pull_stream::<()>(client, res, StreamOutput::RawFile(dest)).map_err(et).and_then(|_| read_back(dest))),
            Entry::BeveFile => plain(pull_to_beve_file(client, res, dest).map_err(et).and_then(|_| read_back(dest))),
            Entry::BeveZst => match pull_to_beve_zst_file(client, res, dest).map_err(et).and_then(|_| read_back(dest)) {
                Err(e) => plain(Err(e)),
                Ok(f) => {
                    let (logical, clean) = svs::zstd_decompress_lossy(&f);
                    if clean {
                        plain(Ok(logical))
                    } else {
                        Out { got: Ok(f.clone()), seen: None, extra: Some(("committed-file-not-zstd", format!("the committed .zst file ({} bytes, starting {}) is not one complete zstd frame ({} bytes decompress)", f.len(), hex_trunc(&f, 8), logical.len()))) }
                    }
                }
            },
            Entry::Trailer(te) => {
                let (mut seen, mut trailer) = (None, vec![]);
                let d = Dg { seen: vec![], limit: if te == TrailerEnd::DigestErr { Some(k.min(len.saturating_sub(TRAILER + 1))) } else { None } };
                let r = pull_to_file_trailer_verified(client, res, dest, TRAILER, d, |d: Dg, t: &[u8]| {
                    seen = Some(d.seen);
                    trailer = t.to_vec();
                    if te == TrailerEnd::VerifyErr { Err(own_error("verify refuses the trailer")) } else { Ok(()) }
                });
                after_trailer(r.map_err(et), dest, seen, trailer)
            }
        }
    }

    #[allow(clippy::too_many_arguments)]
    async fn run_async<C: repe::value_stream::AsyncSvsClient>(step: &Step, kind: Kind, client: &C, res: &str, k: usize, len: usize, dest: &std::path::Path, chunk: usize) -> Out {
        let et = |e: RepeError| err_text(&e);
        let vt = if step.spec.fail.is_some() { 0 } else { step.spec.vt };
        match step.entry {
            Entry::Consume(stop) => {
                let seen = Arc::new(Mutex::new(None));
                let (seen2, seed) = (seen.clone(), step.spec.seed);
                let got = pull_consume_async(client, res, move |mut r| {
                    let out = consume(&mut *r, stop, k, vt, seed, chunk, &seen2, &mut || Err("no foreign cancel in an async history step".to_string()));
                    // the reader is dropped here, before the value is handed back: an early drop when the consumer stopped early
                    drop(r);
                    out
                })
                .await
                .map_err(et);
                let seen = seen.lock().unwrap_or_else(|e| e.into_inner()).take();
                Out { got, seen, extra: None }
            }
            Entry::ToVec => plain(pull_to_vec_async(client, res).await.map_err(et)),
            Entry::Decode => plain(slow::pull_bytes_async(Pk::Decode, kind, res, client, dest, step.spec.seed, chunk).await),
            Entry::ToFile => plain(pull_to_file_async(client, res, dest).await.map_err(et).and_then(|_| read_back(dest))),
            Entry::Trailer(te) => {
                let (mut seen, mut trailer) = (None, vec![]);
                let d = Dg { seen: vec![], limit: if te == TrailerEnd::DigestErr { Some(k.min(len.saturating_sub(TRAILER + 1))) } else { None } };
                let r = pull_to_file_trailer_verified_async(client, res, dest, TRAILER, d, |d: Dg, t: &[u8]| {
                    seen = Some(d.seen);
                    trailer = t.to_vec();
                    if te == TrailerEnd::VerifyErr { Err(own_error("verify refuses the trailer")) } else { Ok(()) }
                })
                .await;
                after_trailer(r.map_err(et), dest, seen, trailer)
            }
            Entry::StreamValue | Entry::StreamRawFile | Entry::BeveFile | Entry::BeveZst => plain(Err("harness: no async form of this entry point".into())),
        }
    }

    // ------------------------------------------------------------------ one history on one thread

    struct Target {
        kind: Kind,
        zstd: bool,
        srv: Srv,
        sync: Option<Client>,
        asy: Option<AsyncClient>,
        ws: Option<WebSocketClient>,
        /// for the foreign cancel: a blocking client behind a sniffing proxy (stream ids are opaque), and a raw connection
        proxied: Option<(proxy::TcpProxy, Arc<Sniff>, Client)>,
        raw: Option<RawSvs<TcpRaw>>,
    }

    struct Hist {
        lines: Vec<String>,
        prev: Option<EndClass>,
        /// an irregular ending has happened on this thread (and which kinds)
        irregular_before: Vec<EndClass>,
        early_ok_stop_of_a_zstd_pull_before: bool,
    }

    fn entry_text(step: &Step, k: usize, len: usize) -> String {
        match step.entry {
            Entry::Consume(Stop::ToEnd) => "consumer reads to the end".into(),
            Entry::Consume(Stop::Prefix(at)) => format!("consumer reads {k} of {len} bytes ({at:?}) and returns Ok"),
            Entry::Consume(Stop::ExactLen) => format!("consumer reads exactly {len} bytes, never asks for the end, returns Ok"),
            Entry::Consume(Stop::PrefixThenErr(at)) => format!("consumer reads {k} of {len} bytes ({at:?}) and returns an error of its own"),
            Entry::Consume(Stop::SelfDelimiting) => "consumer runs a BEVE value decoder over the reader".into(),
            Entry::Consume(Stop::ForeignCancel(at)) => format!("consumer reads {k} of {len} bytes ({at:?}), another connection cancels the stream, consumer reads on"),
            Entry::Trailer(TrailerEnd::VerifyOk) => "verify accepts".into(),
            Entry::Trailer(TrailerEnd::VerifyErr) => "verify refuses".into(),
            Entry::Trailer(TrailerEnd::DigestErr) => "the digest refuses to take more bytes mid-stream".into(),
            _ => String::new(),
        }
    }

    #[allow(clippy::too_many_arguments)]
    fn judge(acc: &mut Acc, plan: &Plan, hist: &mut Hist, idx: usize, step: &Step, kind: Kind, zstd: bool, expected: &[u8], k: usize, out: Out) {
        let is_async = step.cl != Cl::Sync;
        let puller = puller_name(step.entry, kind, is_async);
        let class = class_of(step);
        let cz = if zstd { "zstd" } else { "none" };
        let res_text = match &out.got {
            Ok(b) => format!("Ok({} bytes)", b.len()),
            Err(e) => format!("Err({})", trunc(e, 90)),
        };
        let line = format!(
            "#{idx} {puller} over {} from the {} producer ({cz}), {} logical bytes{}{}{} -> {res_text}",
            step.cl.name(),
            kind.name(),
            expected.len(),
            if step.spec.compressible { ", compressible" } else { "" },
            match step.spec.fail {
                Some(f) => format!(", producer fails after {f} bytes"),
                None => String::new(),
            },
            match entry_text(step, k, expected.len()) {
                t if t.is_empty() => t,
                t => format!("; {t}"),
            }
        );
        if let Err(e) = &out.got {
            if e.contains("harness:") {
                acc.inconclusive.push(format!("same-thread family, {puller} over {}: {e}", step.cl.name()));
                hist.lines.push(line);
                return;
            }
        }
        acc.evals += 1;
        acc.count("same_thread_pulls", 1);
        acc.count(&format!("same_thread_pulls[{puller}]"), 1);
        acc.count(&format!("same_thread_endings[{}:{cz}]", class.tag()), 1);
        acc.distinct.push(hash_of(&("same-thread", plan.tr, plan.chunk, step.cl, puller, kind.class(), zstd, step.entry, hist.prev, step.spec.compressible, (expected.len() / plan.chunk.max(1)).min(5), expected.len() > 131_072)));
        let after = hist.prev.map(|c| c.tag()).unwrap_or("nothing");
        // the signature names the most recent IRREGULAR ending on the thread (what a later pull may have inherited something from)
        let after_irregular = hist.irregular_before.last().map(|c| c.tag()).unwrap_or("regular-pulls-only");
        let mut bad: Option<(String, String)> = None;
        if let Some((what, detail)) = out.extra {
            bad = Some((what.to_string(), detail));
        } else {
            match class {
                EndClass::Complete | EndClass::ValueDecode | EndClass::ProducerFailure => {
                    match sidecar::pull_defect(&out.got, expected, step.spec.fail, plan.chunk) {
                        Some(d) => bad = Some(d),
                        None if step.spec.fail.is_some() => acc.count("pulls_failing_as_required", 1),
                        None => {
                            acc.count("pulls_matching", 1);
                            acc.count("same_thread_complete_pulls_exact", 1);
                            acc.count(&format!("same_thread_complete_pulls_exact_right_after[{after}]"), 1);
                            if expected.len() > plan.chunk {
                                acc.count("same_thread_complete_multi_chunk_pulls_exact", 1);
                            }
                            if !hist.irregular_before.is_empty() {
                                acc.count("same_thread_complete_pulls_exact_with_an_irregular_ending_earlier_on_the_thread", 1);
                            }
                            if zstd && hist.early_ok_stop_of_a_zstd_pull_before {
                                acc.count("same_thread_complete_zstd_pulls_exact_after_an_early_ok_stop_of_a_zstd_pull_on_the_thread", 1);
                            }
                        }
                    }
                }
                EndClass::EarlyOkStop => {
                    let want = &expected[..k.min(expected.len())];
                    match &out.got {
                        Ok(b) if b == want => acc.count("same_thread_early_ok_stops_with_the_exact_prefix", 1),
                        Ok(b) if b.len() < want.len() && want[..b.len()] == b[..] => {
                            bad = Some(("bytes-missing".into(), format!("the reader reported its end after {} bytes although the consumer asked for {} of the stream's {}", b.len(), want.len(), expected.len())))
                        }
                        Ok(b) => bad = Some(("prefix-differs".into(), format!("the {} bytes the consumer read are not the first {} bytes the producer emitted (first difference at {})", b.len(), want.len(), first_diff(b, want)))),
                        Err(e) => bad = Some(("error-on-healthy-stream".into(), format!("failed on a healthy {}-byte stream of which the consumer wanted the first {}: {e}", expected.len(), want.len()))),
                    }
                }
                EndClass::Cancel => match &out.got {
                    Ok(b) if b == expected => acc.count("same_thread_cancelled_pulls_that_had_everything_already", 1),
                    Ok(b) => {
                        let (what, how) = sidecar::diff_what(b, expected, plan.chunk);
                        bad = Some((format!("clean-end-after-cancel:{what}"), format!("returned Ok with {} bytes of a {}-byte stream that another connection had cancelled (acknowledged) after the consumer's first {k} bytes: {how}", b.len(), expected.len())));
                    }
                    Err(_) => acc.count("same_thread_cancelled_pulls_reported_as_error", 1),
                },
                EndClass::ConsumerError | EndClass::VerifyRefused => {
                    if out.got.is_ok() {
                        acc.count("same_thread_pulls_ok_although_the_consumer_refused", 1);
                    }
                    if let Some(seen) = &out.seen {
                        let lim = if matches!(step.entry, Entry::Trailer(_)) { expected.len().saturating_sub(TRAILER) } else { expected.len() };
                        if seen.len() > lim || expected[..seen.len()] != seen[..] {
                            bad = Some(("prefix-differs".into(), format!("the {} bytes the consumer had been given before it refused are not a prefix of the producer's {} bytes (first difference at {})", seen.len(), lim, first_diff(seen, expected))));
                        } else {
                            acc.count("same_thread_refusing_consumers_had_seen_an_exact_prefix", 1);
                        }
                    }
                }
            }
        }
        if let Some((what, detail)) = bad {
            let earlier: Vec<String> = hist.lines.iter().rev().take(4).cloned().collect();
            let mut j = plan.json();
            j["violating_pull"] = json!(line);
            j["resource"] = json!(step.spec.res());
            j["history_on_this_thread"] = json!(hist.lines.iter().rev().take(60).rev().cloned().collect::<Vec<_>>());
            acc.violation(
                format!("C09:same-thread:{puller}:{what}:after-{after_irregular}"),
                format!(
                    "pull #{idx} of one thread's history, {puller} over {} from the {} producer ({cz}, chunk_bytes {}): {detail}; earlier on the same thread (latest first): {}",
                    step.cl.name(),
                    kind.name(),
                    plan.chunk,
                    if earlier.is_empty() { "nothing".to_string() } else { trunc(&earlier.join(" | "), 900) }
                ),
                j,
            );
        }
        hist.lines.push(line);
        if !class.regular() {
            hist.irregular_before.push(class);
            if class == EndClass::EarlyOkStop && zstd {
                hist.early_ok_stop_of_a_zstd_pull_before = true;
            }
        }
        hist.prev = Some(class);
    }

    fn run_history(plan: &Plan, rt: &Arc<tokio::runtime::Runtime>, acc: &mut Acc) -> Result<(), String> {
        let tg = targets(plan);
        let steps = history(plan);
        let mut tgs: Vec<Option<Target>> = tg.iter().map(|_| None).collect();
        let dir = svs::fresh_dir("c09-seq");
        let mut hist = Hist { lines: vec![], prev: None, irregular_before: vec![], early_ok_stop_of_a_zstd_pull_before: false };
        for (idx, step) in steps.iter().enumerate() {
            let (kind, zstd) = tg[step.target];
            if tgs[step.target].is_none() {
                let opts = StreamOpts { chunk_bytes: plan.chunk, compression: if zstd { Compression::Zstd } else { Compression::None }, zstd_level: 3, session_depth: plan.depth };
                let srv = start_server_with(build_router(kind, opts), plan.tr, rt).map_err(|e| format!("server start: {e}"))?;
                tgs[step.target] = Some(Target { kind, zstd, srv, sync: None, asy: None, ws: None, proxied: None, raw: None });
            }
            let t = tgs[step.target].as_mut().unwrap();
            let expected = logical_bytes(kind, &step.spec);
            // entry points that need something the payload does not have fall back to the plain byte puller
            let mut step = step.clone();
            if matches!(step.entry, Entry::Trailer(_)) && expected.len() < TRAILER + 2 {
                step.entry = Entry::ToVec;
            }
            let mut rk = Rng::new(step.spec.seed ^ 0xA7);
            let k = match step.entry {
                Entry::Consume(Stop::Prefix(at)) | Entry::Consume(Stop::PrefixThenErr(at)) | Entry::Consume(Stop::ForeignCancel(at)) => stop_at(at, expected.len(), plan.chunk, &mut rk),
                Entry::Consume(Stop::ExactLen) => expected.len(),
                Entry::Trailer(TrailerEnd::DigestErr) => rk.usize_below(expected.len()),
                _ => 0,
            };
            let res = step.spec.res();
            let dest = dir.join(format!("d{idx}.bin"));
            let addr = t.srv.addr;
            let out = match step.cl {
                Cl::Sync => {
                    if matches!(step.entry, Entry::Consume(Stop::ForeignCancel(_))) {
                        if t.proxied.is_none() {
                            let sniff = Sniff::new();
                            let px = proxy::tcp_proxy(addr, sniff.clone())?;
                            let c = Client::connect(px.addr).map_err(|e| format!("Client::connect (proxy): {e}"))?;
                            t.proxied = Some((px, sniff, c));
                        }
                        if t.raw.is_none() {
                            t.raw = Some(RawSvs::new(TcpRaw::connect(addr)?));
                        }
                        let Target { proxied, raw, .. } = t;
                        let (_, sniff, client) = proxied.as_ref().unwrap();
                        let raw = raw.as_mut().unwrap();
                        let before = sniff.opens_seen();
                        let mut cancel = || -> Result<(), String> {
                            let ids = sniff.opens_since(before);
                            let id = *ids.last().ok_or("the proxy saw no open response")?;
                            let ec = raw.cancel(id, false)?;
                            if ec != 0 {
                                return Err(format!("cancel answered ec={ec}"));
                            }
                            Ok(())
                        };
                        run_sync(&step, kind, client, &res, k, expected.len(), &dest, plan.chunk, &mut cancel)
                    } else {
                        if t.sync.is_none() {
                            t.sync = Some(Client::connect(addr).map_err(|e| format!("Client::connect: {e}"))?);
                        }
                        run_sync(&step, kind, t.sync.as_ref().unwrap(), &res, k, expected.len(), &dest, plan.chunk, &mut || Err("no foreign cancel planned".to_string()))
                    }
                }
                Cl::Async => {
                    if t.asy.is_none() {
                        t.asy = Some(rt.block_on(AsyncClient::connect(addr)).map_err(|e| format!("AsyncClient::connect: {e}"))?);
                    }
                    rt.block_on(run_async(&step, kind, t.asy.as_ref().unwrap(), &res, k, expected.len(), &dest, plan.chunk))
                }
                Cl::Ws => {
                    if t.ws.is_none() {
                        t.ws = Some(rt.block_on(WebSocketClient::connect(&format!("ws://{addr}/repe"))).map_err(|e| format!("WebSocketClient::connect: {e}"))?);
                    }
                    rt.block_on(run_async(&step, kind, t.ws.as_ref().unwrap(), &res, k, expected.len(), &dest, plan.chunk))
                }
            };
            let _ = (t.kind, t.zstd);
            judge(acc, plan, &mut hist, idx, &step, kind, zstd, &expected, k, out);
        }
        let _ = std::fs::remove_dir_all(&dir);
        acc.count("same_thread_histories", 1);
        acc.count(&format!("same_thread_histories[{:?}]", plan.tr), 1);
        if acc.samples.is_empty() {
            let mut j = plan.json();
            j["history_on_one_thread"] = json!(hist.lines.iter().take(14).cloned().collect::<Vec<_>>());
            acc.samples.push(j);
        }
        Ok(())
    }

    fn absorb(into: &mut Acc, from: Acc) {
        into.evals += from.evals;
        into.distinct.extend(from.distinct);
        into.viol.extend(from.viol);
        for (k, v) in from.counts {
            *into.counts.entry(k).or_insert(0) += v;
        }
        into.inconclusive.extend(from.inconclusive);
        into.samples.extend(from.samples);
    }

    /// Every history gets an OS thread of its own: what a pull finds on its thread is what THIS history left there.
    fn work(plan: &Plan, rt: &Arc<tokio::runtime::Runtime>, acc: &mut Acc) {
        let (tx, rx) = mpsc::channel::<Acc>();
        let (p2, rt2) = (plan.clone(), rt.clone());
        let spawned = std::thread::Builder::new().name("c09-same-thread-history".into()).spawn(move || {
            let mut a = Acc::default();
            match catching(|| run_history(&p2, &rt2, &mut a)) {
                Ok(Ok(())) => {}
                Ok(Err(e)) => a.inconclusive.push(format!("same-thread family trouble on {p2:?}: {e}")),
                Err(p) => a.inconclusive.push(format!("harness panic in same-thread history {p2:?}: {p}")),
            }
            let _ = tx.send(a);
        });
        if let Err(e) = spawned {
            acc.inconclusive.push(format!("same-thread family: cannot start a thread: {e}"));
            return;
        }
        match rx.recv_timeout(Duration::from_secs(if plan.steps > 60 { 300 } else { 120 })) {
            Ok(a) => absorb(acc, a),
            Err(_) => acc.inconclusive.push(format!("same-thread family: the history {plan:?} did not finish within its window")),
        }
    }

    fn plans(args: &Args) -> Vec<Plan> {
        let mut rng = Rng::new(args.seed ^ 0xC09_5E90);
        let mut v = vec![];
        let n = if args.thorough() { 96 } else { 20 };
        for i in 0..n {
            let tr = if i % 4 == 3 { Tr::Ws } else { Tr::Tcp };
            // the stock chunk size (1 MiB) among them: a whole payload in one wire chunk
            let chunk = [256usize, 4096, 65536, 1 << 20, 4096, 1 << 20][i % 6];
            v.push(Plan { tr, chunk, depth: rng.usize_below(9), steps: if args.thorough() { 80 } else { 36 }, seed: rng.next_u64() });
        }
        let k = args.budget(v.len() as u64, v.len() as u64) as usize;
        if k < v.len() {
            rng.shuffle(&mut v);
            v.truncate(k.max(1));
        }
        v
    }

    pub fn spawn(args: &Args) -> sidecar::Family {
        sidecar::spawn("same-thread", plans(args), 6, Duration::from_secs(if args.thorough() { 420 } else { 40 }), work)
    }

    /// "Observed nothing" for this family.
    pub fn summary(rep: &mut Report) {
        if !rep.inconclusive.is_empty() {
            return;
        }
        if rep.get_count("same_thread_complete_pulls_exact_right_after[early-ok-stop]") == 0 || rep.get_count("same_thread_complete_pulls_exact_with_an_irregular_ending_earlier_on_the_thread") == 0 {
            rep.inconclusive("same-thread family: no complete pull was judged after an irregular ending on its thread");
        }
    }
}
