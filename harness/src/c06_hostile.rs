//! C06 hostile content in frames the client must DISCARD (or hand to nobody) while it keeps serving:
//! late responses to calls abandoned by their timeout or by cancellation after the request was written,
//! frames for ids that were never issued, second copies of responses already delivered, server pushes —
//! each carrying a query / body / error text that is long (1 byte .. 8 KiB), non-ASCII with 2-, 3- and
//! 4-byte characters at every byte alignment (every byte offset up to 4 KiB lies strictly inside some
//! character of some text), not UTF-8 at all, full of control characters, or empty. The fake servers echo
//! the request's query, so the abandoned calls, the probe calls and the long-lived bystanders themselves use
//! such routes.
//!
//! Oracle (the property's): after EACH such frame a fresh call on the same client is written, answered by
//! the fake server and returns its own token within the window (a reader that died shows up as a probe that
//! never returns: bounded-progress verdict under the heartbeat guard); the bystanders that were in flight
//! during the whole session return their own tokens at the end; the pending table holds exactly the calls
//! still in flight; nothing panicked.

use super::imp::{Stats, check_panic, check_residue, judge, report_hang};
use super::infra::*;
use crate::common::*;
use crate::oracle::{self, SpecHeader};
use serde_json::json;
use std::collections::BTreeSet;
use std::time::Duration;

#[derive(Clone, Debug)]
pub struct Text {
    pub name: String,
    pub bytes: Vec<u8>,
}

impl Text {
    fn utf8(&self) -> Option<&str> {
        std::str::from_utf8(&self.bytes).ok()
    }
}

const W2: [char; 3] = ['é', 'ß', 'Ж'];
const W3: [char; 3] = ['€', '漢', 'あ'];
const W4: [char; 3] = ['😀', '𝄞', '🦀'];

fn wide(w: usize, i: usize) -> char {
    match w {
        2 => W2[i % 3],
        3 => W3[i % 3],
        _ => W4[i % 3],
    }
}

/// `lead` + `k` ASCII bytes + a run of characters whose widths cycle through `widths`, at least `total` bytes.
fn run_text(lead: &str, k: usize, widths: &[usize], total: usize) -> Vec<u8> {
    let mut s = String::with_capacity(total + 4);
    s.push_str(lead);
    for i in 0..k {
        s.push((b'a' + (i % 26) as u8) as char);
    }
    let mut i = 0;
    while s.len() < total {
        s.push(wide(widths[i % widths.len()], i));
        i += 1;
    }
    s.into_bytes()
}

/// The text table. Round 0 is fixed; later rounds (thorough tier) add random prefixes / lengths.
pub fn texts(rng: &mut Rng, round: u64) -> Vec<Text> {
    let mut v: Vec<Text> = vec![];
    let mut add = |name: String, bytes: Vec<u8>| v.push(Text { name, bytes });
    // every phase of every width, at lengths around the powers of two and round numbers a preview / buffer
    // boundary is likely to sit at
    for total in [20usize, 40, 70, 104, 140, 300, 530, 1100, 4200] {
        for w in [2usize, 3, 4] {
            for k in 0..w {
                add(format!("/+{k}ascii+{w}byte-run:{total}"), run_text("/", k, &[w], total));
            }
        }
    }
    // no leading slash: offsets 1..3 are straddled too
    for w in [2usize, 3, 4] {
        add(format!("{w}byte-run-from-0:70"), run_text("", 0, &[w], 70));
    }
    // mixed widths
    for (k, total) in [(0usize, 70usize), (1, 140), (2, 300), (5, 1100), (7, 8192)] {
        add(format!("/+{k}ascii+mixed-run:{total}"), run_text("/", k, &[2, 3, 4, 3], total));
    }
    // one wide character exactly across each of the usual boundaries, ASCII around it
    for n in [16usize, 32, 64, 100, 128, 256, 512, 1024, 4096] {
        for w in [2usize, 3, 4] {
            // the character starts `back` bytes before n (1 <= back < w), so n lies strictly inside it
            let back = 1 + n % (w - 1);
            let mut s = String::from("/");
            while s.len() < n - back {
                s.push('p');
            }
            s.push(wide(w, n));
            while s.len() < n + 24 {
                s.push('q');
            }
            add(format!("ascii+one-{w}byte-char-across-{n}"), s.into_bytes());
        }
    }
    // ASCII controls (the same history with harmless content) and the extremes
    add("ascii:70".into(), run_text("/", 69, &[2], 0));
    add("ascii:4200".into(), run_text("/", 4199, &[2], 0));
    add("one-byte".into(), b"/".to_vec());
    add("empty".into(), vec![]);
    add("control-characters:160".into(), "/\0\n\r\t\x1b[31m\x7f\"\\{}".repeat(10).into_bytes());
    // not UTF-8
    for k in 0..3usize {
        let mut b = run_text("/", k, &[2], 0);
        b.extend(std::iter::repeat(0x80u8).take(140));
        add(format!("/+{k}ascii+lone-continuation-bytes:140"), b);
    }
    add("ff-run:100".into(), vec![0xFF; 100]);
    add("overlong-c0af:100".into(), [0xC0u8, 0xAF].repeat(50));
    add("surrogates-eda080:120".into(), [0xEDu8, 0xA0, 0x80].repeat(40));
    let mut t = run_text("/", 61, &[2], 0);
    t.extend_from_slice(&[0xF0, 0x9F, 0x98]);
    add("ascii+truncated-4byte-char-at-end:65".into(), t);
    let mut t = run_text("/", 3, &[4], 70);
    t.extend_from_slice(&[0xE2, 0x82]);
    add("4byte-run+truncated-3byte-char-at-end:72".into(), t);
    for n in [70usize, 300, 1100, 4200] {
        add(format!("random-bytes:{n}"), rng.bytes(n));
    }
    if round > 0 {
        for _ in 0..24 {
            let k = rng.usize_below(300);
            let w = 2 + rng.usize_below(3);
            let sh = 3 + rng.usize_below(10);
            let total = k + 8 + rng.usize_below(1 << sh);
            add(format!("/+{k}ascii+{w}byte-run:{total}"), run_text("/", k, &[w], total));
        }
        for _ in 0..8 {
            let n = 1 + rng.usize_below(6000);
            add(format!("random-bytes:{n}"), rng.bytes(n));
        }
    }
    v
}

/// Byte offsets (1..limit) that lie strictly inside a character of a valid-UTF-8 text.
fn straddled(t: &Text, limit: usize, into: &mut BTreeSet<usize>) {
    if let Some(s) = t.utf8() {
        for o in 1..s.len().min(limit + 1) {
            if !s.is_char_boundary(o) {
                into.insert(o);
            }
        }
    }
}

/// A frame nobody is waiting for, built from the spec.
fn stray(id: u64, notify: bool, ec: u32, query: &[u8], body: &[u8], body_format: u16) -> Vec<u8> {
    let h = SpecHeader { spec: oracle::SPEC, version: 1, notify: notify as u8, id, query_format: 1, body_format, ec, ..Default::default() };
    oracle::frame(h, query, body)
}

struct Session<'a> {
    kind: Kind,
    cli: Cli,
    srv: Srv,
    calls: Calls,
    texts: &'a [Text],
    /// index of the previous probe (blocking client: the next probe runs on the same caller thread)
    last_probe: Option<usize>,
    probes: usize,
    /// (class, text name, where the text was put) of the frames sent since the last successful probe
    since_probe: Vec<String>,
}

impl Session<'_> {
    /// A fresh call on the same client: written, answered, returns its own token. false = stop the session.
    fn probe(&mut self, env: &mut Env, rep: &mut Report, st: &mut Stats, class: &str, rng: &mut Rng, replay: &serde_json::Value) -> bool {
        let kind = self.kind;
        let ctx = format!("hostile:{class}");
        let ws = kind == Kind::Ws;
        // the probe's own route is hostile too (valid UTF-8: the client API takes &str)
        let utf8: Vec<&Text> = self.texts.iter().filter(|t| t.utf8().is_some() && !t.bytes.is_empty()).collect();
        let path = utf8[(self.probes * 7 + 3) % utf8.len()].utf8().unwrap_or("/").to_string();
        self.probes += 1;
        let tok = env.token();
        let to = if rng.chance(1, 4) { Some(Duration::from_secs(40)) } else { None };
        let y = match self.last_probe {
            Some(f) => self.calls.launch_same_thread_at(env, &self.cli, f, &path, tok, rng.usize_below(24), to),
            None => self.calls.launch_at(env, &self.cli, &path, tok, rng.usize_below(24), to),
        };
        self.last_probe = Some(y);
        let mut replay = replay.clone();
        replay["frames_since_last_good_probe"] = json!(self.since_probe);
        if !self.srv.wait_token(tok, STEP_MAX) {
            self.srv.poll();
            let miss = self.calls.wait(&[y], Duration::from_millis(200));
            if miss.is_empty() {
                judge(rep, st, &self.calls, &[y], &self.srv, kind, &format!("{ctx}:next-call"), true, &replay);
            } else {
                report_hang(rep, env, "next-call-not-sent", kind, &ctx, &miss, &self.calls, &replay);
            }
            return false;
        }
        if let Some(r) = self.srv.req_by_token(tok) {
            if r.query != path.as_bytes() {
                rep.violation(
                    format!("C06:request-query-altered:{}:{ctx}", kind.name()),
                    format!("the request of the probe call carried a {}-byte query, the caller passed {} bytes ({})", r.query.len(), path.len(), hex_trunc(&r.query, 48)),
                    replay.clone(),
                );
            }
            self.srv.answer(&r, ws);
        }
        let miss = self.calls.wait(&[y], WINDOW);
        self.srv.poll();
        if !miss.is_empty() {
            report_hang(rep, env, "healthy-call-hang", kind, &ctx, &miss, &self.calls, &replay);
            return false;
        }
        let before = rep.violations.len();
        judge(rep, st, &self.calls, &[y], &self.srv, kind, &format!("{ctx}:next-call"), true, &replay);
        if rep.violations.len() != before {
            return false;
        }
        rep.count("hostile_probe_calls_returned_own_token", 1);
        self.since_probe.clear();
        true
    }

    fn send(&mut self, f: Vec<u8>, what: String) {
        self.srv.send(if self.kind == Kind::Ws { Cmd::WsBinary(f) } else { Cmd::Raw(f) });
        self.since_probe.push(what);
    }
}

fn run_session(env: &mut Env, rep: &mut Report, st: &mut Stats, kind: Kind, texts: &[Text], rng: &mut Rng, round: u64) {
    let ws = kind == Kind::Ws;
    let replay = json!({"scenario": "hostile-content", "client": kind.name(), "seed": rep.seed, "round": round});
    env.hb_reset();
    ps_reset();
    let _ = take_last_panic();
    let (cli, srv) = match env.connect(kind, true) {
        Ok(x) => x,
        Err(e) => return rep.inconclusive(format!("{} / hostile-content: {e}", kind.name())),
    };
    rep.eval();
    // WebSocket: a live subscriber that drains (pushed frames with hostile content go to it)
    if let Cli::Ws(c) = &cli {
        match c.subscribe_notifies() {
            Ok(mut rx) => {
                env.rt_cli.spawn(async move { while rx.recv().await.is_some() {} });
            }
            Err(_) => rep.inconclusive("subscribe_notifies refused on a fresh client"),
        }
    }
    let mut s = Session { kind, cli, srv, calls: Calls::new(), texts, last_probe: None, probes: 0, since_probe: vec![] };
    let utf8: Vec<&Text> = texts.iter().filter(|t| t.utf8().is_some() && !t.bytes.is_empty()).collect();

    // bystanders in flight during the whole session, no timeout
    let nby = 2usize;
    let mut by = vec![];
    for i in 0..nby {
        let tok = env.token();
        let p = utf8[(i * 11 + 5) % utf8.len()].utf8().unwrap_or("/");
        by.push(s.calls.launch_at(env, &s.cli, p, tok, rng.usize_below(24), None));
    }
    if !s.srv.wait_reqs(nby, STEP_MAX) {
        return rep.inconclusive(format!("{} / hostile-content: bystanders not seen by the fake server ({:?})", kind.name(), s.srv.gone));
    }

    // ---- calls abandoned after their request was written: by their timeout, or (async clients) by abort
    let mut victims: Vec<(usize, usize, bool)> = vec![]; // (call index, text index, to-be-aborted)
    for (ti, t) in texts.iter().enumerate() {
        let Some(p) = t.utf8().filter(|p| !p.is_empty()) else { continue };
        let abort = kind != Kind::Sync && ti % 2 == 1;
        let tok = env.token();
        let to = if abort { None } else { Some(Duration::from_millis(300 + rng.below(200))) };
        victims.push((s.calls.launch_at(env, &s.cli, p, tok, rng.usize_below(24), to), ti, abort));
    }
    // aborts only after the fake server has the request (the request was written)
    let mut aborted = 0u64;
    for &(x, _, abort) in &victims {
        if !abort {
            continue;
        }
        let tok = s.calls.v[x].token;
        if !s.srv.wait_token(tok, STEP_MAX) {
            return rep.inconclusive(format!("{} / hostile-content: a request to be cancelled was not seen by the fake server ({:?})", kind.name(), s.srv.gone));
        }
        match s.calls.abort_and_join(env, x, WINDOW, || {}).as_str() {
            "cancelled" => aborted += 1,
            "join-timeout" => {
                env.hangs_left -= 1;
                if env.hb.max_gap_ms() > 1000 {
                    rep.inconclusive("aborted task did not finish but the machine stalled");
                } else {
                    rep.violation(format!("C06:cancel-hang:{}:hostile:abort-while-waiting", kind.name()), format!("an aborted call task was still alive {} s after abort; trace: {}", WINDOW.as_secs(), ps_trace()), replay.clone());
                }
                return;
            }
            other => return rep.inconclusive(format!("{} / hostile-content: a call nobody answered ended with `{other}` at abort", kind.name())),
        }
    }
    rep.count("hostile_calls_cancelled_after_write", aborted);
    let vidx: Vec<usize> = victims.iter().map(|v| v.0).collect();
    let miss = s.calls.wait(&vidx, WINDOW);
    if !miss.is_empty() {
        report_hang(rep, env, "timeout-hang", kind, "hostile:unanswered-calls-with-timeout", &miss, &s.calls, &replay);
        return;
    }
    s.srv.poll();
    judge(rep, st, &s.calls, &vidx, &s.srv, kind, "hostile:unanswered-calls-with-timeout", false, &replay);
    check_residue(rep, &s.cli, nby, kind, "hostile:after-abandon", &replay);
    // barrier: requests reach the fake server in write order, so after this probe every abandoned request
    // that was written at all has been seen
    if !s.probe(env, rep, st, "after-abandon", rng, &replay) {
        return;
    }

    // ---- the late responses, one at a time, each followed by a probe
    let mut order: Vec<usize> = (0..victims.len()).collect();
    rng.shuffle(&mut order);
    let (mut not_written, mut n_to, mut n_ca) = (0u64, 0u64, 0u64);
    for (j, vi) in order.into_iter().enumerate() {
        if env.stop() {
            return;
        }
        let (x, ti, abort) = victims[vi];
        let Some(req) = s.srv.req_by_token(s.calls.v[x].token) else {
            not_written += 1;
            continue;
        };
        let class = if abort { "late-response-after-cancel" } else { "late-response-after-timeout" };
        let other = &texts[(ti * 5 + j + 1) % texts.len()];
        // what the late response carries: the echo; an error with a hostile error text; a hostile body; another query
        let (f, shape) = match j % 4 {
            0 => (req.response(), "echoed-query"),
            1 => (stray(req.header.id, false, [1u32, 7, 404, u32::MAX][j / 4 % 4], &req.query, &other.bytes, 3), "echoed-query+error-text"),
            2 => (stray(req.header.id, false, 0, &req.query, &other.bytes, 2), "echoed-query+body"),
            _ => (stray(req.header.id, false, 0, &other.bytes, &[], 2), "other-query+empty-body"),
        };
        rep.distinct(&(kind, class, shape, &texts[ti].name));
        s.send(f, format!("{class} id {} {shape} route `{}` other `{}`", req.header.id, texts[ti].name, other.name));
        if abort { n_ca += 1 } else { n_to += 1 }
        if !s.probe(env, rep, st, class, rng, &replay) {
            return;
        }
    }
    rep.count("hostile_late_responses_after_timeout", n_to);
    rep.count("hostile_late_responses_after_cancel", n_ca);
    rep.count("hostile_abandoned_calls_never_written", not_written);

    // ---- frames for ids nobody waits for: never issued, or already answered (a second copy)
    let in_flight: Vec<u64> = by.iter().filter_map(|i| s.srv.req_by_token(s.calls.v[*i].token)).map(|r| r.header.id).collect();
    let (mut n_unknown, mut n_dup, mut n_push) = (0u64, 0u64, 0u64);
    for (ti, t) in texts.iter().enumerate() {
        if env.stop() {
            return;
        }
        for place in 0..3usize {
            let done: Vec<u64> = s.srv.sent_full.clone();
            let dup = (ti + place) % 3 == 0 && !done.is_empty();
            let id = if dup {
                done[(ti * 3 + place) % done.len()]
            } else {
                [(1u64 << 48) + (ti * 3 + place) as u64, u64::MAX, u64::MAX - 1 - ti as u64, 1 << 63, 0][(ti + place) % 5]
            };
            if in_flight.contains(&id) {
                continue;
            }
            let small = &texts[(ti + 17) % texts.len()];
            let (f, shape) = match place {
                0 => (stray(id, false, 0, &t.bytes, br#"{"t":0,"p":""}"#, 2), "query"),
                1 => (stray(id, false, 0, &small.bytes[..small.bytes.len().min(40)], &t.bytes, 2), "body"),
                _ => (stray(id, false, [1u32, 7, 404, u32::MAX][ti % 4], &small.bytes[..small.bytes.len().min(40)], &t.bytes, 3), "error-text"),
            };
            let class = if dup { "duplicate-response" } else { "unknown-id" };
            rep.distinct(&(kind, class, shape, &t.name));
            s.send(f, format!("{class} id {id} hostile {shape} `{}`", t.name));
            if dup { n_dup += 1 } else { n_unknown += 1 }
            if !s.probe(env, rep, st, class, rng, &replay) {
                return;
            }
        }
        // a server push (notify flag) with the text as its query: TCP clients drop it, the WebSocket
        // client hands it to the subscriber; ids: an in-flight id, a finished id, a foreign id
        if ti % 3 == 0 {
            let id = match ti / 3 % 3 {
                0 => in_flight.first().copied().unwrap_or(1),
                1 => s.srv.sent_full.last().copied().unwrap_or(1),
                _ => (1 << 52) + ti as u64,
            };
            rep.distinct(&(kind, "push", &t.name));
            s.send(stray(id, true, 0, &t.bytes, &texts[(ti + 9) % texts.len()].bytes, 2), format!("push id {id} hostile query `{}`", t.name));
            n_push += 1;
            if !s.probe(env, rep, st, "push", rng, &replay) {
                return;
            }
        }
    }
    rep.count("hostile_unknown_id_frames", n_unknown);
    rep.count("hostile_duplicate_responses", n_dup);
    rep.count("hostile_pushes", n_push);

    // ---- the bystanders were in flight all along: they get their own responses now
    let mut reqs: Vec<Req> = by.iter().filter_map(|i| s.srv.req_by_token(s.calls.v[*i].token)).collect();
    rng.shuffle(&mut reqs);
    for r in &reqs {
        s.srv.answer(r, ws);
    }
    let miss = s.calls.wait(&by, WINDOW);
    s.srv.poll();
    if !miss.is_empty() {
        report_hang(rep, env, "healthy-call-hang", kind, "hostile:bystanders", &miss, &s.calls, &replay);
        return;
    }
    judge(rep, st, &s.calls, &by, &s.srv, kind, "hostile:bystanders", true, &replay);
    check_residue(rep, &s.cli, 0, kind, "hostile:end", &replay);
    check_panic(rep, kind, "hostile-content", &replay);
    st.bump(format!("hostile|{}|session-completed", kind.name()));
    if round == 0 {
        rep.sample(json!({"hostile_session": replay, "texts": texts.len(), "probes": s.probes, "late_after_timeout": n_to, "late_after_cancel": n_ca, "unknown_id": n_unknown, "duplicates": n_dup, "pushes": n_push}));
    }
}

pub fn run_hostile(env: &mut Env, rep: &mut Report, st: &mut Stats, args: &Args) {
    let rounds = args.budget(1, 3);
    let mut rng = Rng::new(args.seed ^ 0xC06_4057_11E);
    for round in 0..rounds {
        let tx = texts(&mut rng.fork(round), round);
        if round == 0 {
            // the table must straddle every byte offset it claims to
            let mut set = BTreeSet::new();
            for t in &tx {
                straddled(t, 4100, &mut set);
            }
            let missing: Vec<usize> = (1..=4100).filter(|o| !set.contains(o)).collect();
            rep.set("hostile_text_table", json!({"texts": tx.len(), "valid_utf8": tx.iter().filter(|t| t.utf8().is_some()).count(), "longest": tx.iter().map(|t| t.bytes.len()).max(), "byte_offsets_inside_a_character_1_to_4100": set.len()}));
            if !missing.is_empty() {
                rep.inconclusive(format!("harness: hostile text table leaves byte offsets {:?}.. never inside a character", &missing[..missing.len().min(8)]));
                return;
            }
        }
        for kind in KINDS {
            if env.stop() {
                rep.count("hostile_sessions_not_run", 1);
                continue;
            }
            let mut r = rng.fork(0x4057_0000 + round * 8 + kind as u64);
            let ts = std::time::Instant::now();
            run_session(env, rep, st, kind, &tx, &mut r, round);
            st.timed(format!("hostile-content {} round {round}", kind.name()), ts);
        }
    }
    if rep.violations.is_empty() && !env.stop() {
        for kind in KINDS {
            if !st.sched.contains_key(&format!("hostile|{}|session-completed", kind.name())) {
                rep.inconclusive(format!("the hostile-content session never completed on {}", kind.name()));
            }
        }
    }
}
