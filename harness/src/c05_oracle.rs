//! C05 oracle: deterministic body pattern, the book of submitted messages, and the independent
//! sequential walk over a recorded byte stream (built on oracle.rs, never on the library's codec).

use crate::oracle::{self, HDR, SpecHeader};
use std::collections::HashMap;

fn mix(mut z: u64) -> u64 {
    z = (z ^ (z >> 30)).wrapping_mul(0xBF58_476D_1CE4_E5B9);
    z = (z ^ (z >> 27)).wrapping_mul(0x94D0_49BB_1331_11EB);
    z ^ (z >> 31)
}

/// Body bytes are a pure function of (token, offset): word i = mix(base(token) + i*golden).
pub fn pat_fill(token: u64, len: usize) -> Vec<u8> {
    let base = mix(token ^ 0x0C05_C05C_05C0_5C05);
    let words = (len + 7) / 8;
    let mut v = Vec::with_capacity(words * 8);
    for i in 0..words as u64 {
        v.extend_from_slice(&mix(base.wrapping_add(i.wrapping_mul(0x9E37_79B9_7F4A_7C15))).to_le_bytes());
    }
    v.truncate(len);
    v
}

/// One message the harness submitted to (or made the handler of) the endpoint under test.
#[derive(Clone, Debug)]
pub struct Expect {
    pub token: u64,
    pub kind: &'static str,
    pub notify: u8,
    pub query: Vec<u8>,
    pub body_len: usize,
    /// Some(id) when the id on the wire is known in advance (server responses: the request id;
    /// pushed notifies: 0); None when the endpoint assigns it (clients).
    pub fixed_id: Option<u64>,
    /// bytes that precede the pattern bytes in the body (empty for raw bodies), and the body-format code on the wire
    pub body_prefix: Vec<u8>,
    pub body_format: u16,
    /// Some(bytes): the body on the wire is exactly these bytes (JSON bodies of batch items, written out by the harness
    /// itself); `body_len` is then their length and `body_prefix` is unused.
    pub exact_body: Option<std::sync::Arc<Vec<u8>>>,
}

#[derive(Default)]
pub struct Book {
    pub by_query: HashMap<Vec<u8>, Expect>,
    pub by_id: HashMap<u64, Expect>,
}

impl Book {
    pub fn add_by_query(&mut self, e: Expect) {
        self.by_query.insert(e.query.clone(), e);
    }
    pub fn add_by_id(&mut self, id: u64, e: Expect) {
        self.by_id.insert(id, e);
    }
    pub fn find(&self, h: &SpecHeader, query: &[u8]) -> Option<&Expect> {
        self.by_query.get(query).or_else(|| self.by_id.get(&h.id).filter(|e| e.query == query))
    }
    pub fn len(&self) -> usize {
        self.by_query.len() + self.by_id.len()
    }
}

/// The exact bytes the spec prescribes for this message (JSON-pointer query, raw body, ec 0).
pub fn expected_bytes(e: &Expect, wire_id: u64) -> Vec<u8> {
    let h = SpecHeader {
        spec: oracle::SPEC,
        version: 1,
        notify: e.notify,
        reserved: 0,
        id: e.fixed_id.unwrap_or(wire_id),
        query_format: 1,
        body_format: e.body_format,
        ec: 0,
        ..Default::default()
    };
    if let Some(b) = &e.exact_body {
        return oracle::frame(h, &e.query, b);
    }
    let mut body = e.body_prefix.clone();
    body.extend_from_slice(&pat_fill(e.token, e.body_len));
    oracle::frame(h, &e.query, &body)
}

#[derive(Clone, Debug)]
pub struct Seen {
    pub token: u64,
    pub at: usize,
    pub len: usize,
    pub wire_id: u64,
}

#[derive(Clone, Debug)]
pub enum Tail {
    Clean,
    /// The stream ends inside one frame (a strict prefix of it) and nothing follows.
    Partial { at: usize, have: usize, need: Option<usize>, token: Option<u64> },
}

#[derive(Clone, Debug)]
pub struct Viol {
    pub class: &'static str,
    pub detail: String,
}

pub struct Walk {
    pub seen: Vec<Seen>,
    pub tail: Tail,
    pub viol: Option<Viol>,
}

fn lcp(a: &[u8], b: &[u8]) -> usize {
    let n = a.len().min(b.len());
    // compare in blocks first
    let mut i = 0;
    while i + 64 <= n && a[i..i + 64] == b[i..i + 64] {
        i += 64;
    }
    while i < n && a[i] == b[i] {
        i += 1;
    }
    i
}

struct Ident<'a> {
    e: &'a Expect,
    n: usize,
    matched: usize,
    avail: usize,
}

/// Does an identifiable submitted frame start at `at`?
fn identify<'a>(stream: &[u8], at: usize, book: &'a Book) -> Option<Ident<'a>> {
    let rest = &stream[at..];
    if rest.len() < HDR {
        return None;
    }
    let h = SpecHeader::decode(rest);
    if !h.consistent() || h.query_length > 4096 {
        return None;
    }
    let ql = h.query_length as usize;
    if rest.len() < HDR + ql {
        return None;
    }
    let e = book.find(&h, &rest[HDR..HDR + ql])?;
    let exp = expected_bytes(e, h.id);
    let avail = rest.len().min(exp.len());
    let matched = lcp(&rest[..avail], &exp[..avail]);
    if matched < HDR + ql {
        return None;
    }
    Some(Ident { e, n: exp.len(), matched, avail })
}

fn resync<'a>(stream: &[u8], from: usize, book: &'a Book) -> Option<(usize, Ident<'a>)> {
    if stream.len() < HDR {
        return None;
    }
    let last = stream.len() - HDR;
    let mut j = from;
    while j <= last && j - from < (96 << 20) {
        if stream[j + 8] == 0x07 && stream[j + 9] == 0x15 {
            if let Some(id) = identify(stream, j, book) {
                return Some((j, id));
            }
        }
        j += 1;
    }
    None
}

fn find_sub(hay: &[u8], needle: &[u8]) -> Option<usize> {
    if needle.is_empty() || hay.len() < needle.len() {
        return None;
    }
    let first = needle[0];
    let last = hay.len() - needle.len();
    let mut i = 0;
    while i <= last {
        if hay[i] == first && &hay[i..i + needle.len()] == needle {
            return Some(i);
        }
        i += 1;
    }
    None
}

fn describe(e: &Expect, n: usize) -> String {
    format!(
        "{} token {:#x} (notify={}, {} bytes = 48 header + {} query {:?} + {} body)",
        e.kind,
        e.token,
        e.notify,
        n,
        e.query.len(),
        crate::common::trunc(&String::from_utf8_lossy(&e.query), 40),
        e.body_len
    )
}

fn follower_text(f: &Ident, at: usize) -> String {
    if f.matched == f.n {
        format!("the COMPLETE frame {} starts at stream offset {at}", describe(f.e, f.n))
    } else if f.matched == f.avail {
        format!("the frame {} starts at stream offset {at} ({} of its {} bytes present, stream ends there)", describe(f.e, f.n), f.matched, f.n)
    } else {
        format!("the frame {} starts at stream offset {at} (its first {} bytes match, then it diverges too)", describe(f.e, f.n), f.matched)
    }
}

/// The frame `e` starting at `pos` matches its expected bytes for `k` bytes, then differs while more
/// bytes are present. Work out what the stream holds at the cut.
fn diagnose(stream: &[u8], pos: usize, k: usize, e: &Expect, exp: &[u8], book: &Book) -> Viol {
    let n = exp.len();
    // the first byte(s) of whatever follows may equal the cut frame's next pattern byte(s) by chance
    // (1/256 per byte): if an identifiable frame starts up to 3 bytes before the first mismatch, that
    // is where the frame was really cut
    let mut k = k;
    for back in 1..=3usize {
        if k >= back && k - back >= HDR && identify(stream, pos + k - back, book).is_some() && identify(stream, pos + k, book).is_none() {
            k -= back;
            break;
        }
    }
    let cut = pos + k;
    let body_off = HDR + e.query.len();
    let where_cut = if k < HDR {
        format!("inside the header (byte {k} of 48)")
    } else if k < body_off {
        format!("inside the query (query byte {})", k - HDR)
    } else {
        format!("after {} of {} body bytes", k - body_off, e.body_len)
    };
    // does the victim's continuation show up later (interleaving) or never (abandoned write)?
    let cont_len = (n - k).min(24);
    let continuation = if n - k >= 12 { find_sub(&stream[cut..], &exp[k..k + cont_len]).map(|i| cut + i) } else { None };
    if let Some(f) = identify(stream, cut, book) {
        let class = if continuation.is_some() { "interleaved-frames" } else { "bytes-after-partial-frame" };
        return Viol {
            class,
            detail: format!(
                "frame {} at stream offset {pos} is cut {where_cut} ({k} of {n} frame bytes on the wire) and immediately after it {}; \
                 the cut frame's remaining {} bytes {}; stream length {}",
                describe(e, n),
                follower_text(&f, cut),
                n - k,
                match continuation {
                    Some(c) => format!("resume later at stream offset {c}"),
                    None => "never appear".to_string(),
                },
                stream.len()
            ),
        };
    }
    let ctx_to = (cut + 24).min(stream.len());
    let next = resync(stream, cut + 1, book);
    Viol {
        class: if continuation.is_some() { "interleaved-frames" } else { "foreign-bytes-in-frame" },
        detail: format!(
            "frame {} at stream offset {pos} matches its submitted content for {k} of {n} bytes ({where_cut}), then the stream holds {} where {} was submitted; {}; {}; stream length {}",
            describe(e, n),
            crate::common::hex(&stream[cut..ctx_to]),
            crate::common::hex(&exp[k..(k + 24).min(n)]),
            match &next {
                Some((j, f)) => format!("{} foreign bytes, then {}", j - cut, follower_text(f, *j)),
                None => "no further identifiable frame start".to_string(),
            },
            match continuation {
                Some(c) => format!("the cut frame's continuation resumes at stream offset {c}"),
                None => "the cut frame's continuation never appears".to_string(),
            },
            stream.len()
        ),
    }
}

/// At `pos` (a frame boundary) the bytes are not an identifiable submitted frame.
fn diagnose_unidentified(stream: &[u8], pos: usize, why: String, book: &Book) -> Viol {
    let next = resync(stream, pos + 1, book);
    let ctx_to = (pos + 64).min(stream.len());
    match next {
        Some((j, f)) => {
            let gap = j - pos;
            let looks_like_prefix = gap < HDR + 128 && (gap < 10 || (stream[pos + 8] == 0x07 && stream[pos + 9] == 0x15));
            Viol {
                class: if looks_like_prefix { "bytes-after-partial-frame" } else { "corrupt-stream" },
                detail: format!(
                    "at frame boundary {pos}: {why}; {gap} bytes ({}) {} and then {}; stream length {}",
                    crate::common::hex_trunc(&stream[pos..ctx_to.min(j)], 64),
                    if looks_like_prefix { "look like the first bytes of an abandoned frame (header/query prefix)" } else { "are not a frame" },
                    follower_text(&f, j),
                    stream.len()
                ),
            }
        }
        None => Viol {
            class: "corrupt-stream",
            detail: format!(
                "at frame boundary {pos}: {why}; bytes {}; no identifiable frame start follows; stream length {}",
                crate::common::hex_trunc(&stream[pos..ctx_to], 64),
                stream.len()
            ),
        },
    }
}

/// Sequential walk: the stream must be `frame* · optional strict prefix of ONE attempted frame`,
/// every complete frame byte-equal to exactly one submitted message.
pub fn walk(stream: &[u8], book: &Book) -> Walk {
    let mut seen = vec![];
    let mut pos = 0usize;
    loop {
        let rest = &stream[pos..];
        if rest.is_empty() {
            return Walk { seen, tail: Tail::Clean, viol: None };
        }
        if rest.len() < HDR {
            // a strict prefix of a header: the magic, when present, must be right
            if rest.len() >= 10 && !(rest[8] == 0x07 && rest[9] == 0x15) {
                let v = diagnose_unidentified(stream, pos, format!("{} trailing bytes that are not a header prefix", rest.len()), book);
                return Walk { seen, tail: Tail::Clean, viol: Some(v) };
            }
            return Walk { seen, tail: Tail::Partial { at: pos, have: rest.len(), need: None, token: None }, viol: None };
        }
        let h = SpecHeader::decode(rest);
        if !h.consistent() {
            let v = diagnose_unidentified(stream, pos, format!("48 bytes that are not a consistent REPE header ({h:?})"), book);
            return Walk { seen, tail: Tail::Clean, viol: Some(v) };
        }
        if h.query_length > 4096 {
            let v = diagnose_unidentified(stream, pos, format!("header declares a {}-byte query, nothing like that was submitted", h.query_length), book);
            return Walk { seen, tail: Tail::Clean, viol: Some(v) };
        }
        let ql = h.query_length as usize;
        if rest.len() < HDR + ql {
            return Walk { seen, tail: Tail::Partial { at: pos, have: rest.len(), need: Some(h.length as usize), token: None }, viol: None };
        }
        let query = &rest[HDR..HDR + ql];
        let Some(e) = book.find(&h, query) else {
            let v = diagnose_unidentified(
                stream,
                pos,
                format!("a frame header (id {}, notify {}, ec {}, {}-byte query {:?}, body_length {}) that matches no submitted message", h.id, h.notify, h.ec, query.len(), crate::common::trunc(&String::from_utf8_lossy(query), 48), h.body_length),
                book,
            );
            let v = Viol { class: if v.class == "corrupt-stream" { "unknown-frame" } else { v.class }, detail: v.detail };
            return Walk { seen, tail: Tail::Clean, viol: Some(v) };
        };
        let exp = expected_bytes(e, h.id);
        let n = exp.len();
        let avail = rest.len().min(n);
        let k = lcp(&rest[..avail], &exp[..avail]);
        if k == n {
            seen.push(Seen { token: e.token, at: pos, len: n, wire_id: h.id });
            pos += n;
            continue;
        }
        if k == avail {
            // everything present matches and the stream ends inside this frame
            return Walk { seen, tail: Tail::Partial { at: pos, have: avail, need: Some(n), token: Some(e.token) }, viol: None };
        }
        let v = diagnose(stream, pos, k, e, &exp, book);
        return Walk { seen, tail: Tail::Clean, viol: Some(v) };
    }
}

#[cfg(test)]
mod tests {
    use super::*;
    fn ex(token: u64, len: usize) -> Expect {
        Expect { token, kind: "t", notify: 1, query: format!("/c05/{token:x}").into_bytes(), body_len: len, fixed_id: None, body_prefix: vec![], body_format: 0, exact_body: None }
    }
    #[test]
    fn walk_classifies() {
        let mut b = Book::default();
        b.add_by_query(ex(1, 100));
        b.add_by_query(ex(2, 5000));
        let f1 = expected_bytes(&ex(1, 100), 7);
        let f2 = expected_bytes(&ex(2, 5000), 8);
        let mut s = f1.clone();
        s.extend_from_slice(&f2);
        let w = walk(&s, &b);
        assert!(w.viol.is_none() && w.seen.len() == 2);
        let mut s = f1.clone();
        s.extend_from_slice(&f2[..3000]);
        let w = walk(&s, &b);
        assert!(w.viol.is_none() && matches!(w.tail, Tail::Partial { have: 3000, .. }));
        let mut s = f2[..3000].to_vec();
        s.extend_from_slice(&f1);
        let w = walk(&s, &b);
        assert_eq!(w.viol.unwrap().class, "bytes-after-partial-frame");
        let mut s = f2[..3000].to_vec();
        s.extend_from_slice(&f1);
        s.extend_from_slice(&f2[3000..]);
        let w = walk(&s, &b);
        assert_eq!(w.viol.unwrap().class, "interleaved-frames");
    }
}
