//! C17, queued-message family: exchanges that put SEVERAL messages into a connection's outbound
//! queue before its writer task runs, with an oversized one that is NOT at the head of the queue.
//!
//! The per-size sweeps in `c17.rs` keep one message in flight per exchange, so the writer task always
//! finds the message under test at the head of an otherwise empty queue. Here the raw peer makes the
//! server enqueue a whole script at once, on every server-side outbound path:
//!  * `queued-handler-notifies-and-response`: one handler pushes a small notify and then an oversized
//!    one through `PeerHandle::send_notify` and returns a small / an oversized response;
//!  * `queued-handler-notify-run`: one handler pushes k notifies within the limit followed by one
//!    oversized (and sometimes more small ones behind it);
//!  * `queued-registry-broadcasts`: `PeerRegistry::broadcast_notify_*` of a small message immediately
//!    followed by an oversized one, to 1..3 raw peers (issued from a task on the server's runtime);
//!  * `pipelined-inline-responses`: several requests written by the raw client in ONE flush whose
//!    inline responses are small, oversized, small ... (some of them also push notifies);
//!  * `pipelined-off-reader-responses`: the same for off-reader handlers, which are all released
//!    together (a gate request holds the reader until they have answered);
//!  * `pipelined-proxy-responses`: pipelined requests through `proxy_connection_with_limits`.
//!
//! Every group runs once with the server on a dedicated CURRENT-THREAD runtime (a handler runs to
//! completion before the writer task is polled, so the queue order is deterministic) and once on a
//! multi-thread runtime (handler and writer race), with `with_outbound_capacity` varied.
//!
//! Oracle (same as the size sweeps): the raw peer's size log never shows a binary message above the
//! limit; an oversized response is replaced by an ec 9 reply with the same id that fits; an oversized
//! notify is never observed and is reported to `on_error`; every message within the limit arrives
//! exactly once, byte-identical to the oracle-codec frame, in queue order; the connection answers a
//! follow-up ping.

use super::{Acc, Got, Rc, Reports, WINDOW, hdr, limit_name, limits_for, pat_str, sized_body};
use crate::common::*;
use crate::oracle;
use futures_util::SinkExt;
use repe::server::{HandlerErased, Router};
use repe::websocket_server::proxy_connection_with_limits;
use repe::{AsyncClient, AsyncServer, BodyFormat, CallContext, ConnectionError, Execution, Message, NotifyBody, PeerHandle, PeerRegistry, RepeError, WebSocketServer};
use serde_json::{Value, json};
use std::collections::{HashMap, HashSet};
use std::net::SocketAddr;
use std::sync::{Arc, Condvar, Mutex};
use std::time::{Duration, Instant};
use tokio::runtime::Handle;
use tokio_tungstenite::tungstenite::Message as WsMsg;

const EVT: &str = "/evt";
const LONG_EVT: &str = "/events/queued/behind/another/message";
const R_INLINE: &str = "/burst";
const R_OFF: &str = "/bburst";

#[derive(Clone, Copy, Debug, Hash, PartialEq, Eq)]
pub enum Kind {
    PushResp,
    KPush,
    Broadcast,
    PipeInline,
    PipeOff,
    PipeProxy,
}
pub const KINDS: [Kind; 6] = [Kind::PushResp, Kind::KPush, Kind::Broadcast, Kind::PipeInline, Kind::PipeOff, Kind::PipeProxy];
impl Kind {
    pub fn name(self) -> &'static str {
        match self {
            Kind::PushResp => "queued-handler-notifies-and-response",
            Kind::KPush => "queued-handler-notify-run",
            Kind::Broadcast => "queued-registry-broadcasts",
            Kind::PipeInline => "pipelined-inline-responses",
            Kind::PipeOff => "pipelined-off-reader-responses",
            Kind::PipeProxy => "pipelined-proxy-responses",
        }
    }
}

#[derive(Clone, Debug)]
pub struct BGroup {
    pub kind: Kind,
    pub limit: usize,
    /// server on a dedicated current-thread runtime (else on the shared multi-thread one)
    pub current_thread: bool,
    /// `with_outbound_capacity`; None = library default
    pub capacity: Option<usize>,
    /// raw peers connected (broadcast groups)
    pub peers: usize,
    pub ncases: usize,
    pub seed: u64,
    pub only_case: Option<usize>,
}
impl BGroup {
    pub fn label(&self) -> String {
        format!("{} limit {} {} capacity {}", self.kind.name(), limit_name(Some(self.limit)), if self.current_thread { "current-thread" } else { "multi-thread" }, self.capacity.map(|c| c.to_string()).unwrap_or("default".into()))
    }
}

pub fn plan(args: &Args) -> Vec<BGroup> {
    let mut rng = Rng::new(args.seed ^ 0xC17_B0_57);
    let mut out = vec![];
    for limit in [1usize << 10, 4 << 10, 64 << 10, 1 << 20] {
        for kind in KINDS {
            for current_thread in [true, false] {
                let capacity = match kind {
                    Kind::PipeProxy => None,
                    Kind::Broadcast => *rng.pick(&[None, Some(64), Some(8)]),
                    Kind::KPush => *rng.pick(&[None, None, Some(64), Some(12), Some(5)]),
                    _ => *rng.pick(&[None, None, Some(64), Some(8), Some(3), Some(2)]),
                };
                let ncases = if limit >= 1 << 20 { args.budget(10, 40) } else { args.budget(30, 160) } as usize;
                out.push(BGroup { kind, limit, current_thread, capacity, peers: if kind == Kind::Broadcast { 1 + rng.below(3) as usize } else { 1 }, ncases: ncases.max(1), seed: rng.next_u64(), only_case: None });
            }
        }
    }
    out
}

pub fn from_replay(v: &Value) -> Option<BGroup> {
    Some(BGroup {
        kind: *KINDS.iter().find(|k| Some(k.name()) == v["path"].as_str())?,
        limit: v["limit"].as_u64()? as usize,
        current_thread: v["current_thread"].as_bool()?,
        capacity: v["capacity"].as_u64().map(|x| x as usize),
        peers: v["peers"].as_u64().unwrap_or(1) as usize,
        ncases: v["case_index"].as_u64()? as usize + 1,
        seed: v["group_seed"].as_str()?.parse().ok()?,
        only_case: Some(v["case_index"].as_u64()? as usize),
    })
}

// ------------------------------------------------------------------ scripts

#[derive(Clone, Debug)]
struct Push {
    method: &'static str,
    /// 0 raw, 1 JSON, 2 UTF-8, 3 bytes labelled BEVE
    fmt: u32,
    size: usize,
    room: bool,
    tok: u64,
}
#[derive(Clone, Debug)]
struct Req {
    off: bool,
    /// response body: 0 raw bytes, 1 JSON string
    rfmt: u32,
    resp_size: usize,
    pushes: Vec<Push>,
    tok: u64,
}
#[derive(Clone, Debug)]
struct Bcast {
    method: &'static str,
    /// 0 raw, 1 JSON string, 2 UTF-8, 3 BEVE string
    fmt: u32,
    size: usize,
    tok: u64,
}
#[derive(Clone, Debug)]
enum Script {
    Requests { reqs: Vec<Req>, gate: bool },
    Broadcasts(Vec<Bcast>),
}

fn ok_size(rng: &mut Rng, l: usize) -> usize {
    match rng.below(7) {
        0 => l,
        1 => l - 1,
        2 => rng.range(160, l as u64) as usize,
        _ => rng.range(160, 700) as usize,
    }
}
fn over_size(rng: &mut Rng, l: usize) -> usize {
    match rng.below(5) {
        0 => l + 1,
        1 => l + 2,
        2 => l + rng.range(3, 128) as usize,
        _ => l + rng.range(128, (l as u64).min(192 << 10)) as usize,
    }
}
fn push(rng: &mut Rng, size: usize) -> Push {
    Push { method: if rng.chance(1, 4) { LONG_EVT } else { EVT }, fmt: rng.below(4) as u32, size, room: rng.coin(), tok: rng.next_u64() >> 12 }
}
fn push_ok(rng: &mut Rng, l: usize) -> Push {
    let s = ok_size(rng, l);
    push(rng, s)
}
fn push_over(rng: &mut Rng, l: usize) -> Push {
    let s = over_size(rng, l);
    push(rng, s)
}
fn req(rng: &mut Rng, off: bool, resp_size: usize, pushes: Vec<Push>) -> Req {
    Req { off, rfmt: rng.below(2) as u32, resp_size, pushes, tok: rng.next_u64() >> 12 }
}

fn gen_case(g: &BGroup, idx: usize, thorough: bool) -> Script {
    let mut rng = Rng::new(g.seed ^ (idx as u64 + 1).wrapping_mul(0x9E37_79B9_7F4A_7C15));
    let l = g.limit;
    let r = &mut rng;
    match g.kind {
        Kind::PushResp => {
            // small notify, oversized notify (sometimes one more small one), then a small / an oversized response
            let mut pushes = vec![push_ok(r, l), push_over(r, l)];
            if r.chance(1, 3) {
                pushes.push(push_ok(r, l));
            }
            if r.chance(1, 5) {
                // a within-limit notify queued behind an oversized HEAD: the head is refused, the rest flows
                pushes.swap(0, 1);
            }
            let resp = if r.coin() { over_size(r, l) } else { ok_size(r, l) };
            let off = r.chance(1, 5);
            Script::Requests { reqs: vec![req(r, off, resp, pushes)], gate: false }
        }
        Kind::KPush => {
            let kmax = if thorough && l <= 4 << 10 { 40 } else if l >= 1 << 20 { 3 } else { 6 };
            let k = 1 + r.below(kmax) as usize;
            let mut pushes: Vec<Push> = (0..k).map(|_| push_ok(r, l)).collect();
            pushes.push(push_over(r, l));
            for _ in 0..r.below(3) {
                let s = if r.chance(1, 4) { over_size(r, l) } else { ok_size(r, l) };
                pushes.push(push(r, s));
            }
            let off = r.chance(1, 6);
            let small = r.range(160, 700) as usize;
            Script::Requests { reqs: vec![req(r, off, small, pushes)], gate: false }
        }
        Kind::Broadcast => {
            let mut b = vec![];
            let mk = |r: &mut Rng, size: usize| Bcast { method: if r.chance(1, 4) { LONG_EVT } else { EVT }, fmt: r.below(4) as u32, size, tok: r.next_u64() >> 12 };
            for _ in 0..1 + r.below(2) {
                let s = ok_size(r, l);
                b.push(mk(r, s));
            }
            let s = over_size(r, l);
            b.push(mk(r, s));
            for _ in 0..r.below(3) {
                let s = if r.chance(1, 3) { over_size(r, l) } else { ok_size(r, l) };
                b.push(mk(r, s));
            }
            Script::Broadcasts(b)
        }
        Kind::PipeInline | Kind::PipeProxy => {
            // small, oversized, small, ... : the first response is always within the limit
            let m = 2 + r.below(if l >= 1 << 20 { 2 } else { 4 }) as usize;
            let mut reqs = vec![];
            for i in 0..m {
                let over = if i == 0 { false } else if i == 1 { true } else { r.coin() };
                let size = if over { over_size(r, l) } else { ok_size(r, l) };
                let mut pushes = vec![];
                if g.kind == Kind::PipeInline && r.chance(1, 4) {
                    for _ in 0..1 + r.below(2) {
                        let s = if r.chance(1, 3) { over_size(r, l) } else { ok_size(r, l) };
                        pushes.push(push(r, s));
                    }
                }
                reqs.push(req(r, false, size, pushes));
            }
            Script::Requests { reqs, gate: false }
        }
        Kind::PipeOff => {
            // released together, answered in any order: with two oversized ones at least one is not at the head
            let m = 2 + r.below(if l >= 1 << 20 { 2 } else { 3 }) as usize;
            let mut sizes: Vec<usize> = vec![over_size(r, l), over_size(r, l)];
            while sizes.len() < m {
                let s = if r.chance(1, 4) { over_size(r, l) } else { ok_size(r, l) };
                sizes.push(s);
            }
            if m == 2 && r.coin() {
                sizes[0] = ok_size(r, l);
            }
            r.shuffle(&mut sizes);
            let reqs = sizes.into_iter().map(|s| req(r, true, s, vec![])).collect();
            Script::Requests { reqs, gate: r.chance(4, 5) }
        }
    }
}

fn describe(g: &BGroup, s: &Script) -> String {
    let d = |size: usize| if size > g.limit { format!("{size}B OVER by {}", size - g.limit) } else { format!("{size}B") };
    match s {
        Script::Requests { reqs, gate } => {
            let mut v = vec![];
            for (i, r) in reqs.iter().enumerate() {
                for p in &r.pushes {
                    v.push(format!("[r{i} notify {} {}]", p.method, d(p.size)));
                }
                v.push(format!("[r{i} {} response {}]", if r.off { "off-reader" } else { "inline" }, d(r.resp_size)));
            }
            format!("{}{}", v.join(" "), if *gate { " +gate" } else { "" })
        }
        Script::Broadcasts(b) => b.iter().map(|b| format!("[broadcast {} fmt {} {}]", b.method, b.fmt, d(b.size))).collect::<Vec<_>>().join(" "),
    }
}

fn notify_bf(fmt: u32) -> u16 {
    match fmt {
        0 => 0,
        1 => 2,
        2 => 3,
        _ => 1,
    }
}

// ------------------------------------------------------------------ handlers

#[derive(Default)]
struct State {
    /// per request token: the outcome of every push, in order
    outcomes: Mutex<HashMap<u64, Vec<String>>>,
    /// gate id → (gate handler entered, off-reader handlers done)
    gates: Mutex<HashMap<u64, (bool, u32)>>,
    cv: Condvar,
    gate_timeouts: Mutex<u64>,
}
impl State {
    /// Off-reader handler: hold the answer until the gate request occupies the reader, then sign off.
    fn worker_wait(&self, gid: u64) {
        let dl = Instant::now() + Duration::from_secs(3);
        let mut m = self.gates.lock().unwrap();
        loop {
            if m.entry(gid).or_default().0 {
                break;
            }
            let left = dl.saturating_duration_since(Instant::now());
            if left.is_zero() {
                *self.gate_timeouts.lock().unwrap() += 1;
                break;
            }
            m = self.cv.wait_timeout(m, left).unwrap().0;
        }
        m.entry(gid).or_default().1 += 1;
        self.cv.notify_all();
    }
    /// Gate handler (inline, so it occupies the reader task): release the off-reader handlers and wait
    /// until they have all returned, plus a moment for their responses to land in the queue.
    fn gate_enter(&self, gid: u64, of: u32) {
        let dl = Instant::now() + Duration::from_secs(3);
        {
            let mut m = self.gates.lock().unwrap();
            m.entry(gid).or_default().0 = true;
            self.cv.notify_all();
            loop {
                if m.entry(gid).or_default().1 >= of {
                    break;
                }
                let left = dl.saturating_duration_since(Instant::now());
                if left.is_zero() {
                    *self.gate_timeouts.lock().unwrap() += 1;
                    break;
                }
                m = self.cv.wait_timeout(m, left).unwrap().0;
            }
            m.remove(&gid);
        }
        std::thread::sleep(Duration::from_millis(8));
    }
}

struct BurstH {
    off: bool,
    st: Arc<State>,
}
impl BurstH {
    fn work(&self, req: &Message, peer: Option<&PeerHandle>) -> Result<Message, RepeError> {
        let v: Value = serde_json::from_slice(&req.body)?;
        let tok = v["tok"].as_u64().unwrap_or(0);
        let b = v["b"].as_u64().unwrap_or(2) as usize;
        let rfmt = v["rfmt"].as_u64().unwrap_or(1) as u32;
        // build everything first so that the pushes below are back to back
        let mut bodies: Vec<(String, NotifyBody)> = vec![];
        for p in v["pushes"].as_array().map(|a| a.as_slice()).unwrap_or(&[]) {
            let (pb, ptok, fmt) = (p["b"].as_u64().unwrap_or(0) as usize, p["tok"].as_u64().unwrap_or(0), p["fmt"].as_u64().unwrap_or(0) as u32);
            let method = p["method"].as_str().unwrap_or(EVT).to_string();
            let Some((_, enc)) = sized_body(ptok, if fmt == 3 { 2 } else { fmt }, pb) else { continue };
            let bytes = if p["room"].as_bool().unwrap_or(false) {
                let mut w = Vec::with_capacity(pb + 48 + method.len() + 7);
                w.extend_from_slice(&enc);
                w
            } else {
                let mut e = enc;
                e.shrink_to_fit();
                e
            };
            let body = match fmt {
                0 => NotifyBody::Raw(bytes, BodyFormat::RawBinary),
                1 => NotifyBody::Json(bytes),
                2 => NotifyBody::Utf8(String::from_utf8(bytes).unwrap_or_default()),
                _ => NotifyBody::Beve(bytes),
            };
            bodies.push((method, body));
        }
        let resp_body = sized_body(tok, rfmt, b).map(|x| x.1).unwrap_or_else(|| b"\"\"".to_vec());
        let mut outcomes = vec![];
        for (method, body) in bodies {
            outcomes.push(match peer {
                None => "nopeer".to_string(),
                Some(p) => match p.send_notify(&method, body) {
                    Ok(()) => "ok".to_string(),
                    Err(e) => format!("{e}"),
                },
            });
        }
        self.st.outcomes.lock().unwrap().insert(tok, outcomes);
        if let Some(gid) = v["gate"].as_u64() {
            self.st.worker_wait(gid);
        }
        Ok(Message::builder()
            .id(req.header.id)
            .query_format_code(req.header.query_format)
            .body_bytes(resp_body)
            .body_format(if rfmt == 0 { BodyFormat::RawBinary } else { BodyFormat::Json })
            .build())
    }
}
impl HandlerErased for BurstH {
    fn handle(&self, req: &Message) -> Result<Message, RepeError> {
        self.work(req, None)
    }
    fn handle_with_ctx(&self, req: &Message, ctx: &CallContext) -> Result<Message, RepeError> {
        self.work(req, ctx.peer())
    }
    fn execution(&self) -> Execution {
        if self.off { Execution::OffReader } else { Execution::Inline }
    }
}

fn router(st: &Arc<State>) -> Router {
    let s2 = st.clone();
    Router::new()
        .with_json("/ping", |v| Ok(json!({ "pong": v["tok"].clone() })))
        .with_json("/gate", move |v| {
            s2.gate_enter(v["gate"].as_u64().unwrap_or(0), v["of"].as_u64().unwrap_or(0) as u32);
            Ok(json!({ "gate": v["gate"].clone() }))
        })
        .with_erased_handler(R_INLINE, Arc::new(BurstH { off: false, st: st.clone() }))
        .with_erased_handler(R_OFF, Arc::new(BurstH { off: true, st: st.clone() }))
}

// ------------------------------------------------------------------ hosts and servers

/// Where the server under test runs: a dedicated current-thread runtime on its own OS thread, or the
/// shared multi-thread server runtime.
struct Host {
    handle: Handle,
    stop: Option<tokio::sync::oneshot::Sender<()>>,
}
impl Host {
    fn current_thread() -> Result<Host, String> {
        let (htx, hrx) = std::sync::mpsc::channel::<Result<Handle, String>>();
        let (stop_tx, stop_rx) = tokio::sync::oneshot::channel::<()>();
        std::thread::Builder::new()
            .name("c17-ct-server".into())
            .spawn(move || {
                let rt = match tokio::runtime::Builder::new_current_thread().enable_all().build() {
                    Ok(rt) => rt,
                    Err(e) => {
                        let _ = htx.send(Err(e.to_string()));
                        return;
                    }
                };
                let _ = htx.send(Ok(rt.handle().clone()));
                rt.block_on(async {
                    let _ = stop_rx.await;
                });
                rt.shutdown_timeout(Duration::from_secs(2));
            })
            .map_err(|e| e.to_string())?;
        let handle = hrx.recv_timeout(Duration::from_secs(10)).map_err(|e| e.to_string())??;
        Ok(Host { handle, stop: Some(stop_tx) })
    }
}
impl Drop for Host {
    fn drop(&mut self) {
        if let Some(s) = self.stop.take() {
            let _ = s.send(());
        }
    }
}

struct Srv {
    addr: SocketAddr,
    peers: PeerRegistry,
    reports: Reports,
    tasks: Vec<tokio::task::JoinHandle<()>>,
}
impl Drop for Srv {
    fn drop(&mut self) {
        for t in &self.tasks {
            t.abort();
        }
    }
}

async fn bind_on(h: &Handle) -> Result<(tokio::net::TcpListener, SocketAddr), String> {
    h.spawn(async {
        let l = tokio::net::TcpListener::bind("127.0.0.1:0").await.map_err(|e| e.to_string())?;
        let a = l.local_addr().map_err(|e| e.to_string())?;
        Ok::<_, String>((l, a))
    })
    .await
    .map_err(|e| e.to_string())?
}

async fn start_ws_server(g: &BGroup, h: &Handle, st: &Arc<State>) -> Result<Srv, String> {
    let (listener, addr) = bind_on(h).await?;
    let peers = PeerRegistry::new();
    let reports: Reports = Arc::new(Mutex::new(vec![]));
    let r2 = reports.clone();
    let mut server = WebSocketServer::new(router(st)).with_peer_registry(peers.clone()).with_limits(limits_for(Some(g.limit))).on_error(move |e| {
        if let ConnectionError::OutboundTooLarge { method, size, limit } = e {
            r2.lock().unwrap().push((method.clone(), *size, *limit));
        }
    });
    if let Some(c) = g.capacity {
        server = server.with_outbound_capacity(c);
    }
    let t = h.spawn(async move {
        let _ = server.serve_listener(listener, "/repe").await;
    });
    Ok(Srv { addr, peers, reports, tasks: vec![t] })
}

async fn start_proxy(g: &BGroup, h: &Handle, st: &Arc<State>) -> Result<Srv, String> {
    let backend_router = router(st);
    let (btx, brx) = tokio::sync::oneshot::channel::<Result<SocketAddr, String>>();
    let t1 = h.spawn(async move {
        let backend = match AsyncServer::listen("127.0.0.1:0").await {
            Ok(b) => b,
            Err(e) => {
                let _ = btx.send(Err(e.to_string()));
                return;
            }
        };
        let _ = btx.send(backend.local_addr().map_err(|e| e.to_string()));
        let _ = AsyncServer::new(backend_router).serve(backend).await;
    });
    let baddr = tokio::time::timeout(Duration::from_secs(10), brx).await.map_err(|_| "backend start timed out".to_string())?.map_err(|e| e.to_string())??;
    let (listener, addr) = bind_on(h).await?;
    let limit = g.limit;
    let t2 = h.spawn(async move {
        loop {
            let Ok((stream, _)) = listener.accept().await else { break };
            tokio::spawn(async move {
                let Ok(upstream) = AsyncClient::connect(baddr).await else { return };
                let Ok(ws) = WebSocketServer::accept(stream, "/repe").await else { return };
                let _ = proxy_connection_with_limits(ws, upstream, limits_for(Some(limit))).await;
            });
        }
    });
    Ok(Srv { addr, peers: PeerRegistry::new(), reports: Arc::new(Mutex::new(vec![])), tasks: vec![t1, t2] })
}

// ------------------------------------------------------------------ oracle

/// One message the server was made to enqueue, in queue order.
#[derive(Clone, Debug)]
struct Exp {
    label: String,
    notify: bool,
    id: u64,
    size: usize,
    /// notify method / response route
    method: String,
    /// the frame the oracle codec builds for the message as it was queued
    want: Vec<u8>,
    /// the library accepted it into the queue (a push may be refused with `Full`)
    queued: bool,
    req: usize,
}

struct Cx<'a> {
    g: &'a BGroup,
    hb: &'a Heartbeat,
    acc: Acc,
    idx: usize,
    desc: String,
}
impl Cx<'_> {
    fn replay(&self) -> Value {
        json!({"burst": true, "path": self.g.kind.name(), "limit": self.g.limit, "current_thread": self.g.current_thread, "capacity": self.g.capacity, "peers": self.g.peers,
               "group_seed": self.g.seed.to_string(), "case_index": self.idx, "script": self.desc})
    }
    fn viol(&mut self, sig: String, detail: String) {
        let d = format!("{detail} [{}; case {} queue order: {}]", self.g.label(), self.idx, self.desc);
        let r = self.replay();
        self.acc.viols.push((sig, d, r));
    }
    fn progress_viol(&mut self, sig: String, detail: String) {
        let gap = self.hb.max_gap_ms();
        if gap > 1000 {
            self.acc.inconcl.push(format!("{sig} suppressed: heartbeat saw a {gap} ms stall ({detail})"));
        } else {
            self.viol(sig, detail);
        }
    }
    fn observe(&mut self, len: usize, what: &str) {
        self.acc.count("binary_messages_observed_by_raw_peer", 1);
        self.acc.max_seen = self.acc.max_seen.max(len);
        if len > self.g.limit {
            let (l, p) = (self.g.limit, self.g.kind.name());
            self.viol(format!("C17:oversized-message-sent:{p}"), format!("raw peer received a binary message of {len} bytes, {} over the assumed peer frame limit {l} ({what})", len - l));
        }
    }
}

/// Read frames until every id in `want_ids` has been answered (or the window closes).
async fn collect(rc: &mut Rc, cx: &mut Cx<'_>, mut want_ids: HashSet<u64>) -> (Vec<Vec<u8>>, Option<String>) {
    let mut got = vec![];
    let dl = Instant::now() + WINDOW;
    while !want_ids.is_empty() {
        match rc.recv(dl).await {
            Got::Timeout => return (got, Some(format!("no frame for {} outstanding request ids within {WINDOW:?}", want_ids.len()))),
            Got::Closed(w) => return (got, Some(format!("connection ended: {w}"))),
            Got::Frame(b) => {
                let parsed = oracle::valid_parse(&b, true);
                let what = match &parsed {
                    Some((h, ql, _)) => format!("{} {} id {} ec {}", if h.notify != 0 { "notify" } else { "response" }, String::from_utf8_lossy(&b[48..48 + ql]), h.id, h.ec),
                    None => "unparseable".to_string(),
                };
                cx.observe(b.len(), &what);
                if let Some((h, _, _)) = parsed {
                    if h.notify == 0 {
                        want_ids.remove(&h.id);
                    }
                }
                got.push(b);
            }
        }
    }
    (got, None)
}

/// Judge what one raw connection received against the queue script. `fifo`: the whole script was
/// enqueued in order by one task (else only the messages of one request are ordered).
/// Returns the number of oversized notifies that were dropped.
fn judge(cx: &mut Cx<'_>, conn: usize, exps: &[Exp], got: &[Vec<u8>], ping_id: u64, ping_tok: u64, fifo: bool) -> usize {
    let p = cx.g.kind.name();
    let limit = cx.g.limit;
    let mut seen: Vec<u32> = vec![0; exps.len()];
    let mut order: Vec<usize> = vec![];
    let mut ping_ok = false;
    let mut ping_bad = false;
    let by_frame: HashMap<&[u8], usize> = exps.iter().enumerate().filter(|(_, e)| e.notify).map(|(i, e)| (e.want.as_slice(), i)).collect();
    for f in got {
        let Some((h, ql, _)) = oracle::valid_parse(f, true) else {
            cx.viol(format!("C17:unexpected-frame:{p}"), format!("peer {conn} received a frame that is not a valid REPE message: {}", hex_trunc(f, 64)));
            continue;
        };
        let q = String::from_utf8_lossy(&f[48..48 + ql]).to_string();
        if h.notify != 0 {
            if let Some(&i) = by_frame.get(f.as_slice()) {
                seen[i] += 1;
                if exps[i].size > limit {
                    cx.viol(format!("C17:oversized-notify-sent:{p}"), format!("peer {conn}: the {}-byte notify {q} ({}) reached the peer; it was queued behind {} other message(s)", f.len(), exps[i].label, i));
                } else {
                    order.push(i);
                }
                continue;
            }
            if let Some(i) = exps.iter().position(|e| e.notify && e.size > limit && e.size == f.len() && e.method == q) {
                seen[i] += 1;
                cx.viol(format!("C17:oversized-notify-sent:{p}"), format!("peer {conn}: a {}-byte notify {q} like {} reached the peer (not byte-identical to what was queued)", f.len(), exps[i].label));
            } else if let Some(i) = exps.iter().position(|e| e.notify && e.size <= limit && e.size == f.len() && e.method == q && e.want[..48] != f[..48]) {
                seen[i] += 1;
                cx.viol(format!("C17:within-limit-message-altered:{p}"), format!("peer {conn}: notify {} arrived with another header: got {}, want {}", exps[i].label, hex(&f[..48]), hex(&exps[i].want[..48])));
            } else {
                cx.viol(format!("C17:unexpected-frame:{p}"), format!("peer {conn}: a {}-byte notify {q} that matches no queued message: {}", f.len(), hex_trunc(f, 64)));
            }
            continue;
        }
        if h.id == ping_id {
            let v: Option<Value> = serde_json::from_slice(&f[48 + ql..]).ok();
            ping_ok = h.ec == 0 && v.map(|v| v["pong"].as_u64() == Some(ping_tok)).unwrap_or(false);
            if !ping_ok {
                ping_bad = true;
                cx.viol(format!("C17:connection-unusable-after:queued-messages:{p}"), format!("peer {conn}: follow-up call answered wrongly: {}", hex_trunc(f, 80)));
            }
            continue;
        }
        let Some(i) = exps.iter().position(|e| !e.notify && e.id == h.id) else {
            if q == "/gate" && h.ec == 0 {
                continue;
            }
            cx.viol(format!("C17:unexpected-frame:{p}"), format!("peer {conn}: a response with id {} ec {} ({} bytes) that answers no request of the case", h.id, h.ec, f.len()));
            continue;
        };
        seen[i] += 1;
        order.push(i);
        let e = &exps[i];
        if e.size > limit {
            if h.ec == 9 && f.len() <= limit {
                cx.acc.count("oversized_responses_replaced_by_ec9_same_id", 1);
                if i > 0 {
                    cx.acc.count("queued_behind_oversized_responses_replaced_by_ec9", 1);
                }
            } else if h.ec == 9 {
                cx.viol(format!("C17:replacement-error-over-limit:{p}"), format!("peer {conn}: the ec 9 replacement for {} is itself {} bytes", e.label, f.len()));
            } else if *f == e.want || f.len() == e.size {
                cx.viol(format!("C17:oversized-response-not-replaced:{p}:sent-as-is"), format!("peer {conn}: the {}-byte response {} was sent unchanged (ec {}); it was queued behind {} other message(s)", f.len(), e.label, h.ec, i));
            } else {
                cx.viol(format!("C17:oversized-response-not-replaced:{p}:ec={}", h.ec), format!("peer {conn}: reply to {} is {} bytes, ec {}: {}", e.label, f.len(), h.ec, hex_trunc(f, 96)));
            }
        } else if *f == e.want {
            cx.acc.count("within_limit_messages_byte_identical", 1);
            if e.size == limit {
                cx.acc.count("messages_exactly_at_limit_delivered", 1);
            }
        } else if h.ec != 0 {
            let at = if e.size == limit { "exactly-at-limit" } else { "below-limit" };
            cx.viol(format!("C17:within-limit-message-refused:{p}:{at}"), format!("peer {conn}: the {}-byte response {} was answered with ec {} instead: {}", e.size, e.label, h.ec, trunc(&String::from_utf8_lossy(&f[48 + ql..]), 140)));
        } else {
            let at = f.iter().zip(e.want.iter()).position(|(a, b)| a != b).unwrap_or(f.len().min(e.want.len()));
            cx.viol(format!("C17:within-limit-message-altered:{p}"), format!("peer {conn}: response {} differs from the oracle frame: got {} bytes, want {}, first difference at byte {at}", e.label, f.len(), e.want.len()));
        }
    }
    if ping_ok {
        cx.acc.count("follow_up_calls_ok", 1);
    } else if !ping_bad {
        cx.progress_viol(format!("C17:connection-unusable-after:queued-messages:{p}"), format!("peer {conn}: the follow-up call got no reply"));
    }
    let ping_ok = ping_ok || ping_bad;
    let mut dropped = 0;
    for (i, e) in exps.iter().enumerate() {
        if !e.queued {
            if seen[i] > 0 {
                cx.viol(format!("C17:unexpected-frame:{p}"), format!("peer {conn}: {} arrived although the push was refused by the library", e.label));
            }
            continue;
        }
        if e.notify && e.size > limit {
            if seen[i] == 0 {
                dropped += 1;
                cx.acc.count("oversized_notifies_dropped", 1);
                if i > 0 {
                    cx.acc.count("queued_behind_oversized_notifies_dropped", 1);
                }
            }
            continue;
        }
        match seen[i] {
            1 => {
                if e.notify {
                    cx.acc.count("within_limit_messages_byte_identical", 1);
                    if e.size == limit {
                        cx.acc.count("messages_exactly_at_limit_delivered", 1);
                    }
                }
            }
            0 if ping_ok && e.notify => {
                let at = if e.size == limit { "exactly-at-limit" } else { "below-limit" };
                cx.viol(format!("C17:within-limit-message-refused:{p}:{at}"), format!("peer {conn}: the {}-byte notify {} never arrived (the replies queued after it did)", e.size, e.label));
            }
            0 if ping_ok => {
                let what = if e.size > limit { "oversized-response-not-replaced" } else { "within-limit-response-lost" };
                cx.progress_viol(format!("C17:{what}:{p}:no-reply"), format!("peer {conn}: no reply to {} (id {})", e.label, e.id));
            }
            0 => {}
            n => cx.viol(format!("C17:unexpected-frame:{p}"), format!("peer {conn}: {} arrived {n} times", e.label)),
        }
    }
    // queue order: FIFO over the whole script, or within each request
    let ordered = |a: usize, b: usize| a < b && (fifo || exps[a].req == exps[b].req);
    for w in 0..order.len() {
        for x in w + 1..order.len() {
            let (a, b) = (order[w], order[x]);
            if a != b && ordered(b, a) {
                cx.viol(format!("C17:queue-order-changed:{p}"), format!("peer {conn}: {} arrived before {}, which was queued first", exps[a].label, exps[b].label));
                return dropped;
            }
        }
    }
    cx.acc.count("connections_with_queue_order_preserved", 1);
    dropped
}

/// Refusal reports `on_error` received for this case: every dropped notify needs its own report
/// (refused responses are reported too, which is counted but not required).
fn check_reports(cx: &mut Cx<'_>, srv: &Srv, exps: &[Exp], dropped: usize, conns: usize) {
    let reps: Vec<(String, usize, usize)> = std::mem::take(&mut *srv.reports.lock().unwrap());
    let p = cx.g.kind.name();
    let limit = cx.g.limit;
    cx.acc.count("on_error_outbound_too_large_reports", reps.len() as u64);
    let notify_reports = reps.iter().filter(|r| r.0 == EVT || r.0 == LONG_EVT).count();
    let mut pool = reps;
    let mut exact = 0;
    for e in exps.iter().filter(|e| e.queued && e.size > limit) {
        for _ in 0..if e.notify { conns } else { 1 } {
            if let Some(i) = pool.iter().position(|r| r.0 == e.method && r.1 == e.size && r.2 == limit) {
                pool.swap_remove(i);
                exact += 1;
            }
        }
    }
    cx.acc.count("on_error_reports_with_exact_method_size_limit", exact);
    if notify_reports < dropped {
        cx.viol(format!("C17:oversized-notify-not-reported:{p}"), format!("{dropped} oversized notifies were dropped but only {notify_reports} OutboundTooLarge reports for notifies reached on_error"));
    }
    if !pool.is_empty() {
        cx.acc.count("on_error_reports_with_other_numbers", pool.len() as u64);
    }
}

fn ping_frame(rc: &mut Rc) -> (u64, u64, Vec<u8>) {
    let id = rc.id();
    let tok = id ^ 0x5A;
    (id, tok, oracle::frame(hdr(id, false, 2, 0), b"/ping", serde_json::to_vec(&json!({ "tok": tok })).unwrap().as_slice()))
}

async fn warm(rc: &mut Rc, cx: &mut Cx<'_>) -> bool {
    let (id, tok, f) = ping_frame(rc);
    if rc.send(f).await.is_err() {
        return false;
    }
    let (got, err) = collect(rc, cx, HashSet::from([id])).await;
    err.is_none()
        && got.last().and_then(|b| {
            let (h, ql, _) = oracle::valid_parse(b, true)?;
            let v: Value = serde_json::from_slice(&b[48 + ql..]).ok()?;
            (h.ec == 0 && v["pong"].as_u64() == Some(tok)).then_some(())
        })
        .is_some()
}

/// Returns false when the connections must be replaced.
async fn run_case(rcs: &mut [Rc], srv: &Srv, host: &Handle, st: &Arc<State>, cx: &mut Cx<'_>, script: &Script) -> bool {
    let g = cx.g;
    let p = g.kind.name();
    let limit = g.limit;
    match script {
        Script::Requests { reqs, gate } => {
            let rc = &mut rcs[0];
            let mut exps: Vec<Exp> = vec![];
            let mut frames = vec![];
            let mut ids = HashSet::new();
            let gid = reqs.first().map(|r| r.tok ^ 0x6A7E).unwrap_or(1);
            for (ri, r) in reqs.iter().enumerate() {
                let route = if r.off { R_OFF } else { R_INLINE };
                let id = rc.id();
                ids.insert(id);
                let mut pj = vec![];
                for (pi, pu) in r.pushes.iter().enumerate() {
                    let b = pu.size - 48 - pu.method.len();
                    let Some((_, body)) = sized_body(pu.tok, if pu.fmt == 3 { 2 } else { pu.fmt }, b) else { continue };
                    pj.push(json!({"b": b, "tok": pu.tok, "fmt": pu.fmt, "room": pu.room, "method": pu.method}));
                    exps.push(Exp {
                        label: format!("r{ri}.notify{pi} {} {}B", pu.method, pu.size),
                        notify: true,
                        id: 0,
                        size: pu.size,
                        method: pu.method.to_string(),
                        want: oracle::frame(hdr(0, true, notify_bf(pu.fmt), 0), pu.method.as_bytes(), &body),
                        queued: true,
                        req: ri,
                    });
                }
                let b = r.resp_size - 48 - route.len();
                let Some((_, body)) = sized_body(r.tok, r.rfmt, b) else {
                    cx.acc.inconcl.push("unsizable response body".into());
                    return true;
                };
                exps.push(Exp {
                    label: format!("r{ri}.response {route} {}B", r.resp_size),
                    notify: false,
                    id,
                    size: r.resp_size,
                    method: route.to_string(),
                    want: oracle::frame(hdr(id, false, if r.rfmt == 0 { 0 } else { 2 }, 0), route.as_bytes(), &body),
                    queued: true,
                    req: ri,
                });
                let mut args = json!({"tok": r.tok, "b": b, "rfmt": r.rfmt, "pushes": pj});
                if *gate {
                    args["gate"] = json!(gid);
                }
                frames.push(oracle::frame(hdr(id, false, 2, 0), route.as_bytes(), &serde_json::to_vec(&args).unwrap()));
            }
            if *gate {
                let id = rc.id();
                ids.insert(id);
                frames.push(oracle::frame(hdr(id, false, 2, 0), b"/gate", &serde_json::to_vec(&json!({"gate": gid, "of": reqs.len()})).unwrap()));
            }
            // everything in ONE flush, then the follow-up call
            let nframes = frames.len();
            for f in frames {
                if let Err(e) = rc.ws.feed(WsMsg::Binary(f)).await {
                    cx.viol(format!("C17:connection-lost:{p}"), format!("cannot write the pipelined requests: {e}"));
                    return false;
                }
            }
            if let Err(e) = rc.ws.flush().await {
                cx.viol(format!("C17:connection-lost:{p}"), format!("cannot flush the pipelined requests: {e}"));
                return false;
            }
            cx.acc.count("requests_pipelined_in_one_flush", nframes as u64);
            let (pid, ptok, pf) = ping_frame(rc);
            ids.insert(pid);
            if let Err(e) = rc.send(pf).await {
                cx.viol(format!("C17:connection-lost:{p}"), format!("cannot write the follow-up call: {e}"));
                return false;
            }
            let (got, err) = collect(rc, cx, ids).await;
            // what the library said about every push
            if g.kind != Kind::PipeProxy {
                let oc = st.outcomes.lock().unwrap();
                let mut k = 0;
                for (ri, r) in reqs.iter().enumerate() {
                    let o = oc.get(&r.tok);
                    let mut pi = 0;
                    while k < exps.len() && exps[k].req == ri && exps[k].notify {
                        let res = o.and_then(|o| o.get(pi)).map(|s| s.as_str()).unwrap_or("handler-did-not-run");
                        if res != "ok" {
                            exps[k].queued = false;
                            cx.acc.count(if res == "peer outbound queue full" { "pushes_refused_queue_full" } else { "pushes_refused_other" }, 1);
                        }
                        k += 1;
                        pi += 1;
                    }
                    k += 1;
                }
            }
            st.outcomes.lock().unwrap().clear();
            if let Some(e) = &err {
                if e.starts_with("connection ended") {
                    cx.viol(format!("C17:connection-unusable-after:queued-messages:{p}"), format!("{e} after {} frames", got.len()));
                }
            }
            let fifo = reqs.iter().all(|r| !r.off);
            let dropped = judge(cx, 0, &exps, &got, pid, ptok, fifo);
            cx.acc.count("messages_queued_by_scripts", exps.iter().filter(|e| e.queued).count() as u64);
            cx.acc.count("oversized_messages_queued_not_at_head", exps.iter().enumerate().filter(|(i, e)| *i > 0 && e.queued && e.size > limit).count() as u64);
            if g.kind != Kind::PipeProxy {
                check_reports(cx, srv, &exps, dropped, 1);
            }
            err.is_none()
        }
        Script::Broadcasts(bs) => {
            if srv.peers.len() != rcs.len() {
                cx.acc.inconcl.push(format!("registry holds {} peers, expected the {} raw clients", srv.peers.len(), rcs.len()));
                return false;
            }
            let mut exps: Vec<Exp> = vec![];
            let mut calls: Vec<(Bcast, usize, Vec<u8>)> = vec![];
            for (i, b) in bs.iter().enumerate() {
                let blen = b.size - 48 - b.method.len();
                let (fmt, (k, body)) = match sized_body(b.tok, b.fmt, blen) {
                    Some(x) => (b.fmt, x),
                    None => (0, sized_body(b.tok, 0, blen).unwrap()),
                };
                exps.push(Exp {
                    label: format!("broadcast{i} {} {}B", b.method, b.size),
                    notify: true,
                    id: 0,
                    size: b.size,
                    method: b.method.to_string(),
                    want: oracle::frame(hdr(0, true, notify_bf(fmt), 0), b.method.as_bytes(), &body),
                    queued: true,
                    req: 0,
                });
                calls.push((Bcast { fmt, ..b.clone() }, k, body));
            }
            // all broadcasts back to back from one task on the server's runtime
            let peers = srv.peers.clone();
            let n = rcs.len();
            let res = host
                .spawn(async move {
                    // payloads first, so that the broadcasts are back to back
                    let texts: Vec<String> = calls.iter().map(|(b, k, _)| if b.fmt == 0 { String::new() } else { pat_str(b.tok, *k) }).collect();
                    let mut bad = vec![];
                    for ((b, _, body), text) in calls.iter().zip(texts) {
                        let r = match b.fmt {
                            0 => Ok(peers.broadcast_notify_raw(b.method, BodyFormat::RawBinary, body)),
                            1 => peers.broadcast_notify_json(b.method, &text),
                            2 => Ok(peers.broadcast_notify_utf8(b.method, text)),
                            _ => peers.broadcast_notify_beve(b.method, &text),
                        };
                        match r {
                            Ok(m) if m.len() == n && m.values().all(|r| r.is_ok()) => {}
                            other => bad.push(format!("{other:?}")),
                        }
                    }
                    bad
                })
                .await;
            match res {
                Ok(bad) if bad.is_empty() => {}
                other => {
                    cx.acc.inconcl.push(format!("broadcast did not queue for every peer: {other:?}"));
                    return false;
                }
            }
            cx.acc.count("broadcasts_issued_back_to_back", bs.len() as u64);
            let mut alive = true;
            let mut dropped = 0;
            for (ci, rc) in rcs.iter_mut().enumerate() {
                // QUIET FIRST: nothing more is sent to this peer until the deliverable broadcasts of the burst have arrived (or a
                // generous window has passed). A message within the limit that shows up only after LATER traffic was sitting in
                // a write buffer: it was not delivered by the send that queued it.
                let deliverable: Vec<&Exp> = exps.iter().filter(|e| e.notify && e.queued && e.size <= limit).collect();
                let mut early: Vec<Vec<u8>> = vec![];
                let quiet_dl = Instant::now() + Duration::from_secs(4);
                while early.iter().filter(|f| deliverable.iter().any(|e| e.want == **f)).count() < deliverable.len() {
                    match rc.recv(quiet_dl).await {
                        Got::Frame(b) => {
                            cx.observe(b.len(), "frame before the follow-up call");
                            early.push(b);
                        }
                        _ => break,
                    }
                }
                let missing_before_ping: Vec<String> = deliverable.iter().filter(|e| !early.iter().any(|f| *f == e.want)).map(|e| format!("{} ({} bytes)", e.label, e.size)).collect();
                let (pid, ptok, pf) = ping_frame(rc);
                if let Err(e) = rc.send(pf).await {
                    cx.viol(format!("C17:connection-lost:{p}"), format!("peer {ci}: cannot write the follow-up call: {e}"));
                    alive = false;
                    continue;
                }
                let (late, err) = collect(rc, cx, HashSet::from([pid])).await;
                if !missing_before_ping.is_empty() {
                    let arrived_late = deliverable.iter().filter(|e| !early.iter().any(|f| *f == e.want) && late.iter().any(|f| *f == e.want)).count();
                    if arrived_late > 0 && cx.hb.max_gap_ms() < 1000 {
                        cx.viol(format!("C17:deliverable-message-held-back:{p}"), format!("peer {ci}: {arrived_late} broadcast(s) within the limit ({}) had not arrived 4 s after the burst and arrived only after the peer's next request was answered: they were queued but not flushed", missing_before_ping.join(", ")));
                    } else if arrived_late > 0 {
                        cx.acc.inconcl.push("a deliverable broadcast arrived late but the machine stalled".into());
                    }
                } else {
                    cx.acc.count("deliverable_broadcasts_arrived_before_any_later_traffic", deliverable.len() as u64);
                }
                let mut got = early;
                got.extend(late);
                if let Some(e) = &err {
                    alive = false;
                    if e.starts_with("connection ended") {
                        cx.viol(format!("C17:connection-unusable-after:queued-messages:{p}"), format!("peer {ci}: {e} after {} frames", got.len()));
                    }
                }
                dropped += judge(cx, ci, &exps, &got, pid, ptok, true);
                cx.acc.count("messages_queued_by_scripts", exps.len() as u64);
                cx.acc.count("oversized_messages_queued_not_at_head", exps.iter().enumerate().filter(|(i, e)| *i > 0 && e.size > limit).count() as u64);
            }
            check_reports(cx, srv, &exps, dropped, n);
            alive
        }
    }
}

pub async fn run_group(g: &BGroup, hb: &Heartbeat, mt: &Handle, thorough: bool) -> Acc {
    let mut cx = Cx { g, hb, acc: Acc::default(), idx: 0, desc: String::new() };
    let host = if g.current_thread {
        match Host::current_thread() {
            Ok(h) => h,
            Err(e) => {
                cx.acc.inconcl.push(format!("current-thread server runtime: {e}"));
                return cx.acc;
            }
        }
    } else {
        Host { handle: mt.clone(), stop: None }
    };
    let st = Arc::new(State::default());
    let srv = match if g.kind == Kind::PipeProxy { start_proxy(g, &host.handle, &st).await } else { start_ws_server(g, &host.handle, &st).await } {
        Ok(s) => s,
        Err(e) => {
            cx.acc.inconcl.push(format!("server setup: {e}"));
            return cx.acc;
        }
    };
    let mut rcs: Vec<Rc> = vec![];
    let mut reconnects = 0u64;
    for idx in 0..g.ncases {
        if g.only_case.map(|o| o != idx).unwrap_or(false) {
            continue;
        }
        if rcs.is_empty() {
            for _ in 0..g.peers {
                match Rc::connect(srv.addr).await {
                    Ok(mut r) => {
                        if !warm(&mut r, &mut cx).await {
                            cx.acc.inconcl.push("fresh connection does not answer a ping".into());
                            return cx.acc;
                        }
                        rcs.push(r);
                    }
                    Err(e) => {
                        cx.acc.inconcl.push(format!("raw client connect: {e}"));
                        return cx.acc;
                    }
                }
            }
        }
        let script = gen_case(g, idx, thorough);
        cx.idx = idx;
        cx.desc = describe(g, &script);
        cx.acc.evals += 1;
        cx.acc.distinct_h.push(hash_of(&(g.kind, g.limit, g.current_thread, g.capacity, g.peers, &cx.desc)));
        cx.acc.count("queued_cases", 1);
        cx.acc.count(if g.current_thread { "queued_cases_on_current_thread_runtime" } else { "queued_cases_on_multi_thread_runtime" }, 1);
        let before = cx.acc.viols.len();
        let alive = run_case(&mut rcs, &srv, &host.handle, &st, &mut cx, &script).await;
        if cx.acc.samples.is_empty() && cx.acc.viols.len() == before && idx == 1 {
            cx.acc.samples.push(json!({"path": g.kind.name(), "group": g.label(), "queue": cx.desc, "verdict": "oversized refused, the rest delivered byte-identical in order"}));
        }
        if !alive {
            for mut r in rcs.drain(..) {
                let _ = tokio::time::timeout(Duration::from_secs(1), r.ws.close(None)).await;
            }
            std::mem::take(&mut *srv.reports.lock().unwrap());
            reconnects += 1;
            if reconnects > 2 {
                break;
            }
            let dl = Instant::now() + Duration::from_secs(5);
            while srv.peers.len() > 0 && Instant::now() < dl {
                tokio::time::sleep(Duration::from_millis(5)).await;
            }
        }
    }
    for mut r in rcs.drain(..) {
        let _ = tokio::time::timeout(Duration::from_secs(1), r.ws.close(None)).await;
    }
    cx.acc.count("reconnects_after_failures", reconnects);
    cx.acc.count("gate_timeouts", *st.gate_timeouts.lock().unwrap());
    drop(srv);
    drop(host);
    cx.acc
}
