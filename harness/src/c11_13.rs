//! C11 (flow-control accounting) and C13 (replay ring / resume) — reference-model monitors over
//! `repe::TransferControl`. The model below is written from the property statements, not from the
//! implementation; after every checked operation every observer of the implementation is compared
//! with the model and the stated invariants are asserted directly.

use crate::common::*;
use repe::{CreditError, NotifyBody, PeerHandle, PeerId, PeerSendError, PeerSink, ReconnectOutcome, ResumeRejection, RingChunk, TransferControl};
use std::sync::atomic::{AtomicU64, Ordering};
use serde_json::{Value, json};
use std::sync::Arc;
use std::time::{Duration, Instant};

struct NullSink;
impl PeerSink for NullSink {
    fn send_notify(&self, _m: &str, _b: NotifyBody) -> Result<(), PeerSendError> {
        Ok(())
    }
}
/// A sink whose advisory `is_connected()` says "no" (a transport that is going away, or an embedder that answers
/// conservatively): flow control and resume handling must not depend on it.
struct DownSink;
impl PeerSink for DownSink {
    fn is_connected(&self) -> bool {
        false
    }
    fn send_notify(&self, _m: &str, _b: NotifyBody) -> Result<(), PeerSendError> {
        Ok(())
    }
}
/// odd ids get the sink that reports "not connected"
fn peer(id: u64) -> PeerHandle {
    if id % 2 == 1 { PeerHandle::new(PeerId(id), Arc::new(DownSink)) } else { PeerHandle::new(PeerId(id), Arc::new(NullSink)) }
}

#[derive(Clone, Debug, PartialEq, Eq, Hash)]
pub enum Op {
    /// documented producer step: wait_for_credit(c); if granted push_replay(next, c, wire=c+ovh) and record_sent(next+c)
    Send { c: u64, ovh: u64 },
    /// record_sent with a value not above the current sent offset (must be ignored)
    SentStale { back: u64 },
    /// record_sent(sent + ahead) WITHOUT a push to the replay ring (the ring is optional; bytes can go out that were never staged)
    SentAhead { ahead: u64 },
    Ack { file: u32, off: u64 },
    Cancel { reason: u8 },
    /// cancel with a literal text (wording observed from the library's own idle watchdog)
    CancelText(String),
    Advance { file: u32 },
    Resume { peer: u64, file: u32, off: u64 },
    /// pure predicate: wait_for_credit with an already expired deadline
    Credit { c: u64 },
    /// wait_for_reconnect(0)
    Reconnect,
    /// push_replay only (C13): data_len d, wire length d+ovh
    Push { d: u64, ovh: u64, last: bool },
}

#[derive(Clone, Debug, PartialEq, Eq)]
enum Res {
    Unit,
    Sent(bool),
    Resume(Result<u64, &'static str>),
    Credit(Result<(), String>),
    Reconnect(Result<u64, String>),
}

#[derive(Clone)]
struct Chunk {
    off: u64,
    d: u64,
    last: bool,
    bytes: Vec<u8>,
}

#[derive(Clone)]
struct Model {
    window: u64,
    cap: u64,
    sent: u64,
    acked: u64,
    file: u32,
    cancelled: Option<String>,
    ring: Vec<Chunk>,
    next_off: u64,
    peer: Option<u64>,
    pending: Option<u64>,
    tok: u64,
}

impl Model {
    fn new(window: u64, cap: u64) -> Model {
        Model { window, cap, sent: 0, acked: 0, file: 0, cancelled: None, ring: vec![], next_off: 0, peer: None, pending: None, tok: 0 }
    }
    fn grant(&self, c: u64) -> Result<(), String> {
        if let Some(r) = &self.cancelled {
            return Err(format!("cancelled:{r}"));
        }
        let in_flight = (self.sent - self.acked) as u128;
        if in_flight == 0 || in_flight + c as u128 <= self.window as u128 {
            Ok(())
        } else {
            Err("timeout".into())
        }
    }
    fn body(&mut self, wire: u64) -> Vec<u8> {
        self.tok += 1;
        let t = self.tok;
        (0..wire).map(|i| (t as u8).wrapping_mul(31).wrapping_add(i as u8)).collect()
    }
    fn push(&mut self, d: u64, ovh: u64, last: bool) -> Vec<u8> {
        // wire length differs from the logical length (envelope overhead; huge logical chunks are
        // represented by a short wire body so the harness does not allocate them)
        let bytes = self.body(d.min(16) + ovh);
        self.ring.push(Chunk { off: self.next_off, d, last, bytes: bytes.clone() });
        self.next_off += d;
        // retain the most recent chunk; otherwise never more than `cap` wire bytes, evicting oldest first
        while self.ring.len() > 1 && self.ring.iter().map(|c| c.bytes.len() as u64).sum::<u64>() > self.cap {
            self.ring.remove(0);
        }
        bytes
    }
    fn covers(&self, off: u64) -> bool {
        if self.ring.is_empty() {
            return off == 0;
        }
        self.ring.iter().any(|c| c.off == off) || off == self.next_off
    }
}

/// Number of entries of the reason table below.
const REASONS: u64 = 12;
/// reason 0 is the EMPTY string (a bare cancel without a text): it is a first reason like any other. The property does not
/// depend on WHO cancelled or with WHICH text, so the table also holds the wording the library's own idle watchdog uses
/// (an embedder's watchdog or a user may pass the very same string), near misses of it, blank, long and non-ASCII texts.
fn reason(r: u8) -> String {
    match r {
        0 => String::new(),
        3 => "transfer idle".into(),
        4 => " ".into(),
        5 => "client cancelled".into(),
        6 => format!("{}transfer idle", "x".repeat(5000)),
        7 => "\u{4f20}\u{8f93}\u{7a7a}\u{95f2} \u{2014} \u{dc}bertragung unt\u{e4}tig \u{23f1}".into(),
        8 => "Transfer idle".into(),
        9 => "transfer idle ".into(),
        10 => "idle".into(),
        11 => "transfer idle\0".into(),
        _ => format!("reason-{r}"),
    }
}

/// Results of earlier operations that a caller may keep alive for as long as it likes (a replay in progress, a chunk queued
/// for resend, another handle on the control, the peer of an earlier resume). Holding one must not change what the ring retains
/// or any other observable: the model is the same with and without them.
#[allow(dead_code)]
enum Held {
    Snap(Vec<RingChunk>),
    Chunk(RingChunk),
    Body(Arc<Vec<u8>>),
    Ctl(Arc<TransferControl>),
    Peer(PeerHandle),
}
#[derive(Clone, Copy, PartialEq)]
enum Hold {
    None,
    /// keep the result of replay_chunks_from(0) taken after EVERY operation alive to the end of the history
    All,
    /// take / drop held results at random points (seeded)
    Random(u64),
}
#[derive(Default)]
struct HoldStats {
    taken: AtomicU64,
    dropped: AtomicU64,
    pushes_with_ring_results_alive: AtomicU64,
    max_alive: AtomicU64,
}

/// Apply `op` to the implementation and to the model; returns (impl result, model result).
fn apply(ctl: &TransferControl, m: &mut Model, op: &Op) -> (Res, Res) {
    let expired = Instant::now();
    let credit = |c: u64| -> Result<(), String> {
        match ctl.wait_for_credit(c, expired) {
            Ok(()) => Ok(()),
            Err(CreditError::Cancelled(r)) => Err(format!("cancelled:{r}")),
            Err(CreditError::Timeout) => Err("timeout".into()),
        }
    };
    match op {
        Op::Send { c, ovh } => {
            let gi = credit(*c);
            let gm = m.grant(*c);
            if gi.is_ok() && gm.is_ok() {
                let off = m.next_off;
                let bytes = m.push(*c, *ovh, false);
                ctl.push_replay(off, *c, false, bytes);
                ctl.record_sent(off + *c);
                if off + *c > m.sent {
                    m.sent = off + *c;
                }
            }
            (Res::Sent(gi.is_ok()), Res::Sent(gm.is_ok()))
        }
        Op::SentStale { back } => {
            ctl.record_sent(m.sent.saturating_sub(*back));
            (Res::Unit, Res::Unit)
        }
        Op::SentAhead { ahead } => {
            let new = m.sent.saturating_add(*ahead);
            ctl.record_sent(new);
            m.sent = new;
            (Res::Unit, Res::Unit)
        }
        Op::Ack { file, off } => {
            ctl.record_ack(*file, *off);
            if *file == m.file {
                let capped = (*off).min(m.sent);
                if capped > m.acked {
                    m.acked = capped;
                }
            }
            (Res::Unit, Res::Unit)
        }
        Op::Cancel { reason: r } => {
            ctl.cancel(reason(*r));
            if m.cancelled.is_none() {
                m.cancelled = Some(reason(*r));
            }
            (Res::Unit, Res::Unit)
        }
        Op::CancelText(t) => {
            ctl.cancel(t.clone());
            if m.cancelled.is_none() {
                m.cancelled = Some(t.clone());
            }
            (Res::Unit, Res::Unit)
        }
        Op::Advance { file } => {
            ctl.advance_to_file(*file);
            m.file = *file;
            m.sent = 0;
            m.acked = 0;
            m.ring.clear();
            m.next_off = 0;
            m.pending = None;
            (Res::Unit, Res::Unit)
        }
        Op::Resume { peer: p, file, off } => {
            let ri = match ctl.request_resume(peer(*p), *file, *off) {
                Ok(o) => Ok(o),
                Err(ResumeRejection::Cancelled) => Err("cancelled"),
                Err(ResumeRejection::WrongFileIndex { .. }) => Err("wrong-file"),
                Err(ResumeRejection::OutOfWindow) => Err("out-of-window"),
            };
            let rm = if m.cancelled.is_some() {
                Err("cancelled")
            } else if *file != m.file {
                Err("wrong-file")
            } else if !m.covers(*off) {
                Err("out-of-window")
            } else {
                m.peer = Some(*p);
                m.pending = Some(*off);
                if *off > m.acked && *off <= m.sent {
                    m.acked = *off;
                }
                Ok(*off)
            };
            (Res::Resume(ri), Res::Resume(rm))
        }
        Op::Credit { c } => (Res::Credit(credit(*c)), Res::Credit(m.grant(*c))),
        Op::Reconnect => {
            let ri = match ctl.wait_for_reconnect(Duration::ZERO) {
                ReconnectOutcome::ResumeReady(p) => Ok(p.resume_at_offset),
                ReconnectOutcome::Cancelled(r) => Err(format!("cancelled:{r}")),
                ReconnectOutcome::Timeout => Err("timeout".into()),
            };
            let rm = if let Some(r) = &m.cancelled {
                Err(format!("cancelled:{r}"))
            } else if let Some(o) = m.pending.take() {
                Ok(o)
            } else {
                Err("timeout".into())
            };
            (Res::Reconnect(ri), Res::Reconnect(rm))
        }
        Op::Push { d, ovh, last } => {
            let off = m.next_off;
            let bytes = m.push(*d, *ovh, *last);
            ctl.push_replay(off, *d, *last, bytes);
            (Res::Unit, Res::Unit)
        }
    }
}

/// Compare every observer with the model and assert the stated invariants. Returns Some((sig, detail)).
fn check(ctl: &TransferControl, m: &Model, before: &Model, op: &Op, ri: &Res, rm: &Res, c13: bool) -> Option<(String, String)> {
    let p = if c13 { "C13" } else { "C11" };
    let opn = format!("{op:?}");
    let opn = opn.split([' ', '{', '(']).next().unwrap_or("").to_string();
    // direct invariants from the statement: cancellation is permanent, a resume after it is refused, no credit after it
    if before.cancelled.is_some() {
        if let Res::Resume(Ok(_)) = ri {
            return Some((format!("{p}:resume-after-cancel"), format!("{op:?} accepted after cancel (reason {:?}); cancel_reason() is now {:?}", before.cancelled, ctl.cancel_reason())));
        }
        if let Res::Credit(Ok(())) | Res::Sent(true) = ri {
            return Some((format!("{p}:credit-after-cancel"), format!("{op:?} granted after cancel")));
        }
    }
    if ri != rm {
        return Some((format!("{p}:result:{opn}"), format!("{op:?} returned {ri:?}, model says {rm:?}")));
    }
    let (sent, acked) = ctl.offsets();
    if acked > sent {
        return Some((format!("{p}:acked-exceeds-sent"), format!("after {op:?}: acked {acked} > sent {sent}")));
    }
    if (sent, acked) != (m.sent, m.acked) {
        return Some((format!("{p}:offsets:{opn}"), format!("after {op:?}: offsets() = ({sent},{acked}), model ({},{})", m.sent, m.acked)));
    }
    if ctl.is_cancelled() != m.cancelled.is_some() || ctl.cancel_reason() != m.cancelled {
        return Some((format!("{p}:cancel-state:{opn}"), format!("after {op:?}: cancel_reason() = {:?}, model {:?}", ctl.cancel_reason(), m.cancelled)));
    }
    // direct invariants from the statement
    if let Op::Ack { file, off } = op {
        if (*file != before.file || *off <= before.acked) && (sent, acked) != (before.sent, before.acked) {
            return Some((format!("{p}:stale-ack-released-credit"), format!("{op:?} changed offsets from ({},{}) to ({sent},{acked})", before.sent, before.acked)));
        }
    }
    if let (Op::Send { c, .. }, Res::Sent(true)) = (op, ri) {
        let inflight_before = before.sent - before.acked;
        let inflight_after = sent - acked;
        // (only when no earlier pushed-but-unsent chunk is being accounted together with this one)
        if before.next_off == before.sent && !(inflight_before == 0 || inflight_after as u128 <= before.window as u128) {
            return Some((format!("{p}:over-grant"), format!("credit for {c} granted with {inflight_before} in flight and window {}", before.window)));
        }
    }
    // the credit predicate as a pure function of the observable state (every probe length)
    for c in [0u64, 1, 2, 3, m.window, m.window.wrapping_add(1).max(1)] {
        let c = c.min(1 << 48);
        let gi = ctl.wait_for_credit(c, Instant::now()).map_err(|e| match e {
            CreditError::Cancelled(r) => format!("cancelled:{r}"),
            CreditError::Timeout => "timeout".to_string(),
        });
        if gi != m.grant(c) {
            return Some((format!("{p}:credit-predicate"), format!("after {op:?}: wait_for_credit({c}) = {gi:?} with offsets ({sent},{acked}) window {}, model {:?}", m.window, m.grant(c))));
        }
    }
    // replay ring
    let ring = ctl.replay_chunks_from(0);
    let held: u64 = ring.iter().map(|c| c.body_bytes.len() as u64).sum();
    if held > m.cap && ring.len() != 1 {
        return Some((format!("{p}:ring-over-capacity"), format!("ring holds {held} wire bytes in {} chunks, capacity {}", ring.len(), m.cap)));
    }
    let same = ring.len() == m.ring.len()
        && ring.iter().zip(m.ring.iter()).all(|(a, b)| a.offset == b.off && a.data_len == b.d && a.last == b.last && *a.body_bytes == b.bytes);
    if !same {
        return Some((
            format!("{p}:ring-content:{opn}"),
            format!("after {op:?}: ring holds {:?}, model {:?}", ring.iter().map(|c| (c.offset, c.data_len, c.body_bytes.len())).collect::<Vec<_>>(), m.ring.iter().map(|c| (c.off, c.d, c.bytes.len())).collect::<Vec<_>>()),
        ));
    }
    for w in ring.windows(2) {
        if w[0].offset + w[0].data_len != w[1].offset {
            return Some((format!("{p}:ring-gap"), format!("ring chunks not contiguous: {}+{} then {}", w[0].offset, w[0].data_len, w[1].offset)));
        }
    }
    if let (Op::Resume { peer: pid, off, .. }, Res::Resume(Ok(_))) = (op, ri) {
        let tail = ctl.replay_chunks_from(*off);
        let mut at = *off;
        for ch in &tail {
            if ch.offset != at {
                return Some((format!("{p}:resume-tail-gap"), format!("accepted resume at {off}: replay tail has chunk at {} where {at} was expected", ch.offset)));
            }
            at += ch.data_len;
        }
        if at != m.next_off {
            return Some((format!("{p}:resume-tail-short"), format!("accepted resume at {off}: replay tail ends at {at}, last emitted byte is {}", m.next_off)));
        }
        if ctl.peer().map(|h| h.peer_id().0) != Some(*pid) {
            return Some((format!("{p}:resume-peer"), format!("accepted resume did not install peer {pid}")));
        }
    }
    if ctl.peer().map(|h| h.peer_id().0) != m.peer {
        return Some((format!("{p}:peer-slot:{opn}"), format!("after {op:?}: peer() = {:?}, model {:?}", ctl.peer().map(|h| h.peer_id().0), m.peer)));
    }
    if let Op::Advance { .. } = op {
        if !ring.is_empty() {
            return Some((format!("{p}:advance-keeps-ring"), "ring not empty after advance".into()));
        }
    }
    None
}

fn run_seq(window: u64, cap: u64, ops: &[Op], check_from: usize, c13: bool, hold: Hold, hs: &HoldStats) -> Option<(usize, String, String)> {
    let ctl = TransferControl::with_replay_capacity(window, cap);
    let mut m = Model::new(window, cap);
    // results of earlier operations kept alive across later ones (declared after `ctl`, so dropped before it)
    let mut held: Vec<Held> = vec![];
    let mut hr = if let Hold::Random(s) = hold { Some(Rng::new(s)) } else { None };
    let (mut taken, mut dropped, mut pushes_live, mut max_alive) = (0u64, 0u64, 0u64, 0u64);
    let flush = |taken: u64, dropped: u64, pushes_live: u64, max_alive: u64| {
        if hold != Hold::None {
            hs.taken.fetch_add(taken, Ordering::Relaxed);
            hs.dropped.fetch_add(dropped, Ordering::Relaxed);
            hs.pushes_with_ring_results_alive.fetch_add(pushes_live, Ordering::Relaxed);
            hs.max_alive.fetch_max(max_alive, Ordering::Relaxed);
        }
    };
    for (i, op) in ops.iter().enumerate() {
        if matches!(op, Op::Push { .. } | Op::Send { .. }) && held.iter().any(|h| matches!(h, Held::Snap(v) if !v.is_empty()) || matches!(h, Held::Chunk(_) | Held::Body(_))) {
            pushes_live += 1;
        }
        let before = if i >= check_from { Some(m.clone()) } else { None };
        let (ri, rm) = apply(&ctl, &mut m, op);
        if let Some(b) = before {
            if let Some((sig, d)) = check(&ctl, &m, &b, op, &ri, &rm, c13) {
                flush(taken, dropped, pushes_live, max_alive);
                return Some((i, sig, d));
            }
        }
        match hold {
            Hold::None => {}
            Hold::All => {
                held.push(Held::Snap(ctl.replay_chunks_from(0)));
                taken += 1;
            }
            Hold::Random(_) => {
                let r = hr.as_mut().unwrap();
                if r.chance(1, 3) {
                    let h = match r.below(8) {
                        0 | 1 => Some(Held::Snap(ctl.replay_chunks_from(0))),
                        2 => {
                            let from = if m.ring.is_empty() || r.chance(1, 4) { r.below(40) } else { m.ring[r.usize_below(m.ring.len())].off };
                            Some(Held::Snap(ctl.replay_chunks_from(from)))
                        }
                        3 => {
                            let v = ctl.replay_chunks_from(0);
                            if v.is_empty() { None } else { Some(Held::Chunk(v[r.usize_below(v.len())].clone())) }
                        }
                        4 | 5 => ctl.replay_chunks_from(0).first().map(|c| Held::Body(c.body_bytes.clone())),
                        6 => Some(Held::Ctl(ctl.clone())),
                        _ => ctl.peer().map(Held::Peer),
                    };
                    if let Some(h) = h {
                        held.push(h);
                        taken += 1;
                    }
                }
                if !held.is_empty() && r.chance(1, 5) {
                    let k = r.usize_below(held.len());
                    held.swap_remove(k);
                    dropped += 1;
                }
                if !held.is_empty() && r.chance(1, 30) {
                    dropped += held.len() as u64;
                    held.clear();
                }
            }
        }
        max_alive = max_alive.max(held.len() as u64);
    }
    flush(taken, dropped, pushes_live, max_alive);
    // pending resume is consumed exactly once (checked at the end so it does not perturb the history)
    if check_from < ops.len() || ops.is_empty() {
        let first = matches!(ctl.wait_for_reconnect(Duration::ZERO), ReconnectOutcome::ResumeReady(_));
        let second = matches!(ctl.wait_for_reconnect(Duration::ZERO), ReconnectOutcome::ResumeReady(_));
        let want = m.cancelled.is_none() && m.pending.is_some();
        if first != want || second {
            let p = if c13 { "C13" } else { "C11" };
            return Some((ops.len(), format!("{p}:pending-resume-consumption"), format!("at end: wait_for_reconnect gave ResumeReady={first} then {second}; model pending={:?} cancelled={:?}", m.pending, m.cancelled)));
        }
    }
    None
}

fn alphabet(c13: bool) -> Vec<Op> {
    if c13 {
        vec![
            Op::Push { d: 1, ovh: 0, last: false },
            Op::Push { d: 2, ovh: 3, last: false },
            Op::Push { d: 0, ovh: 2, last: true },
            Op::Resume { peer: 7, file: 0, off: 0 },
            Op::Resume { peer: 8, file: 0, off: 1 },
            Op::Resume { peer: 9, file: 0, off: 3 },
            Op::Resume { peer: 6, file: 1, off: 2 },
            Op::Advance { file: 1 },
            Op::Cancel { reason: 1 },
        ]
    } else {
        vec![
            Op::Send { c: 1, ovh: 0 },
            Op::Send { c: 3, ovh: 1 },
            Op::Ack { file: 0, off: 1 },
            Op::Ack { file: 0, off: u64::MAX },
            Op::Ack { file: 1, off: 2 },
            Op::Cancel { reason: 0 },
            Op::Cancel { reason: 2 },
            Op::Advance { file: 1 },
            Op::Resume { peer: 5, file: 0, off: 1 },
            Op::Resume { peer: 6, file: 1, off: 0 },
            Op::SentStale { back: 1 },
            // a chunk pushed to the replay ring whose send then failed (documented loop: push before send,
            // record_sent only after a successful send): the ring's trailing edge runs ahead of `sent`
            Op::Push { d: 2, ovh: 0, last: false },
            Op::Resume { peer: 7, file: 0, off: 3 },
        ]
    }
}

fn random_op(r: &mut Rng, m_file_hint: u32, c13: bool) -> Op {
    let file = if r.chance(3, 4) { m_file_hint } else { r.below(4) as u32 };
    let small = |r: &mut Rng| r.below(12);
    let chunk = |r: &mut Rng| match r.below(6) {
        0 => 0,
        1 => 1 << r.below(49),
        2 => (1 << 48) - r.below(3),
        _ => 1 + r.below(64),
    };
    if c13 {
        match r.below(12) {
            0..=5 => Op::Push { d: if r.chance(1, 8) { 0 } else { 1 + r.below(9) }, ovh: if r.coin() { 0 } else { r.below(12) }, last: r.chance(1, 10) },
            6..=8 => Op::Resume { peer: 1 + r.below(1000), file, off: if r.coin() { small(r) * 3 } else { r.below(60) } },
            9 => if r.coin() { Op::Advance { file: r.below(3) as u32 } } else if r.coin() { Op::SentAhead { ahead: 1 + r.below(12) } } else { Op::Ack { file, off: if r.coin() { u64::MAX } else { r.below(40) } } },
            10 => if r.chance(1, 6) { Op::Cancel { reason: r.below(REASONS) as u8 } } else { Op::Reconnect },
            _ => Op::Reconnect,
        }
    } else {
        match r.below(16) {
            0..=4 => Op::Send { c: chunk(r), ovh: 0 },
            5..=7 => Op::Ack { file, off: match r.below(4) { 0 => r.boundary_u64(), 1 => u64::MAX, _ => small(r) * 7 } },
            8 => Op::Ack { file: file.wrapping_add(1), off: r.boundary_u64() },
            9 => Op::Credit { c: chunk(r) },
            10 => Op::Advance { file: r.below(3) as u32 },
            11 => Op::Resume { peer: 1 + r.below(1000), file, off: if r.coin() { r.boundary_u64() } else { small(r) } },
            12 => if r.coin() { Op::SentStale { back: r.below(5) } } else { Op::SentAhead { ahead: 1 + r.below(9) } },
            13 => if r.chance(1, 5) { Op::Cancel { reason: r.below(REASONS) as u8 } } else { Op::Credit { c: small(r) } },
            14 => if r.coin() { Op::Reconnect } else { Op::Push { d: 1 + r.below(9), ovh: r.below(3), last: false } },
            _ => Op::Send { c: 1 + r.below(8), ovh: r.below(3) },
        }
    }
}

/// Next operation chosen with knowledge of the model state, so that resumes that WOULD be valid (current file, a retained
/// chunk boundary / the trailing edge) are frequent, next to invalid ones, waits, acks, sends and (if `cancels`) further cancels.
fn guided_op(r: &mut Rng, m: &Model, cancels: bool) -> Op {
    let boundary = |r: &mut Rng| -> u64 {
        if m.ring.is_empty() {
            0
        } else if r.chance(1, 4) {
            m.next_off
        } else {
            m.ring[r.usize_below(m.ring.len())].off
        }
    };
    match r.below(14) {
        0..=2 => Op::Send { c: 1 + r.below(8), ovh: r.below(3) },
        3 => Op::Ack { file: m.file, off: if r.coin() { boundary(r) } else { r.below(m.sent.saturating_add(2)) } },
        4..=6 => Op::Resume { peer: 1 + r.below(1000), file: m.file, off: boundary(r) },
        7 => {
            if r.coin() {
                Op::Resume { peer: 1 + r.below(1000), file: m.file.wrapping_add(1 + r.below(2) as u32), off: boundary(r) }
            } else {
                Op::Resume { peer: 1 + r.below(1000), file: m.file, off: m.next_off.saturating_add(1 + r.below(5)) }
            }
        }
        8 => Op::Credit { c: r.below(10) },
        9 | 10 => Op::Reconnect,
        11 => {
            if cancels {
                Op::Cancel { reason: r.below(REASONS) as u8 }
            } else {
                Op::Push { d: 1 + r.below(6), ovh: r.below(3), last: false }
            }
        }
        12 => {
            if r.chance(1, 3) {
                Op::Advance { file: m.file.wrapping_add(1) }
            } else {
                Op::Credit { c: 1 + r.below(64) }
            }
        }
        _ => Op::SentStale { back: r.below(3) },
    }
}

/// One history driven step by step (parts that need to interleave something else - the library's idle watchdog - with it).
struct Hist {
    ctl: Arc<TransferControl>,
    m: Model,
    log: Vec<String>,
    valid_resumes_after_cancel: u64,
    ops_after_cancel: u64,
}
impl Hist {
    fn new(r: &mut Rng) -> Hist {
        let window = *r.pick(&[0u64, 8, 64, 1 << 20]);
        let cap = *r.pick(&[0u64, 16, 64, 1 << 20, 1 << 20]);
        Hist { ctl: TransferControl::with_replay_capacity(window, cap), m: Model::new(window, cap), log: vec![], valid_resumes_after_cancel: 0, ops_after_cancel: 0 }
    }
    fn step(&mut self, op: Op) -> Option<(String, String)> {
        let before = self.m.clone();
        if before.cancelled.is_some() {
            self.ops_after_cancel += 1;
            if let Op::Resume { file, off, .. } = &op {
                if *file == before.file && before.covers(*off) {
                    self.valid_resumes_after_cancel += 1;
                }
            }
        }
        let (ri, rm) = apply(&self.ctl, &mut self.m, &op);
        let v = check(&self.ctl, &self.m, &before, &op, &ri, &rm, false);
        self.log.push(format!("{op:?}"));
        v.map(|(sig, d)| (sig, format!("op #{}: {d}", self.log.len() - 1)))
    }
    fn steps(&mut self, r: &mut Rng, n: u64, cancels: bool) -> Option<(String, String)> {
        for _ in 0..n {
            let op = guided_op(r, &self.m, cancels);
            if let Some(v) = self.step(op) {
                return Some(v);
            }
        }
        None
    }
    fn replay(&self, by: &str) -> Value {
        json!({"part": "cancel-reasons", "cancelled_by": by, "window": self.m.window, "capacity": self.m.cap, "ops": self.log})
    }
}

fn hold_name(h: Hold) -> &'static str {
    match h {
        Hold::None => "none",
        Hold::All => "replay_chunks_from(0) after every operation, to the end",
        Hold::Random(_) => "random snapshots / chunks / bodies / handles / peers, dropped at random points",
    }
}

fn opj(ops: &[Op]) -> Value {
    json!(ops.iter().map(|o| format!("{o:?}")).collect::<Vec<_>>())
}

pub fn run(args: &Args, c13: bool) -> Report {
    let p = if c13 { "c13" } else { "c11" };
    let mut rep = Report::new(
        args,
        &format!("{p}-model"),
        "reference-model monitor over TransferControl: (a) ALL operation sequences up to length L over a small alphabet, \
         executed on the implementation with every observer compared after the last operation (every prefix is itself an \
         enumerated sequence); (b) random sequences up to length 200 with 64-bit hostile values; distinct = distinct \
         operation sequences executed",
    );
    let miri = args.stage.starts_with("miri");
    let alpha = alphabet(c13);
    // (a) exhaustive
    let max_len: usize = if miri { 2 } else if c13 { if args.thorough() { 8 } else { 7 } } else if args.thorough() { 7 } else { 6 };
    let configs: Vec<(u64, u64)> = if c13 { vec![(1 << 20, 0), (1 << 20, 4), (1 << 20, 7)] } else { vec![(4, 1 << 20), (0, 1 << 20), (3, 2)] };
    let configs = if miri { configs[..1].to_vec() } else { configs };
    quiet_panics(true);
    let found = std::sync::Mutex::new(Vec::<(String, String, Value)>::new());
    let counted = std::sync::atomic::AtomicU64::new(0);
    let counted_held = std::sync::atomic::AtomicU64::new(0);
    let hs = HoldStats::default();
    let threads = if miri { 1 } else { 16 };
    // second pass (one operation shorter): the same enumeration with the result of replay_chunks_from(0) taken after every
    // operation kept alive to the end of the sequence; same model, same observers
    // (under Miri the interpreter's budget goes to the plain enumeration; held results are covered by the random histories there)
    let held_len = if miri { 0 } else { max_len - 1 };
    let passes = [(Hold::None, max_len), (Hold::All, held_len)];
    let mut pass_ms = [0u64; 2];
    for (pi, &(hold, max_len)) in passes.iter().enumerate() {
    if max_len == 0 {
        continue;
    }
    let pass_t0 = Instant::now();
    let counted = if hold == Hold::None { &counted } else { &counted_held };
    let hs = &hs;
    for &(window, cap) in &configs {
        std::thread::scope(|s| {
            for t in 0..threads {
                let alpha = &alpha;
                let found = &found;
                s.spawn(move || {
                    let mut idx: Vec<usize> = vec![];
                    let mut n = 0u64;
                    // iterative DFS over all sequences of length 1..=max_len; thread t takes first-two-op prefixes ≡ t (mod threads)
                    #[allow(clippy::too_many_arguments)]
                    fn rec(idx: &mut Vec<usize>, alpha: &[Op], max_len: usize, t: usize, threads: usize, window: u64, cap: u64, c13: bool, n: &mut u64, found: &std::sync::Mutex<Vec<(String, String, Value)>>, hold: Hold, hs: &HoldStats) {
                        if !idx.is_empty() {
                            let key = idx[0] * alpha.len() + idx.get(1).copied().unwrap_or(0);
                            let mine = if idx.len() == 1 { idx[0] % threads == t } else { key % threads == t };
                            if mine {
                                let ops: Vec<Op> = idx.iter().map(|&i| alpha[i].clone()).collect();
                                *n += 1;
                                let r = catching(|| run_seq(window, cap, &ops, ops.len() - 1, c13, hold, hs));
                                match r {
                                    Ok(None) => {}
                                    Ok(Some((_, sig, d))) => {
                                        let mut f = found.lock().unwrap();
                                        if f.len() < 200 {
                                            f.push((sig, d, json!({"window": window, "capacity": cap, "ops": opj(&ops), "results_kept_alive": hold_name(hold)})));
                                        }
                                    }
                                    Err(pn) => {
                                        let mut f = found.lock().unwrap();
                                        if f.len() < 200 {
                                            let pp = if c13 { "C13" } else { "C11" };
                                            f.push((format!("{pp}:panic:{}", panic_site(&pn)), pn, json!({"window": window, "capacity": cap, "ops": opj(&ops)})));
                                        }
                                    }
                                }
                            }
                        }
                        if idx.len() == max_len {
                            return;
                        }
                        for i in 0..alpha.len() {
                            idx.push(i);
                            rec(idx, alpha, max_len, t, threads, window, cap, c13, n, found, hold, hs);
                            idx.pop();
                        }
                    }
                    rec(&mut idx, alpha, max_len, t, threads, window, cap, c13, &mut n, found, hold, hs);
                    counted.fetch_add(n, std::sync::atomic::Ordering::Relaxed);
                });
            }
        });
    }
    pass_ms[pi] = pass_t0.elapsed().as_millis() as u64;
    }
    let exhaustive_n = counted.load(std::sync::atomic::Ordering::Relaxed);
    let held_n = counted_held.load(std::sync::atomic::Ordering::Relaxed);
    let expect_held: u64 = configs.len() as u64 * (1..=held_len as u32).map(|l| (alpha.len() as u64).pow(l)).sum::<u64>();
    rep.evaluations += held_n;
    rep.set("exhaustive_sequences_with_every_replay_result_kept_alive", json!({"sequences": held_n, "max_len": held_len, "wall_ms": pass_ms[1], "wall_ms_of_the_plain_enumeration": pass_ms[0]}));
    if held_n != expect_held {
        rep.inconclusive(format!("enumeration with held results visited {held_n} sequences, expected {expect_held}"));
    }
    let expect: u64 = configs.len() as u64 * (1..=max_len as u32).map(|l| (alpha.len() as u64).pow(l)).sum::<u64>();
    rep.evaluations += exhaustive_n;
    rep.set("exhaustive_sequences", json!(exhaustive_n));
    rep.set("exhaustive_max_len", json!(max_len));
    rep.set("exhaustive_alphabet", opj(&alpha));
    rep.set("exhaustive_configs_window_capacity", json!(configs));
    if exhaustive_n != expect {
        rep.inconclusive(format!("enumeration visited {exhaustive_n} sequences, expected {expect}"));
    }
    rep.exhaustive = Some(false); // the small scope is enumerated completely; the random part below is sampled
    rep.set("small_scope_exhaustive", json!(exhaustive_n == expect));
    for i in 0..exhaustive_n.min(4_000_000) {
        rep.distinct(&("x", i));
    }
    rep.sample(json!({"kind": "exhaustive", "example": opj(&alpha[..alpha.len().min(3)]), "window_capacity": configs[0]}));

    // (b) random long histories, every op checked
    let n = args.budget(3_000, 150_000);
    let mut rng = Rng::new(args.seed ^ if c13 { 0xC13 } else { 0xC11 });
    let mut total_ops = 0u64;
    let mut held_histories = 0u64;
    let shrink_hs = HoldStats::default();
    for case in 0..n {
        let mut r = rng.fork(case);
        let window = match r.below(6) { 0 => 0, 1 => 1 + r.below(16), 2 => 1 << 20, 3 => u64::MAX, 4 => 1 << 48, _ => 1 + r.below(200) };
        let cap = match r.below(5) { 0 => 0, 1 => 1 + r.below(8), 2 => 1 + r.below(64), 3 => u64::MAX, _ => 10 + r.below(200) };
        let len = if miri { 1 + r.usize_below(12) } else { 1 + r.usize_below(200) };
        let mut file = 0u32;
        let ops: Vec<Op> = (0..len)
            .map(|_| {
                let o = random_op(&mut r, file, c13);
                if let Op::Advance { file: f } = o {
                    file = f;
                }
                o
            })
            .collect();
        total_ops += ops.len() as u64;
        rep.eval();
        rep.distinct(&ops);
        if case < 2 {
            rep.sample(json!({"kind": "random", "window": window, "capacity": cap, "ops": opj(&ops[..ops.len().min(12)]), "len": ops.len()}));
        }
        // every other history runs with results of earlier operations kept alive (separate stream: the operations are the same)
        let hold = if case % 2 == 1 || miri { Hold::Random(hash_of(&(args.seed, case, c13))) } else { Hold::None };
        if hold != Hold::None {
            held_histories += 1;
        }
        let hs = &hs;
        match catching(|| run_seq(window, cap, &ops, 0, c13, hold, hs)) {
            Ok(None) => {}
            Ok(Some((i, sig, d))) => {
                // shrink the history to a short witness with the same signature
                let prefix = ops[..(i + 1).min(ops.len())].to_vec();
                let small = shrink_seq(prefix, |t| matches!(catching(|| run_seq(window, cap, t, 0, c13, hold, &shrink_hs)), Ok(Some((_, s2, _))) if s2 == sig));
                let d2 = match catching(|| run_seq(window, cap, &small, 0, c13, hold, &shrink_hs)) {
                    Ok(Some((j, _, d2))) => format!("op #{j}: {d2}"),
                    _ => format!("op #{i}: {d}"),
                };
                found.lock().unwrap().push((sig, d2, json!({"window": window, "capacity": cap, "ops": opj(&small), "shrunk_from_len": i + 1, "results_kept_alive": hold_name(hold)})));
            }
            Err(pn) => {
                let pp = if c13 { "C13" } else { "C11" };
                found.lock().unwrap().push((format!("{pp}:panic:{}", panic_site(&pn)), pn, json!({"window": window, "capacity": cap, "ops": opj(&ops)})));
            }
        }
    }
    rep.set(
        "results_kept_alive",
        json!({
            "random_histories_with_held_results": held_histories,
            "results_taken": hs.taken.load(Ordering::Relaxed),
            "results_dropped_mid_history": hs.dropped.load(Ordering::Relaxed),
            "pushes_while_ring_results_alive": hs.pushes_with_ring_results_alive.load(Ordering::Relaxed),
            "max_alive_at_once": hs.max_alive.load(Ordering::Relaxed),
        }),
    );
    if !miri && hs.pushes_with_ring_results_alive.load(Ordering::Relaxed) == 0 {
        rep.inconclusive("no push happened while a result of an earlier replay was still alive");
    }
    // (c) C11 only: racing cancels. "First reason wins" and "cancellation is permanent" under concurrency: once a
    // thread's own cancel() has returned, the reason it reads can never change again, whatever other cancels race it.
    if !c13 {
        let trials = if miri { 6 } else { args.budget(8_000, 300_000) };
        let mut raced = 0u64;
        for t in 0..trials {
            let ctl = TransferControl::with_replay_capacity(8, 64);
            let nthreads = 2 + (t % 2) as usize;
            let barrier = std::sync::Barrier::new(nthreads);
            let seen: std::sync::Mutex<Vec<(usize, Option<String>)>> = std::sync::Mutex::new(vec![]);
            std::thread::scope(|sc| {
                for i in 0..nthreads {
                    let (ctl, barrier, seen) = (&ctl, &barrier, &seen);
                    sc.spawn(move || {
                        barrier.wait();
                        ctl.cancel(format!("reason-{i}"));
                        let r = ctl.cancel_reason();
                        seen.lock().unwrap().push((i, r));
                    });
                }
            });
            rep.eval();
            let seen = seen.into_inner().unwrap();
            let final_reason = ctl.cancel_reason();
            let mut all: Vec<Option<String>> = seen.iter().map(|x| x.1.clone()).collect();
            all.push(final_reason.clone());
            if seen.first().map(|x| x.0) != Some(0) {
                raced += 1;
            }
            if all.iter().any(|r| *r != final_reason) || final_reason.is_none() {
                found.lock().unwrap().push((
                    "C11:cancel-reason-changed-under-race".into(),
                    format!("{nthreads} racing cancels: reasons read right after each thread's own cancel() returned: {seen:?}; reason at the end: {final_reason:?}"),
                    json!({"threads": nthreads, "trial": t, "ops": []}),
                ));
                break;
            }
        }
        rep.set("racing_cancel_trials", json!(trials));
        rep.set("racing_cancel_trials_where_thread0_did_not_finish_first", json!(raced));
    }
    // (f) C11 only: WHO cancels and with WHICH text. Histories (model-guided, so that otherwise valid resumes are frequent) are cut
    // by a cancel whose reason is drawn from the whole table - including the wording of the library's own idle watchdog - or by
    // the REAL idle watchdog (spawn_watchdog over a registry holding the controls; native only: it needs threads and sleeps),
    // and continue with valid and invalid resumes, credit and reconnect waits, sends, acks and further cancels. The model is the
    // one of parts (a)/(b): permanent, first reason wins (for the watchdog: whatever text it was first seen with), resume refused.
    if !c13 {
        let mut texts: Vec<String> = (0..REASONS).map(|i| reason(i as u8)).collect();
        let (mut by_watchdog, mut by_caller, mut valid_resumes, mut ops_after) = (0u64, 0u64, 0u64, 0u64);
        let part_t0 = Instant::now();
        let mut wd_kept_earlier_reason = 0u64;
        if !miri && !cfg!(miri) {
            let mut r = rng.fork(0x6000_0000);
            let reg: Arc<repe::TransferRegistry<u64>> = Arc::new(repe::TransferRegistry::new());
            let n = args.budget(32, 400);
            let mut hists: Vec<Hist> = vec![];
            for k in 0..n {
                let mut h = Hist::new(&mut r);
                let pre = r.below(14);
                let mut bad = catching(|| h.steps(&mut r, pre, false)).unwrap_or_else(|pn| Some((format!("C11:panic:{}", panic_site(&pn)), pn)));
                // every fourth transfer is already cancelled by its user when the watchdog looks at it: first reason wins
                if bad.is_none() && k % 4 == 3 {
                    bad = h.step(Op::Cancel { reason: r.below(REASONS) as u8 });
                }
                if let Some((sig, d)) = bad {
                    found.lock().unwrap().push((sig, d, h.replay("nobody yet")));
                    continue;
                }
                reg.register(k, h.ctl.clone());
                hists.push(h);
            }
            // the watchdog ticks once per second (its floor) and cancels what has been idle for longer than the period given
            repe::spawn_watchdog(reg.clone(), Duration::from_millis(20 + r.below(80)));
            let t0 = Instant::now();
            while hists.iter().any(|h| !h.ctl.is_cancelled()) && t0.elapsed() < Duration::from_secs(12) {
                std::thread::sleep(Duration::from_millis(10));
            }
            if hists.iter().any(|h| !h.ctl.is_cancelled()) {
                rep.inconclusive("the idle watchdog did not cancel the registered idle transfers within 12 s");
            }
            for mut h in hists {
                if !h.ctl.is_cancelled() {
                    continue;
                }
                rep.eval();
                let by = if h.m.cancelled.is_some() {
                    wd_kept_earlier_reason += 1;
                    "caller, before the watchdog's tick"
                } else {
                    // first reason = the text the cancel is first seen with
                    let seen = h.ctl.cancel_reason().unwrap_or_default();
                    h.log.push(format!("<idle watchdog cancelled: {seen:?}>"));
                    if !texts.contains(&seen) {
                        texts.push(seen.clone());
                    }
                    h.m.cancelled = Some(seen);
                    by_watchdog += 1;
                    "idle watchdog (spawn_watchdog)"
                };
                let post = 6 + r.below(20);
                rep.distinct(&("cancel-by-watchdog", h.log.len(), post));
                let v = catching(|| h.steps(&mut r, post, true)).unwrap_or_else(|pn| Some((format!("C11:panic:{}", panic_site(&pn)), pn)));
                valid_resumes += h.valid_resumes_after_cancel;
                ops_after += h.ops_after_cancel;
                if let Some((sig, d)) = v {
                    found.lock().unwrap().push((sig, d, h.replay(by)));
                }
            }
            drop(reg); // the watchdog thread exits at its next tick
        }
        // (under Miri: three short histories per shard; the shards' seeds differ, so together they walk the table)
        let trials = if miri { 3 } else { args.budget(600, 30_000) };
        for t in 0..trials {
            let mut r = rng.fork(0x6100_0000 + t);
            let text = texts[((if miri { args.seed.wrapping_add(t * 4) } else { t }) % texts.len() as u64) as usize].clone();
            let mut h = Hist::new(&mut r);
            let (pre, post) = if miri { (r.below(6), 4 + r.below(5)) } else { (r.below(14), 6 + r.below(20)) };
            rep.eval();
            rep.distinct(&("cancel-text", &text, pre, post, t));
            let v = catching(|| {
                if let Some(v) = h.steps(&mut r, pre, false) {
                    return Some(v);
                }
                if let Some(v) = h.step(Op::CancelText(text.clone())) {
                    return Some(v);
                }
                h.steps(&mut r, post, true)
            })
            .unwrap_or_else(|pn| Some((format!("C11:panic:{}", panic_site(&pn)), pn)));
            by_caller += 1;
            valid_resumes += h.valid_resumes_after_cancel;
            ops_after += h.ops_after_cancel;
            if let Some((sig, d)) = v {
                found.lock().unwrap().push((sig, d, h.replay(&format!("caller, reason {:?}", trunc(&text, 40)))));
            }
        }
        rep.set(
            "cancel_reason_histories",
            json!({
                "cancelled_by_idle_watchdog": by_watchdog,
                "cancelled_by_caller_before_watchdog_tick": wd_kept_earlier_reason,
                "cancelled_by_caller_with_text": by_caller,
                "reason_texts": texts.iter().map(|t| trunc(t, 40)).collect::<Vec<_>>(),
                "operations_after_cancel": ops_after,
                "otherwise_valid_resumes_after_cancel": valid_resumes,
                "wall_ms": part_t0.elapsed().as_millis() as u64,
            }),
        );
        if !miri && valid_resumes == 0 {
            rep.inconclusive("no otherwise valid resume was attempted after a cancel");
        }
        if !miri && by_watchdog == 0 {
            rep.inconclusive("no transfer was cancelled by the idle watchdog");
        }
    }
    // (d) C13 only: a resume that arrives while the producer is ALREADY parked in wait_for_reconnect is consumed by that wait,
    // exactly like one staged before the wait (the sequential order the model part drives): the next wait must not hand out the
    // same resume again (a second replay = duplicated bytes at the receiver), and a fresh resume afterwards is still delivered.
    if c13 {
        use std::sync::atomic::{AtomicU64, Ordering};
        let trials = if miri { 3 } else { args.budget(400, 6_000) };
        let parked = std::sync::Arc::new(AtomicU64::new(0));
        let p2 = parked.clone();
        repe::verif_hooks::set_probe(Some(std::sync::Arc::new(move |point: &'static str, _id: u64| {
            if point == "stream.reconnect.park" {
                p2.fetch_add(1, Ordering::SeqCst);
            }
        })));
        let (mut parked_first, mut staged_first, mut not_forced) = (0u64, 0u64, 0u64);
        for t in 0..trials {
            let mut r = rng.fork(0x5000_0000 + t);
            let unit = 1 + r.below(8);
            let n = 1 + r.below(6);
            let ctl = TransferControl::with_replay_capacity(1 << 20, 1 << 20);
            for i in 0..n {
                ctl.push_replay(i * unit, unit, false, vec![i as u8; unit as usize]);
                ctl.record_sent((i + 1) * unit);
            }
            let off = unit * r.below(n + 1);
            // (with the three trials of the Miri tier all three draws can say "staged first" - 1 seed in 64 - and the part would observe
            // nothing: the first trial there always parks first)
            let park_first = r.below(4) != 0 || (miri && t == 0);
            let kicks = r.below(3);
            let before = parked.load(Ordering::SeqCst);
            let (tx, rx) = std::sync::mpsc::channel();
            if !park_first {
                let _ = ctl.request_resume(peer(7), 0, off);
            }
            let c2 = ctl.clone();
            let w = std::thread::spawn(move || {
                let _ = tx.send(c2.wait_for_reconnect(Duration::from_secs(if cfg!(miri) { 1_000_000 } else { 3600 })));
            });
            if park_first {
                let t0 = std::time::Instant::now();
                while parked.load(Ordering::SeqCst) == before && t0.elapsed() < Duration::from_secs(10) {
                    std::thread::yield_now();
                }
                if parked.load(Ordering::SeqCst) == before {
                    not_forced += 1;
                }
                for _ in 0..kicks {
                    ctl.verif_notify_all();
                }
                let _ = ctl.request_resume(peer(7), 0, off);
            }
            let first = rx.recv_timeout(Duration::from_secs(if miri { 1000 } else { 15 }));
            rep.eval();
            rep.distinct(&("parked-consume", park_first, kicks, unit, n, off));
            let scen = json!({"part": "resume-while-parked", "unit": unit, "chunks": n, "resume_offset": off, "parked_first": park_first, "spurious_wakes_before_resume": kicks, "ops": []});
            match first {
                Ok(ReconnectOutcome::ResumeReady(pr)) if pr.resume_at_offset == off => {}
                Ok(other) => {
                    found.lock().unwrap().push(("C13:resume-while-parked:wrong-outcome".into(), format!("wait_for_reconnect returned {other:?} for an accepted resume at {off} (parked first: {park_first})"), scen.clone()));
                    let _ = w.join();
                    continue;
                }
                Err(_) => {
                    // a lost wake-up is C12's subject; here it only means this trial observed nothing
                    ctl.cancel("harness-cleanup");
                    not_forced += 1;
                    let _ = w.join();
                    continue;
                }
            }
            let _ = w.join();
            if park_first { parked_first += 1 } else { staged_first += 1 }
            let second = ctl.wait_for_reconnect(Duration::ZERO);
            if let ReconnectOutcome::ResumeReady(pr) = &second {
                found.lock().unwrap().push((
                    format!("C13:pending-resume-consumption:{}", if park_first { "resume-arrived-while-parked" } else { "resume-staged-before-wait" }),
                    format!("one accepted resume at offset {off} was handed out twice: the wait that was {} returned ResumeReady({off}), and the next wait_for_reconnect returned ResumeReady({}) although nobody resumed again", if park_first { "already parked when it arrived" } else { "started after it" }, pr.resume_at_offset),
                    scen.clone(),
                ));
                continue;
            }
            // a fresh resume is still delivered, once
            let off2 = unit * r.below(n + 1);
            if ctl.request_resume(peer(8), 0, off2).is_ok() {
                let third = ctl.wait_for_reconnect(Duration::ZERO);
                let fourth = ctl.wait_for_reconnect(Duration::ZERO);
                if !matches!(&third, ReconnectOutcome::ResumeReady(pr) if pr.resume_at_offset == off2) || matches!(fourth, ReconnectOutcome::ResumeReady(_)) {
                    found.lock().unwrap().push(("C13:pending-resume-consumption:fresh-resume-after-parked-one".into(), format!("after a consumed resume, a fresh accepted resume at {off2} gave {third:?} then {fourth:?}"), scen));
                }
            }
        }
        repe::verif_hooks::set_probe(None);
        rep.set("resume_while_parked_trials", json!({"resume_arrived_while_parked": parked_first, "resume_staged_before_wait": staged_first, "schedule_not_forced": not_forced}));
        if parked_first == 0 {
            rep.inconclusive("no trial had the resume arrive while the producer was parked");
        }
    }
    // (e) C13 only: request_resume racing advance_to_file. Whatever the order, a resume for file 0 is either accepted before the
    // advance (and then discarded by it) or rejected after it (wrong file): once both returned, no resume is pending. A resume
    // validated against file 0 but staged after the advance would be handed out for file 1.
    if c13 {
        let trials = if miri { 4 } else { args.budget(4_000, 100_000) };
        let (mut resume_first, mut advance_first) = (0u64, 0u64);
        for t in 0..trials {
            let ctl = TransferControl::with_replay_capacity(1 << 20, 1 << 20);
            for i in 0..3u64 {
                ctl.push_replay(i * 4, 4, false, vec![i as u8; 4]);
                ctl.record_sent((i + 1) * 4);
            }
            let off = 4 * (t % 4);
            let barrier = std::sync::Barrier::new(2);
            let accepted = std::thread::scope(|sc| {
                let a = sc.spawn(|| {
                    barrier.wait();
                    ctl.request_resume(peer(9), 0, off).is_ok()
                });
                let b = sc.spawn(|| {
                    barrier.wait();
                    if t % 3 == 0 {
                        std::hint::spin_loop();
                    }
                    ctl.advance_to_file(1);
                });
                let r = a.join().unwrap_or(false);
                let _ = b.join();
                r
            });
            rep.eval();
            rep.distinct(&("resume-vs-advance", accepted, off));
            if accepted { resume_first += 1 } else { advance_first += 1 }
            let after = ctl.wait_for_reconnect(Duration::ZERO);
            if let ReconnectOutcome::ResumeReady(pr) = &after {
                found.lock().unwrap().push((
                    "C13:resume-racing-advance:pending-resume-survives-the-advance".into(),
                    format!("request_resume(file 0, offset {off}) raced advance_to_file(1) (resume returned accepted={accepted}); after both had returned a resume at offset {} is pending although the control is on file 1", pr.resume_at_offset),
                    json!({"part": "resume-vs-advance", "trial": t, "offset": off, "ops": []}),
                ));
                break;
            }
        }
        rep.set("resume_vs_advance_trials", json!({"resume_accepted_first": resume_first, "advance_first": advance_first}));
        if !miri && (resume_first == 0 || advance_first == 0) {
            rep.inconclusive(format!("resume-vs-advance race never went both ways ({resume_first} / {advance_first})"));
        }
    }
    quiet_panics(false);
    rep.set("random_operations_checked", json!(total_ops));
    // shortest witness first per signature
    let mut f = found.into_inner().unwrap();
    f.sort_by_key(|(_, _, v)| v["ops"].as_array().map(|a| a.len()).unwrap_or(0));
    for (sig, d, v) in f {
        rep.violation(sig, d, v);
    }
    rep
}
