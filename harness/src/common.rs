//! Shared machinery: seeded PRNG, stage report (evidence + violations), arg parsing,
//! panic capture, watchdog/heartbeat.

use serde_json::{Map, Value, json};
use std::collections::HashSet;
use std::hash::{Hash, Hasher};
use std::panic::{AssertUnwindSafe, catch_unwind};
use std::sync::Mutex;
use std::sync::atomic::{AtomicBool, AtomicU64, Ordering};
use std::time::{Duration, Instant};

// ---------------------------------------------------------------- PRNG

/// xoshiro256** seeded via splitmix64. Deterministic for a given seed.
#[derive(Clone)]
pub struct Rng {
    s: [u64; 4],
}

fn splitmix(x: &mut u64) -> u64 {
    *x = x.wrapping_add(0x9E37_79B9_7F4A_7C15);
    let mut z = *x;
    z = (z ^ (z >> 30)).wrapping_mul(0xBF58_476D_1CE4_E5B9);
    z = (z ^ (z >> 27)).wrapping_mul(0x94D0_49BB_1331_11EB);
    z ^ (z >> 31)
}

impl Rng {
    pub fn new(seed: u64) -> Self {
        let mut x = seed ^ 0xA076_1D64_78BD_642F;
        let s = [
            splitmix(&mut x),
            splitmix(&mut x),
            splitmix(&mut x),
            splitmix(&mut x),
        ];
        Rng { s }
    }
    /// Independent stream derived from this one and a label.
    pub fn fork(&mut self, label: u64) -> Rng {
        Rng::new(self.next_u64() ^ label.wrapping_mul(0x9E37_79B9_7F4A_7C15))
    }
    pub fn next_u64(&mut self) -> u64 {
        let r = self.s[1].wrapping_mul(5).rotate_left(7).wrapping_mul(9);
        let t = self.s[1] << 17;
        self.s[2] ^= self.s[0];
        self.s[3] ^= self.s[1];
        self.s[1] ^= self.s[2];
        self.s[0] ^= self.s[3];
        self.s[2] ^= t;
        self.s[3] = self.s[3].rotate_left(45);
        r
    }
    pub fn below(&mut self, n: u64) -> u64 {
        if n == 0 { 0 } else { self.next_u64() % n }
    }
    pub fn usize_below(&mut self, n: usize) -> usize {
        self.below(n as u64) as usize
    }
    /// inclusive range
    pub fn range(&mut self, lo: u64, hi: u64) -> u64 {
        lo + self.below(hi - lo + 1)
    }
    pub fn chance(&mut self, num: u64, den: u64) -> bool {
        self.below(den) < num
    }
    pub fn coin(&mut self) -> bool {
        self.next_u64() & 1 == 1
    }
    pub fn pick<'a, T>(&mut self, xs: &'a [T]) -> &'a T {
        &xs[self.usize_below(xs.len())]
    }
    pub fn bytes(&mut self, n: usize) -> Vec<u8> {
        let mut v = Vec::with_capacity(n);
        while v.len() < n {
            let w = self.next_u64().to_le_bytes();
            let take = (n - v.len()).min(8);
            v.extend_from_slice(&w[..take]);
        }
        v
    }
    pub fn shuffle<T>(&mut self, xs: &mut [T]) {
        for i in (1..xs.len()).rev() {
            let j = self.usize_below(i + 1);
            xs.swap(i, j);
        }
    }
    /// A 64-bit value from boundary classes or uniformly random.
    pub fn boundary_u64(&mut self) -> u64 {
        const B: [u64; 16] = [
            0,
            1,
            0x7f,
            0x80,
            0xff,
            0x100,
            0xffff,
            0x1_0000,
            (1 << 31) - 1,
            1 << 31,
            (1 << 32) - 1,
            1 << 32,
            1 << 62,
            1 << 63,
            u64::MAX - 1,
            u64::MAX,
        ];
        match self.below(4) {
            0 => *self.pick(&B),
            1 => self.pick(&B).wrapping_add(self.below(5)).wrapping_sub(2),
            2 => self.next_u64() >> self.below(64),
            _ => self.next_u64(),
        }
    }
    pub fn boundary_u32(&mut self) -> u32 {
        self.boundary_u64() as u32
    }
    pub fn boundary_u16(&mut self) -> u16 {
        const B: [u16; 10] = [0, 1, 2, 3, 4, 0x7f, 0x80, 0xff, 0x100, 0xffff];
        if self.coin() { *self.pick(&B) } else { self.next_u64() as u16 }
    }
    pub fn boundary_u8(&mut self) -> u8 {
        const B: [u8; 8] = [0, 1, 2, 0x7f, 0x80, 0xfe, 0xff, 3];
        if self.coin() { *self.pick(&B) } else { self.next_u64() as u8 }
    }
}

pub fn hash_of<T: Hash>(t: &T) -> u64 {
    let mut h = std::collections::hash_map::DefaultHasher::new();
    t.hash(&mut h);
    h.finish()
}

pub fn hex(b: &[u8]) -> String {
    let mut s = String::with_capacity(b.len() * 2);
    for x in b {
        s.push_str(&format!("{x:02x}"));
    }
    s
}

pub fn hex_trunc(b: &[u8], max: usize) -> String {
    if b.len() <= max {
        hex(b)
    } else {
        format!("{}…(+{} bytes)", hex(&b[..max]), b.len() - max)
    }
}

pub fn unhex(s: &str) -> Vec<u8> {
    (0..s.len() / 2)
        .map(|i| u8::from_str_radix(&s[2 * i..2 * i + 2], 16).unwrap_or(0))
        .collect()
}

// ---------------------------------------------------------------- args

#[derive(Clone, Debug)]
pub struct Args {
    pub prop: String,
    pub stage: String,
    pub tier: String,
    pub seed: u64,
    pub out: String,
    pub replay: Option<String>,
    pub scale: f64,
    pub extra: Vec<String>,
}

impl Args {
    pub fn parse(argv: &[String]) -> Args {
        let mut a = Args {
            prop: argv.get(1).cloned().unwrap_or_default(),
            stage: "main".into(),
            tier: "quick".into(),
            seed: 1,
            out: "-".into(),
            replay: None,
            scale: 1.0,
            extra: vec![],
        };
        let mut i = 2;
        while i < argv.len() {
            let k = argv[i].as_str();
            let v = argv.get(i + 1).cloned();
            match k {
                "--stage" => {
                    a.stage = v.unwrap_or_default();
                    i += 1
                }
                "--tier" => {
                    a.tier = v.unwrap_or_default();
                    i += 1
                }
                "--seed" => {
                    a.seed = v.and_then(|s| s.parse().ok()).unwrap_or(1);
                    i += 1
                }
                "--out" => {
                    a.out = v.unwrap_or_default();
                    i += 1
                }
                "--replay" => {
                    a.replay = v;
                    i += 1
                }
                "--scale" => {
                    a.scale = v.and_then(|s| s.parse().ok()).unwrap_or(1.0);
                    i += 1
                }
                other => a.extra.push(other.to_string()),
            }
            i += 1;
        }
        a
    }
    pub fn thorough(&self) -> bool {
        self.tier == "thorough"
    }
    /// Pick a budget by tier, scaled by --scale (Miri/valgrind stages pass a small scale).
    pub fn budget(&self, quick: u64, thorough: u64) -> u64 {
        let b = if self.thorough() { thorough } else { quick };
        ((b as f64) * self.scale).max(1.0) as u64
    }
}

// ---------------------------------------------------------------- report

pub struct Violation {
    pub sig: String,
    pub detail: String,
    pub replay: Value,
}

pub struct Report {
    pub prop: String,
    pub stage: String,
    pub workload: String,
    pub tier: String,
    pub seed: u64,
    pub evaluations: u64,
    distinct: HashSet<u64>,
    pub rule: String,
    pub samples: Vec<Value>,
    pub max_samples: usize,
    pub counters: Map<String, Value>,
    pub violations: Vec<Violation>,
    seen_sigs: HashSet<String>,
    pub suppressed_violations: u64,
    pub inconclusive: Vec<String>,
    pub assumptions: Vec<String>,
    pub exhaustive: Option<bool>,
    start: Instant,
}

impl Report {
    pub fn new(args: &Args, workload: &str, rule: &str) -> Report {
        Report {
            prop: args.prop.to_uppercase(),
            stage: args.stage.clone(),
            workload: workload.to_string(),
            tier: args.tier.clone(),
            seed: args.seed,
            evaluations: 0,
            distinct: HashSet::new(),
            rule: rule.to_string(),
            samples: vec![],
            max_samples: 6,
            counters: Map::new(),
            violations: vec![],
            seen_sigs: HashSet::new(),
            suppressed_violations: 0,
            inconclusive: vec![],
            assumptions: vec![],
            exhaustive: None,
            start: Instant::now(),
        }
    }
    /// One executed case.
    pub fn eval(&mut self) {
        self.evaluations += 1;
    }
    /// Register the identity of a non-trivial case (hash of whatever makes it distinct).
    pub fn distinct<T: Hash>(&mut self, t: &T) {
        self.distinct.insert(hash_of(t));
    }
    pub fn distinct_count(&self) -> usize {
        self.distinct.len()
    }
    pub fn sample(&mut self, v: Value) {
        if self.samples.len() < self.max_samples {
            self.samples.push(v);
        }
    }
    /// Keep a sample with probability so that samples spread over the run.
    pub fn sample_spread(&mut self, rng: &mut Rng, v: impl FnOnce() -> Value) {
        if self.samples.len() < self.max_samples && (self.samples.is_empty() || rng.chance(1, 50)) {
            self.samples.push(v());
        }
    }
    pub fn count(&mut self, key: &str, n: u64) {
        let cur = self.counters.get(key).and_then(|v| v.as_u64()).unwrap_or(0);
        self.counters.insert(key.to_string(), json!(cur + n));
    }
    pub fn set(&mut self, key: &str, v: Value) {
        self.counters.insert(key.to_string(), v);
    }
    pub fn get_count(&self, key: &str) -> u64 {
        self.counters.get(key).and_then(|v| v.as_u64()).unwrap_or(0)
    }
    /// Record a violation. One witness is kept per signature.
    pub fn violation(&mut self, sig: impl Into<String>, detail: impl Into<String>, replay: Value) {
        let sig = sig.into();
        if self.seen_sigs.contains(&sig) || self.violations.len() >= 40 {
            self.suppressed_violations += 1;
            return;
        }
        self.seen_sigs.insert(sig.clone());
        self.violations.push(Violation {
            sig,
            detail: detail.into(),
            replay,
        });
    }
    pub fn inconclusive(&mut self, why: impl Into<String>) {
        let w = why.into();
        if self.inconclusive.len() < 20 {
            self.inconclusive.push(w);
        }
    }
    pub fn assume(&mut self, s: &str) {
        self.assumptions.push(s.to_string());
    }
    pub fn to_json(&self) -> Value {
        let mut c = self.counters.clone();
        if let Some(e) = self.exhaustive {
            c.insert("exhaustive".into(), json!(e));
        }
        json!({
            "property_id": self.prop,
            "stage": self.stage,
            "workload": self.workload,
            "tier": self.tier,
            "seed": self.seed,
            "evaluations": self.evaluations,
            "distinct_nontrivial": self.distinct.len(),
            "rule": self.rule,
            "samples": self.samples,
            "counters": Value::Object(c),
            "violations": self.violations.iter().map(|v| json!({
                "sig": v.sig, "detail": v.detail, "replay": v.replay
            })).collect::<Vec<_>>(),
            "suppressed_violations": self.suppressed_violations,
            "inconclusive": self.inconclusive,
            "assumptions": self.assumptions,
            "wall_s": self.start.elapsed().as_secs_f64(),
        })
    }
    /// Emit the stage result: to a file, or to stdout after a marker when `out == "-"`.
    pub fn finish(&self, args: &Args) {
        let v = self.to_json();
        let s = serde_json::to_string(&v).unwrap();
        if args.out == "-" {
            println!("@@RESULT@@ {s}");
        } else {
            std::fs::write(&args.out, s).expect("write stage result");
        }
        eprintln!(
            "[{} {}] evaluations={} distinct={} violations={} (+{} suppressed) inconclusive={} wall={:.1}s",
            self.prop,
            self.stage,
            self.evaluations,
            self.distinct.len(),
            self.violations.len(),
            self.suppressed_violations,
            self.inconclusive.len(),
            self.start.elapsed().as_secs_f64()
        );
        for v in &self.violations {
            eprintln!("  violation {}: {}", v.sig, trunc(&v.detail, 400));
        }
        for i in &self.inconclusive {
            eprintln!("  inconclusive: {}", trunc(i, 300));
        }
    }
    pub fn elapsed(&self) -> Duration {
        self.start.elapsed()
    }
}

pub fn trunc(s: &str, n: usize) -> String {
    if s.chars().count() <= n {
        s.to_string()
    } else {
        let t: String = s.chars().take(n).collect();
        format!("{t}…")
    }
}

// ---------------------------------------------------------------- panic capture

static LAST_PANIC: Mutex<Option<String>> = Mutex::new(None);
static QUIET_PANICS: AtomicBool = AtomicBool::new(false);

/// Install a panic hook that records "message @ file:line" and stays quiet while
/// `catching` is in use (the harness provokes thousands of expected panics on mutants).
pub fn install_panic_hook() {
    let default = std::panic::take_hook();
    std::panic::set_hook(Box::new(move |info| {
        let loc = info
            .location()
            .map(|l| format!("{}:{}", l.file(), l.line()))
            .unwrap_or_default();
        let msg = if let Some(s) = info.payload().downcast_ref::<&str>() {
            s.to_string()
        } else if let Some(s) = info.payload().downcast_ref::<String>() {
            s.clone()
        } else {
            "<non-string panic>".to_string()
        };
        *LAST_PANIC.lock().unwrap_or_else(|e| e.into_inner()) = Some(format!("{msg} @ {loc}"));
        // stay quiet only for panics that `catching` is going to capture
        if !QUIET_PANICS.load(Ordering::Relaxed) || CATCH_DEPTH.with(|d| d.get()) == 0 {
            default(info);
        }
    }));
}

pub fn quiet_panics(q: bool) {
    QUIET_PANICS.store(q, Ordering::Relaxed);
}

pub fn take_last_panic() -> Option<String> {
    LAST_PANIC.lock().unwrap_or_else(|e| e.into_inner()).take()
}

thread_local! {
    static CATCH_DEPTH: std::cell::Cell<u32> = const { std::cell::Cell::new(0) };
}

/// Run `f`, returning Err("msg @ file:line") if it panicked.
pub fn catching<T>(f: impl FnOnce() -> T) -> Result<T, String> {
    CATCH_DEPTH.with(|d| d.set(d.get() + 1));
    let r = catch_unwind(AssertUnwindSafe(f));
    CATCH_DEPTH.with(|d| d.set(d.get() - 1));
    match r {
        Ok(v) => Ok(v),
        Err(_) => Err(take_last_panic().unwrap_or_else(|| "panic".into())),
    }
}

/// A short, stable identifier for a panic site: strips registry prefixes and the message.
pub fn panic_site(p: &str) -> String {
    let loc = p.rsplit(" @ ").next().unwrap_or(p);
    let loc = loc.rsplit("/repo/").next().unwrap_or(loc);
    let loc = match loc.find("/registry/src/") {
        Some(i) => {
            let rest = &loc[i + "/registry/src/".len()..];
            rest.split_once('/').map(|x| x.1).unwrap_or(rest)
        }
        None => loc,
    };
    loc.to_string()
}

// ---------------------------------------------------------------- heartbeat

/// Detects machine stalls: a thread that sleeps 50 ms in a loop and records the largest
/// observed oversleep. Bounded-progress verdicts are inconclusive when a stall was seen.
pub struct Heartbeat {
    stop: std::sync::Arc<AtomicBool>,
    max_gap_ms: std::sync::Arc<AtomicU64>,
    th: Option<std::thread::JoinHandle<()>>,
}

impl Heartbeat {
    pub fn start() -> Heartbeat {
        let stop = std::sync::Arc::new(AtomicBool::new(false));
        let max_gap_ms = std::sync::Arc::new(AtomicU64::new(0));
        let (s, m) = (stop.clone(), max_gap_ms.clone());
        let th = std::thread::spawn(move || {
            let mut last = Instant::now();
            while !s.load(Ordering::Relaxed) {
                std::thread::sleep(Duration::from_millis(50));
                let now = Instant::now();
                let gap = now.duration_since(last).as_millis() as u64;
                last = now;
                m.fetch_max(gap.saturating_sub(50), Ordering::Relaxed);
            }
        });
        Heartbeat {
            stop,
            max_gap_ms,
            th: Some(th),
        }
    }
    pub fn max_gap_ms(&self) -> u64 {
        self.max_gap_ms.load(Ordering::Relaxed)
    }
    pub fn reset(&self) {
        self.max_gap_ms.store(0, Ordering::Relaxed);
    }
}

impl Drop for Heartbeat {
    fn drop(&mut self) {
        self.stop.store(true, Ordering::Relaxed);
        if let Some(t) = self.th.take() {
            let _ = t.join();
        }
    }
}

// ---------------------------------------------------------------- event log

/// Process-global append-only event log with one atomic sequence counter.
pub struct EventLog {
    seq: AtomicU64,
    ev: Mutex<Vec<(u64, String, u64)>>,
}

impl EventLog {
    pub const fn new() -> EventLog {
        EventLog {
            seq: AtomicU64::new(0),
            ev: Mutex::new(Vec::new()),
        }
    }
    pub fn push(&self, point: &str, id: u64) -> u64 {
        let mut g = self.ev.lock().unwrap_or_else(|e| e.into_inner());
        let s = self.seq.fetch_add(1, Ordering::SeqCst);
        g.push((s, point.to_string(), id));
        s
    }
    pub fn take(&self) -> Vec<(u64, String, u64)> {
        std::mem::take(&mut *self.ev.lock().unwrap_or_else(|e| e.into_inner()))
    }
    pub fn len(&self) -> usize {
        self.ev.lock().unwrap_or_else(|e| e.into_inner()).len()
    }
}

// ---------------------------------------------------------------- witness shrinking

/// Greedy delta-debugging over an operation sequence: drop one operation at a time while `fails`
/// still holds, to a fixpoint or until the work budget is spent. Used to report short witnesses for
/// violations found in long random histories.
pub fn shrink_seq<T: Clone>(mut ops: Vec<T>, mut fails: impl FnMut(&[T]) -> bool) -> Vec<T> {
    let mut budget = 3000u32;
    loop {
        let mut changed = false;
        let mut i = 0;
        while i < ops.len() && budget > 0 {
            let mut t = ops.clone();
            t.remove(i);
            budget -= 1;
            if fails(&t) {
                ops = t;
                changed = true;
            } else {
                i += 1;
            }
        }
        if !changed || budget == 0 {
            return ops;
        }
    }
}
