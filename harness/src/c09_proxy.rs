//! C09: transparent sniffing proxies between a LIBRARY puller and the real server.
//!
//! Stream ids are opaque: the only place a third party can learn the id of a stream a library puller
//! opened is the `/_svs/open` response on the puller's own connection. These proxies forward every
//! byte / WebSocket message unchanged in both directions and record, for every `/_svs/open` request
//! they saw going up, the `stream_id` of the matching response coming down.

use super::svs::{OpenResp, ROUTE_OPEN};
use crate::oracle::{self, SpecHeader};
use std::collections::HashSet;
use std::io::{Read, Write};
use std::net::{Shutdown, SocketAddr, TcpListener, TcpStream};
use std::sync::atomic::{AtomicBool, AtomicU64, Ordering};
use std::sync::{Arc, Mutex};
use std::time::Duration;

#[derive(Default)]
pub struct Sniff {
    open_reqs: Mutex<HashSet<u64>>,
    /// stream ids of the open responses seen so far, in arrival order
    opens: Mutex<Vec<u64>>,
    pub frames_forwarded: AtomicU64,
    pub unparsed: AtomicU64,
}

impl Sniff {
    pub fn new() -> Arc<Sniff> {
        Arc::new(Sniff::default())
    }
    fn up(&self, h: &SpecHeader, query: &[u8]) {
        self.frames_forwarded.fetch_add(1, Ordering::Relaxed);
        if h.notify == 0 && query == ROUTE_OPEN.as_bytes() {
            self.open_reqs.lock().unwrap().insert(h.id);
        }
    }
    fn down(&self, h: &SpecHeader, body: &[u8]) {
        self.frames_forwarded.fetch_add(1, Ordering::Relaxed);
        if h.notify == 0 && self.open_reqs.lock().unwrap().remove(&h.id) && h.ec == 0 {
            if let Ok(r) = beve::from_slice::<OpenResp>(body) {
                self.opens.lock().unwrap().push(r.stream_id);
            }
        }
    }
    pub fn opens_seen(&self) -> usize {
        self.opens.lock().unwrap().len()
    }
    /// stream ids of the open responses that arrived after the first `from`
    pub fn opens_since(&self, from: usize) -> Vec<u64> {
        self.opens.lock().unwrap().iter().skip(from).copied().collect()
    }
}

// ------------------------------------------------------------------ TCP

pub struct TcpProxy {
    pub addr: SocketAddr,
    stop: Arc<AtomicBool>,
}

impl Drop for TcpProxy {
    fn drop(&mut self) {
        self.stop.store(true, Ordering::SeqCst);
        let _ = TcpStream::connect_timeout(&self.addr, Duration::from_millis(500));
    }
}

/// Forward REPE frames from `from` to `to` verbatim, showing each to `see` (header, query, body).
fn pump(mut from: TcpStream, mut to: TcpStream, sniff: Arc<Sniff>, upward: bool) {
    let mut blind = false;
    let mut buf = vec![0u8; 64 << 10];
    loop {
        if blind {
            match from.read(&mut buf) {
                Ok(0) | Err(_) => break,
                Ok(n) => {
                    if to.write_all(&buf[..n]).is_err() {
                        break;
                    }
                }
            }
            continue;
        }
        let mut h = [0u8; oracle::HDR];
        if from.read_exact(&mut h).is_err() {
            break;
        }
        let sh = SpecHeader::decode(&h);
        if !sh.consistent() || sh.length > (512 << 20) {
            // not something this proxy understands: stop looking, keep forwarding
            sniff.unparsed.fetch_add(1, Ordering::Relaxed);
            blind = true;
            if to.write_all(&h).is_err() {
                break;
            }
            continue;
        }
        let mut rest = vec![0u8; sh.length as usize - oracle::HDR];
        if from.read_exact(&mut rest).is_err() {
            break;
        }
        let q = sh.query_length as usize;
        if upward {
            sniff.up(&sh, &rest[..q]);
        } else {
            sniff.down(&sh, &rest[q..]);
        }
        if to.write_all(&h).is_err() || to.write_all(&rest).is_err() {
            break;
        }
    }
    let _ = to.shutdown(Shutdown::Both);
    let _ = from.shutdown(Shutdown::Both);
}

pub fn tcp_proxy(upstream: SocketAddr, sniff: Arc<Sniff>) -> Result<TcpProxy, String> {
    let l = TcpListener::bind("127.0.0.1:0").map_err(|e| format!("proxy bind: {e}"))?;
    let addr = l.local_addr().map_err(|e| e.to_string())?;
    let stop = Arc::new(AtomicBool::new(false));
    let sp = stop.clone();
    std::thread::Builder::new()
        .stack_size(128 << 10)
        .spawn(move || {
            for c in l.incoming() {
                if sp.load(Ordering::SeqCst) {
                    break;
                }
                let Ok(c) = c else { continue };
                let Ok(s) = TcpStream::connect_timeout(&upstream, Duration::from_secs(10)) else { continue };
                c.set_nodelay(true).ok();
                s.set_nodelay(true).ok();
                let (Ok(c2), Ok(s2)) = (c.try_clone(), s.try_clone()) else { continue };
                let (a, b) = (sniff.clone(), sniff.clone());
                let _ = std::thread::Builder::new().stack_size(128 << 10).spawn(move || pump(c, s, a, true));
                let _ = std::thread::Builder::new().stack_size(128 << 10).spawn(move || pump(s2, c2, b, false));
            }
        })
        .map_err(|e| format!("proxy spawn: {e}"))?;
    Ok(TcpProxy { addr, stop })
}

// ------------------------------------------------------------------ WebSocket

pub struct WsProxy {
    pub addr: SocketAddr,
    task: tokio::task::JoinHandle<()>,
}
impl Drop for WsProxy {
    fn drop(&mut self) {
        self.task.abort();
    }
}

/// A WebSocket-level proxy: accepts the puller's WebSocket, opens one to `upstream_url`, and
/// forwards every message unchanged in both directions.
pub fn ws_proxy(rt: &Arc<tokio::runtime::Runtime>, upstream_url: String, sniff: Arc<Sniff>) -> Result<WsProxy, String> {
    use futures_util::{SinkExt, StreamExt};
    use tokio_tungstenite::tungstenite::Message as M;
    let l = rt.block_on(tokio::net::TcpListener::bind("127.0.0.1:0")).map_err(|e| format!("ws proxy bind: {e}"))?;
    let addr = l.local_addr().map_err(|e| e.to_string())?;
    let task = rt.spawn(async move {
        loop {
            let Ok((c, _)) = l.accept().await else { break };
            c.set_nodelay(true).ok();
            let (url, sniff) = (upstream_url.clone(), sniff.clone());
            tokio::spawn(async move {
                let Ok(cws) = tokio_tungstenite::accept_async(c).await else { return };
                let Ok(Ok((sws, _))) = tokio::time::timeout(Duration::from_secs(10), tokio_tungstenite::connect_async(url)).await else { return };
                let (mut c_tx, mut c_rx) = cws.split();
                let (mut s_tx, mut s_rx) = sws.split();
                let up_sniff = sniff.clone();
                let up = async move {
                    while let Some(Ok(m)) = c_rx.next().await {
                        if let M::Binary(b) = &m {
                            match oracle::valid_parse(b, true) {
                                Some((h, ql, _)) => up_sniff.up(&h, &b[48..48 + ql]),
                                None => {
                                    up_sniff.unparsed.fetch_add(1, Ordering::Relaxed);
                                }
                            }
                        }
                        let closing = matches!(m, M::Close(_));
                        if s_tx.send(m).await.is_err() || closing {
                            break;
                        }
                    }
                    let _ = s_tx.close().await;
                };
                let down = async move {
                    while let Some(Ok(m)) = s_rx.next().await {
                        if let M::Binary(b) = &m {
                            match oracle::valid_parse(b, true) {
                                Some((h, ql, _)) => sniff.down(&h, &b[48 + ql..]),
                                None => {
                                    sniff.unparsed.fetch_add(1, Ordering::Relaxed);
                                }
                            }
                        }
                        let closing = matches!(m, M::Close(_));
                        if c_tx.send(m).await.is_err() || closing {
                            break;
                        }
                    }
                    let _ = c_tx.close().await;
                };
                tokio::join!(up, down);
            });
        }
    });
    Ok(WsProxy { addr, task })
}
