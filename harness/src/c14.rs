//! C14 — the registry behaves as a JSON tree addressed by RFC 6901 pointers.
//! Oracle: a plain serde_json::Value document + a table of callables with an invocation log, driven
//! by an independent character-scanning pointer parser. After every checked operation: result class
//! and value, the WHOLE document (so "unrelated pointers unchanged" is a consequence), the callable
//! log (exactly one invocation, with the supplied body, only for a non-empty body at the callable's
//! escape-normalised pointer). Also: public pointer helpers round trip, prefix mount replay through
//! Router::with_registry, and linearizability of recorded concurrent histories.

use crate::common::*;
use repe::{ErrorCode, Message, QueryFormat, Registry, Router, CallContext, MessageView};
use serde_json::{Map, Value, json};
use std::collections::{BTreeMap, HashSet};
use std::sync::atomic::{AtomicU64, Ordering};
use std::sync::{Arc, Mutex};

// ------------------------------------------------------------------ independent pointer parser

/// RFC 6901 tokenizer. `Err(())` for a non-empty pointer without a leading '/', or a '~' not
/// followed by '0' or '1'. "" and (registry convention, guarded in generators) "/" are the root.
fn parse_ptr(p: &str) -> Result<Vec<String>, ()> {
    if p.is_empty() {
        return Ok(vec![]);
    }
    let b: Vec<char> = p.chars().collect();
    if b[0] != '/' {
        return Err(());
    }
    let mut toks = vec![];
    let mut cur = String::new();
    let mut i = 1;
    while i < b.len() {
        match b[i] {
            '/' => toks.push(std::mem::take(&mut cur)),
            '~' => {
                i += 1;
                match b.get(i) {
                    Some('0') => cur.push('~'),
                    Some('1') => cur.push('/'),
                    _ => return Err(()),
                }
            }
            c => cur.push(c),
        }
        i += 1;
    }
    toks.push(cur);
    Ok(toks)
}

fn esc(t: &str) -> String {
    let mut s = String::new();
    for c in t.chars() {
        match c {
            '~' => s.push_str("~0"),
            '/' => s.push_str("~1"),
            c => s.push(c),
        }
    }
    s
}

fn to_ptr(toks: &[String]) -> String {
    toks.iter().map(|t| format!("/{}", esc(t))).collect()
}

/// How the registry's READ path spells array indices beyond RFC 6901's canonical form, probed once per process
/// (`probe_index_modes`). RFC 6901 forbids leading zeros and signs; a library that accepts them everywhere, or nowhere,
/// satisfies the statement equally — what it must not do is accept a spelling on one path (write, merge, mount, helper)
/// and refuse it on another, because then a successful write is not returned by the next read of that pointer.
static LENIENT_ZERO: std::sync::atomic::AtomicBool = std::sync::atomic::AtomicBool::new(false);
static LENIENT_PLUS: std::sync::atomic::AtomicBool = std::sync::atomic::AtomicBool::new(false);

fn probe_index_modes() -> (bool, bool) {
    let reg = Registry::new();
    reg.set_root(json!({"arr": [10, 20, 30]}));
    let z = reg.read_value("/arr/01").ok() == Some(json!(20));
    let p = reg.read_value("/arr/+1").ok() == Some(json!(20));
    LENIENT_ZERO.store(z, std::sync::atomic::Ordering::SeqCst);
    LENIENT_PLUS.store(p, std::sync::atomic::Ordering::SeqCst);
    (z, p)
}

fn index(tok: &str, len: usize) -> Option<usize> {
    use std::sync::atomic::Ordering::SeqCst;
    let (plus, digits) = match tok.strip_prefix('+') {
        Some(d) => (true, d),
        None => (false, tok),
    };
    if plus && !LENIENT_PLUS.load(SeqCst) {
        return None;
    }
    if digits.is_empty() || !digits.chars().all(|c| c.is_ascii_digit()) {
        return None;
    }
    if digits.len() > 1 && digits.starts_with('0') && !LENIENT_ZERO.load(SeqCst) {
        return None;
    }
    digits.parse::<usize>().ok().filter(|i| *i < len)
}

fn resolve<'a>(doc: &'a Value, toks: &[String]) -> Option<&'a Value> {
    let mut cur = doc;
    for t in toks {
        cur = match cur {
            Value::Object(m) => m.get(t)?,
            Value::Array(a) => a.get(index(t, a.len())?)?,
            _ => return None,
        };
    }
    Some(cur)
}

fn resolve_mut<'a>(doc: &'a mut Value, toks: &[String]) -> Option<&'a mut Value> {
    let mut cur = doc;
    for t in toks {
        cur = match cur {
            Value::Object(m) => m.get_mut(t)?,
            Value::Array(a) => {
                let i = index(t, a.len())?;
                a.get_mut(i)?
            }
            _ => return None,
        };
    }
    Some(cur)
}

// ------------------------------------------------------------------ model

const NOT_FOUND: u32 = ErrorCode::MethodNotFound as u32;
const INVALID_BODY: u32 = ErrorCode::InvalidBody as u32;

#[derive(Clone, Debug, PartialEq)]
enum Out {
    /// read result / call result (value compared)
    Val(Value),
    /// write acknowledged (status value not specified by the statement)
    Written,
    /// read of a pointer that is a callable: descriptor not specified by the statement
    FnDescriptor,
    Err(u32),
}

#[derive(Clone)]
struct Model {
    doc: Value,
    /// canonical pointer -> (callable id, error code it returns or 0)
    fns: BTreeMap<String, (u64, u32)>,
}

impl Model {
    fn new() -> Model {
        Model { doc: Value::Object(Map::new()), fns: BTreeMap::new() }
    }
    fn ensure_parents(&mut self, toks: &[String]) -> &mut Map<String, Value> {
        if !self.doc.is_object() {
            self.doc = Value::Object(Map::new());
        }
        let mut cur = self.doc.as_object_mut().unwrap();
        for t in &toks[..toks.len().saturating_sub(1)] {
            let e = cur.entry(t.clone()).or_insert_with(|| Value::Object(Map::new()));
            if !e.is_object() {
                *e = Value::Object(Map::new());
            }
            cur = e.as_object_mut().unwrap();
        }
        cur
    }
    fn reg_path(path: &str) -> Result<Vec<String>, ()> {
        if path.is_empty() || path == "/" {
            return Ok(vec![]);
        }
        if path.starts_with('/') { parse_ptr(path) } else { parse_ptr(&format!("/{path}")) }
    }
    fn register_value(&mut self, path: &str, v: Value) -> Result<(), u32> {
        let toks = Self::reg_path(path).map_err(|_| NOT_FOUND)?;
        if toks.is_empty() {
            self.doc = v;
            return Ok(());
        }
        let last = toks.last().unwrap().clone();
        self.ensure_parents(&toks).insert(last, v);
        Ok(())
    }
    fn register_function(&mut self, path: &str, id: u64, err: u32) -> Result<(), u32> {
        let toks = Self::reg_path(path).map_err(|_| NOT_FOUND)?;
        if toks.is_empty() {
            return Err(NOT_FOUND);
        }
        self.ensure_parents(&toks);
        self.fns.insert(to_ptr(&toks), (id, err));
        Ok(())
    }
    fn merge_at(&mut self, path: &str, obj: &Map<String, Value>) -> Result<(), u32> {
        let toks = Self::reg_path(path).map_err(|_| NOT_FOUND)?;
        if toks.is_empty() {
            if !self.doc.is_object() {
                self.doc = Value::Object(Map::new());
            }
            let m = self.doc.as_object_mut().unwrap();
            for (k, v) in obj {
                m.insert(k.clone(), v.clone());
            }
            return Ok(());
        }
        match resolve_mut(&mut self.doc, &toks) {
            Some(Value::Object(m)) => {
                for (k, v) in obj {
                    m.insert(k.clone(), v.clone());
                }
                Ok(())
            }
            _ => Err(NOT_FOUND),
        }
    }
    /// A request: pointer + optional body. Returns (outcome, Some((callable id, body)) if a callable must have run).
    fn dispatch(&mut self, ptr: &str, body: Option<&Value>) -> (Out, Option<(u64, Value)>) {
        let toks = match if ptr == "/" { Ok(vec![]) } else { parse_ptr(ptr) } {
            Ok(t) => t,
            Err(()) => return (Out::Err(NOT_FOUND), None),
        };
        let canon = to_ptr(&toks);
        let Some(body) = body else {
            if self.fns.contains_key(&canon) {
                return (Out::FnDescriptor, None);
            }
            return match resolve(&self.doc, &toks) {
                Some(v) => (Out::Val(v.clone()), None),
                None => (Out::Err(NOT_FOUND), None),
            };
        };
        if let Some((id, err)) = self.fns.get(&canon) {
            let out = if *err != 0 { Out::Err(*err) } else { Out::Val(json!({"called": id, "echo": body})) };
            return (out, Some((*id, body.clone())));
        }
        if toks.is_empty() {
            let Value::Object(obj) = body else {
                return (Out::Err(INVALID_BODY), None);
            };
            if !self.doc.is_object() {
                self.doc = Value::Object(Map::new());
            }
            let m = self.doc.as_object_mut().unwrap();
            for (k, v) in obj {
                m.insert(k.clone(), v.clone());
            }
            return (Out::Written, None);
        }
        let (parent, last) = toks.split_at(toks.len() - 1);
        match resolve_mut(&mut self.doc, parent) {
            Some(Value::Object(m)) => {
                m.insert(last[0].clone(), body.clone());
                (Out::Written, None)
            }
            Some(Value::Array(a)) => match index(&last[0], a.len()) {
                Some(i) => {
                    a[i] = body.clone();
                    (Out::Written, None)
                }
                None => (Out::Err(NOT_FOUND), None),
            },
            _ => (Out::Err(NOT_FOUND), None),
        }
    }
}

// ------------------------------------------------------------------ system under test

type CallLog = Arc<Mutex<Vec<(u64, Value)>>>;

struct Sys {
    reg: Arc<Registry>,
    log: CallLog,
}

impl Sys {
    fn new() -> Sys {
        Sys { reg: Arc::new(Registry::new()), log: Arc::new(Mutex::new(vec![])) }
    }
    fn register_function(&self, path: &str, id: u64, err: u32) -> Result<(), u32> {
        let log = self.log.clone();
        self.reg
            .register_function(path, move |params: Option<Value>| {
                let body = params.unwrap_or(Value::Null);
                log.lock().unwrap().push((id, body.clone()));
                if err != 0 {
                    Err((ErrorCode::try_from(err).unwrap_or(ErrorCode::ApplicationErrorBase), "scripted failure".to_string()))
                } else {
                    Ok(json!({"called": id, "echo": body}))
                }
            })
            .map_err(|e| e.code() as u32)
    }
    fn dispatch(&self, ptr: &str, body: Option<&Value>, model_says_fn_read: bool, is_write_ok: impl Fn(&Value) -> bool) -> Out {
        match self.reg.dispatch(ptr, body.cloned()) {
            Ok(v) => {
                if body.is_none() {
                    // reading a callable's pointer describes the function (pinned by the crate's own tests as
                    // {"type":"function",..}), whatever value may sit under the same pointer in the document
                    if model_says_fn_read && v.get("type").and_then(|t| t.as_str()) == Some("function") { Out::FnDescriptor } else { Out::Val(v) }
                } else if is_write_ok(&v) {
                    Out::Written
                } else {
                    Out::Val(v)
                }
            }
            Err(e) => Out::Err(e.code() as u32),
        }
    }
    fn doc(&self) -> Value {
        self.reg.read_value("").unwrap_or(Value::Null)
    }
}

#[derive(Clone, Debug, PartialEq, Hash, Eq)]
pub enum Op {
    RegValue(String, String),
    RegFn(String, u64, u32),
    MergeAt(String, String),
    Read(String),
    Write(String, String),
}

fn vj(s: &str) -> Value {
    serde_json::from_str(s).unwrap()
}

const TOKENS: [&str; 24] = ["a", "b", "c", "", "0", "1", "2", "a/b", "m~n", "~", "/", "x y", "é", "arr", "~1", "~0", "~01", "01", "+1", "00", "-0", "+0", "002", "1e0"];

fn gen_tokens(r: &mut Rng, max_depth: usize) -> Vec<String> {
    let d = if r.chance(1, 12) { 0 } else { 1 + r.usize_below(max_depth) };
    (0..d).map(|_| r.pick(&TOKENS).to_string()).collect()
}

fn gen_pointer(r: &mut Rng) -> String {
    // bare "/" (root here, [""] in RFC 6901) is outside the quantifier: never generated
    loop {
        let p = match r.below(12) {
            0 => match r.below(5) {
                // malformed pointers
                0 => "a/b".to_string(),
                1 => "/a~2b".to_string(),
                2 => "/a~".to_string(),
                3 => "x".to_string(),
                _ => format!("/{}~x", r.pick(&TOKENS)),
            },
            1 => to_ptr(&gen_tokens(r, 12)),
            _ => to_ptr(&gen_tokens(r, 3)),
        };
        if p != "/" {
            return p;
        }
    }
}

fn gen_value(r: &mut Rng, tok: u64) -> String {
    match r.below(8) {
        0 => format!("{tok}"),
        1 => format!("\"s{tok}\""),
        2 => format!("{{\"a\":{tok},\"b\":{{\"c\":[{tok},2]}}}}"),
        3 => format!("[{tok},{{\"a\":1}},[3]]"),
        4 => "null".to_string(),
        5 => format!("{{\"a/b\":{tok},\"m~n\":{{\"\":{tok}}}}}"),
        6 => format!("{{\"arr\":[{tok},1,2]}}"),
        _ => "true".to_string(),
    }
}

fn gen_op(r: &mut Rng, tok: u64) -> Op {
    match r.below(20) {
        0 | 1 => {
            let toks = gen_tokens(r, 3);
            let p = if toks.is_empty() { String::new() } else if r.chance(1, 4) { to_ptr(&toks)[1..].to_string() } else { to_ptr(&toks) };
            Op::RegValue(p, gen_value(r, tok))
        }
        2 => {
            let toks = gen_tokens(r, 3);
            Op::RegFn(to_ptr(&toks), tok, if r.chance(1, 5) { 4096 } else { 0 })
        }
        3 => Op::MergeAt(to_ptr(&gen_tokens(r, 2)), format!("{{\"k{}\":{tok},\"a\":{tok}}}", r.below(3))),
        4..=10 => Op::Read(gen_pointer(r)),
        _ => Op::Write(gen_pointer(r), gen_value(r, tok)),
    }
}

fn is_status_ok(v: &Value) -> bool {
    v.get("status").and_then(|s| s.as_str()) == Some("ok")
}

/// Execute ops on registry + model, checking every op from `check_from`. Some((index, sig, detail)).
fn run_seq(ops: &[Op], check_from: usize, init: Option<&Value>) -> Option<(usize, String, String)> {
    let sys = Sys::new();
    let mut m = Model::new();
    if let Some(d) = init {
        sys.reg.set_root(d.clone());
        m.doc = d.clone();
    }
    for (i, op) in ops.iter().enumerate() {
        let log_before = sys.log.lock().unwrap().len();
        let doc_before = m.doc.clone();
        let name = format!("{op:?}");
        let name = name.split('(').next().unwrap_or("").to_string();
        let mut expect_call: Option<(u64, Value)> = None;
        let (ri, rm): (Out, Out) = match op {
            Op::RegValue(p, v) => {
                let a = sys.reg.register_value(p, vj(v)).map_err(|e| e.code() as u32);
                let b = m.register_value(p, vj(v));
                (a.map(|_| Out::Written).unwrap_or_else(Out::Err), b.map(|_| Out::Written).unwrap_or_else(Out::Err))
            }
            Op::RegFn(p, id, err) => {
                let a = sys.register_function(p, *id, *err);
                let b = m.register_function(p, *id, *err);
                (a.map(|_| Out::Written).unwrap_or_else(Out::Err), b.map(|_| Out::Written).unwrap_or_else(Out::Err))
            }
            Op::MergeAt(p, o) => {
                let obj = vj(o).as_object().cloned().unwrap();
                let a = sys.reg.merge_at(p, obj.clone()).map_err(|e| e.code() as u32);
                let b = m.merge_at(p, &obj);
                (a.map(|_| Out::Written).unwrap_or_else(Out::Err), b.map(|_| Out::Written).unwrap_or_else(Out::Err))
            }
            Op::Read(p) => {
                let (b, _) = m.dispatch(p, None);
                let a = sys.dispatch(p, None, b == Out::FnDescriptor, |_| false);
                (a, b)
            }
            Op::Write(p, v) => {
                let body = vj(v);
                let (b, call) = m.dispatch(p, Some(&body));
                expect_call = call;
                let written = b == Out::Written;
                let a = sys.dispatch(p, Some(&body), false, |v| written && is_status_ok(v));
                (a, b)
            }
        };
        if i < check_from {
            continue;
        }
        if ri != rm {
            return Some((i, format!("C14:result:{name}"), format!("{op:?} returned {ri:?}, model {rm:?}")));
        }
        let doc = sys.doc();
        if doc != m.doc {
            let class = if matches!(op, Op::Read(_)) || matches!(&rm, Out::Err(_)) { "mutated-by-non-write" } else { "document" };
            return Some((i, format!("C14:{class}:{name}"), format!("after {op:?}: document is {doc}, model {} (before: {doc_before})", m.doc)));
        }
        let log = sys.log.lock().unwrap();
        let new: Vec<_> = log[log_before..].to_vec();
        match (&expect_call, new.as_slice()) {
            (None, []) => {}
            (Some((id, body)), [(gid, gbody)]) if gid == id && gbody == body => {}
            (want, got) => {
                return Some((i, format!("C14:callable-invocation:{name}"), format!("{op:?}: callable invocations {got:?}, expected {want:?}")));
            }
        }
        // read-your-writes through the public read path and through the plain-document helpers
        if let (Op::Write(p, v), Out::Written) = (op, &rm) {
            if let Ok(toks) = parse_ptr(p) {
                if !toks.is_empty() {
                    let back = sys.reg.dispatch(p, None).ok();
                    if back != Some(vj(v)) && !m.fns.contains_key(&to_ptr(&toks)) {
                        return Some((i, "C14:read-your-write".into(), format!("wrote {v} at {p}, next read returned {back:?}")));
                    }
                }
            }
        }
    }
    None
}

fn opj(ops: &[Op]) -> Value {
    json!(ops.iter().map(|o| format!("{o:?}")).collect::<Vec<_>>())
}

// ------------------------------------------------------------------ pointer helpers

fn check_helpers(rep: &mut Report, r: &mut Rng) {
    let toks = gen_tokens(r, 40);
    if toks.is_empty() || (toks.len() == 1 && toks[0].is_empty()) {
        return;
    }
    rep.eval();
    rep.distinct(&("helpers", &toks));
    let p = to_ptr(&toks);
    match catching(|| repe::parse_json_pointer(&p)) {
        Ok(got) if got == toks => {}
        Ok(got) => rep.violation("C14:pointer-helper:parse", format!("parse_json_pointer({p:?}) = {got:?}, tokens were {toks:?}"), json!({"pointer": p})),
        Err(e) => rep.violation("C14:pointer-helper:panic", e, json!({"pointer": p})),
    }
    // evaluate against a document built to contain the path
    let mut doc = json!({"leaf": 1});
    for t in toks.iter().rev() {
        doc = if index(t, 3).is_some() && r.coin() {
            let mut a = vec![json!(null), json!(null), json!(null)];
            a[index(t, 3).unwrap()] = doc;
            Value::Array(a)
        } else {
            json!({ t.clone(): doc })
        };
    }
    let want = resolve(&doc, &toks).cloned();
    match catching(|| repe::eval_json_pointer(&doc, &p).cloned()) {
        Ok(got) if got == want && want.is_some() => {}
        Ok(got) => rep.violation("C14:pointer-helper:eval", format!("eval_json_pointer({p:?}) = {got:?}, expected {want:?}"), json!({"pointer": p, "doc": doc})),
        Err(e) => rep.violation("C14:pointer-helper:panic", e, json!({"pointer": p})),
    }
    // the registry reads the same location
    let reg = Registry::new();
    reg.set_root(doc.clone());
    match reg.read_value(&p) {
        Ok(v) if Some(&v) == want.as_ref() => {}
        other => rep.violation("C14:deep-read", format!("read_value({p:?}) = {other:?}, expected {want:?}"), json!({"pointer": p, "doc": doc})),
    }
}

// ------------------------------------------------------------------ mount replay

fn check_mount(rep: &mut Report, r: &mut Rng, case: u64) {
    let main_prefix = *r.pick(&["", "/reg", "/api/v1", "/a~1b", "/reg/sub"]);
    // a sibling mount whose prefix extends the main one as a STRING but not at a '/' boundary ("/reg" and "/reg2"), registered
    // before or after it: mounting under a prefix only strips that prefix, so each mount must see exactly its own requests
    let sib_prefix = format!("{main_prefix}{}", r.pick(&["2", "x", "~0", "-b"]));
    let with_sibling = !main_prefix.is_empty() && r.coin();
    let (direct_main, mounted_main, direct_sib, mounted_sib) = (Sys::new(), Sys::new(), Sys::new(), Sys::new());
    let router = if !with_sibling {
        Router::new().with_registry(main_prefix, mounted_main.reg.clone())
    } else if r.coin() {
        Router::new().with_registry(main_prefix, mounted_main.reg.clone()).with_registry(&sib_prefix, mounted_sib.reg.clone())
    } else {
        Router::new().with_registry(&sib_prefix, mounted_sib.reg.clone()).with_registry(main_prefix, mounted_main.reg.clone())
    };
    let init = json!({"a": {"b": 1}, "arr": [1, 2, 3], "a/b": {"m~n": 5}});
    for s in [&direct_main, &mounted_main, &direct_sib, &mounted_sib] {
        s.reg.set_root(init.clone());
        s.register_function("/fn", 1, 0).unwrap();
        s.register_function("/a~1b/call", 2, 0).unwrap();
    }
    let n = 1 + r.usize_below(12);
    for j in 0..n {
        let to_sib = with_sibling && r.coin();
        let (prefix, direct, mounted): (&str, &Sys, &Sys) = if to_sib { (&sib_prefix, &direct_sib, &mounted_sib) } else { (main_prefix, &direct_main, &mounted_main) };
        let ptr = match r.below(6) {
            0 => "/fn".to_string(),
            1 => "/a~1b/call".to_string(),
            _ => gen_pointer(r),
        };
        if ptr.is_empty() && prefix.is_empty() {
            continue;
        }
        let body = if r.coin() { None } else { Some(vj(&gen_value(r, case * 100 + j as u64))) };
        rep.eval();
        rep.distinct(&("mount", prefix, &ptr, body.is_some()));
        let d = direct.reg.dispatch(&ptr, body.clone());
        let path = format!("{prefix}{ptr}");
        let Some(h) = router.get(&path) else {
            // a malformed pointer without leading '/' glued to the prefix is a different route; only
            // well-formed sub-paths must reach the mount
            if ptr.starts_with('/') || ptr.is_empty() {
                rep.violation("C14:mount:not-routed", format!("path {path:?} under prefix {prefix:?} did not reach the registry mount"), json!({"prefix": prefix, "pointer": ptr}));
            }
            continue;
        };
        if !(ptr.starts_with('/') || ptr.is_empty()) {
            continue;
        }
        let mut b = Message::builder().id(j as u64 + 1).query_str(&path).query_format(QueryFormat::JsonPointer);
        if let Some(v) = &body {
            // JSON mostly, BEVE now and then (the same value either way)
            b = if r.below(4) == 0 { b.body_beve(v).unwrap() } else { b.body_json(v).unwrap() };
        } else {
            // an empty body is a read whatever its body-format code says
            b = b.body_format_code(*r.pick(&[0u16, 1, 2, 3, 3, 77]));
        }
        let req = b.build();
        // the owned and the borrowed entry point of the mount are twins: half the requests go through each
        let via_view = r.coin();
        rep.count(if via_view { "mount_requests_via_handle_view" } else { "mount_requests_via_handle" }, 1);
        let wire = req.to_vec();
        let resp = match catching(|| if via_view { h.handle_view(&MessageView::from_slice(&wire).unwrap(), &CallContext::detached(&path)) } else { h.handle(&req) }) {
            Ok(Ok(m)) => m,
            Ok(Err(e)) => {
                rep.violation("C14:mount:handler-error", format!("mounted registry handler returned Err({e}) for {path:?}"), json!({"prefix": prefix, "pointer": ptr}));
                continue;
            }
            Err(p) => {
                rep.violation("C14:mount:panic", p, json!({"prefix": prefix, "pointer": ptr}));
                continue;
            }
        };
        let same = match &d {
            Ok(v) => resp.header.ec == 0 && serde_json::from_slice::<Value>(&resp.body).ok().as_ref() == Some(v),
            Err(e) => resp.header.ec == e.code() as u32,
        };
        if !same {
            rep.violation(
                "C14:mount:differs-from-direct",
                format!("prefix {prefix:?} pointer {ptr:?} body {body:?}: direct dispatch {d:?}, mounted response ec={} body={}", resp.header.ec, String::from_utf8_lossy(&resp.body)),
                json!({"prefix": prefix, "pointer": ptr}),
            );
        }
        if direct.doc() != mounted.doc() || *direct.log.lock().unwrap() != *mounted.log.lock().unwrap() {
            rep.violation("C14:mount:state-differs", format!("after {path:?}: mounted registry state differs from the directly driven twin"), json!({"prefix": prefix, "pointer": ptr}));
        }
        if with_sibling {
            rep.count("mount_requests_with_a_sibling_prefix_mounted", 1);
            let (od, om) = if to_sib { (&direct_main, &mounted_main) } else { (&direct_sib, &mounted_sib) };
            if od.doc() != om.doc() || *od.log.lock().unwrap() != *om.log.lock().unwrap() {
                rep.violation("C14:mount:sibling-state-changed", format!("after {path:?} (mounts at {main_prefix:?} and {sib_prefix:?}): the OTHER mount's registry changed"), json!({"prefix": prefix, "pointer": ptr, "sibling": sib_prefix}));
            }
        }
    }
}

// ------------------------------------------------------------------ callables that use their own registry

/// A callable may read, write and register into the registry it is registered in (nothing in the statement forbids it, and the
/// registry releases its lock before invoking): the request completes, the callable ran exactly once with the supplied body, and
/// what it wrote is what later reads return. Each scenario runs on a helper thread with a bounded wait.
fn check_reentrant_callables(rep: &mut Report) {
    for kind in 0..4u32 {
        let reg = Arc::new(Registry::new());
        reg.set_root(json!({"k": 1, "arr": [1, 2, 3]}));
        let calls = Arc::new(Mutex::new(0u32));
        let (r2, c2) = (reg.clone(), calls.clone());
        reg.register_function("/fn", move |params: Option<Value>| {
            *c2.lock().unwrap() += 1;
            let body = params.unwrap_or(Value::Null);
            match kind {
                0 => {
                    let _ = r2.dispatch("/k", Some(body.clone()));
                }
                1 => {
                    let _ = r2.register_value("/made/by/fn", body.clone());
                }
                2 => {
                    let _ = r2.read_value("/arr/1");
                    let _ = r2.dispatch("/arr/1", Some(body.clone()));
                }
                _ => {
                    let mut m = Map::new();
                    m.insert("merged".to_string(), body.clone());
                    let _ = r2.merge_root(m);
                }
            }
            Ok(json!({"did": kind}))
        })
        .unwrap();
        let (tx, rx) = std::sync::mpsc::channel();
        let r3 = reg.clone();
        let hb = Heartbeat::start();
        std::thread::spawn(move || {
            let out = r3.dispatch("/fn", Some(json!(41)));
            let after = (r3.read_value("/k").ok(), r3.read_value("/made/by/fn").ok(), r3.read_value("/arr/1").ok(), r3.read_value("/merged").ok());
            let _ = tx.send((out.map_err(|e| e.code() as u32), after));
        });
        rep.eval();
        rep.distinct(&("reentrant-callable", kind));
        let what = ["writes /k", "registers a value", "reads and writes an array element", "merges into the root"][kind as usize];
        match rx.recv_timeout(std::time::Duration::from_secs(15)) {
            Err(_) => {
                if hb.max_gap_ms() > 1000 {
                    rep.inconclusive("re-entrant callable did not finish in 15 s, but the machine stalled");
                } else {
                    rep.violation("C14:callable-uses-its-registry:never-returned", format!("a callable that {what} through its own registry handle never returned (15 s): the registry is still locked while the callable runs"), json!({"kind": kind}));
                }
            }
            Ok((out, (k, made, arr1, merged))) => {
                let n = *calls.lock().unwrap();
                let ok = out == Ok(json!({"did": kind}))
                    && n == 1
                    && match kind {
                        0 => k == Some(json!(41)),
                        1 => made == Some(json!(41)),
                        2 => arr1 == Some(json!(41)),
                        _ => merged == Some(json!(41)),
                    };
                if !ok {
                    rep.violation("C14:callable-uses-its-registry:wrong-outcome", format!("callable that {what}: dispatch returned {out:?}, invoked {n} time(s); afterwards /k={k:?} /made/by/fn={made:?} /arr/1={arr1:?} /merged={merged:?}"), json!({"kind": kind}));
                } else {
                    rep.count("reentrant_callables_completed", 1);
                }
            }
        }
    }
}

// ------------------------------------------------------------------ concurrency

#[derive(Clone, Debug)]
struct Ev {
    ptr: String,
    body: Option<Value>,
    out: Out,
    call: u64,
    done: u64,
    thread: usize,
}

fn linearizable(h: &[Ev], init: &Model, budget: &mut u64) -> Option<bool> {
    fn rec(h: &[Ev], mask: u32, m: &Model, memo: &mut HashSet<(u32, u64)>, budget: &mut u64) -> Option<bool> {
        if mask == (1u32 << h.len()) - 1 {
            return Some(true);
        }
        if *budget == 0 {
            return None;
        }
        *budget -= 1;
        if !memo.insert((mask, hash_of(&m.doc.to_string()))) {
            return Some(false);
        }
        let min_done = (0..h.len()).filter(|i| mask & (1 << i) == 0).map(|i| h[i].done).min().unwrap();
        for i in 0..h.len() {
            if mask & (1 << i) != 0 || h[i].call > min_done {
                continue;
            }
            let mut m2 = m.clone();
            let (out, _) = m2.dispatch(&h[i].ptr, h[i].body.as_ref());
            if out == h[i].out {
                match rec(h, mask | (1 << i), &m2, memo, budget) {
                    Some(true) => return Some(true),
                    None => return None,
                    Some(false) => {}
                }
            }
        }
        Some(false)
    }
    rec(h, 0, init, &mut HashSet::new(), budget)
}

fn concurrent_case(rng: &mut Rng, threads: usize, per: usize) -> (Vec<Ev>, Model, usize, usize) {
    let sys = Arc::new(Sys::new());
    let init = json!({"a": {"b": 0}, "arr": [0, 0], "k": 0});
    sys.reg.set_root(init.clone());
    sys.register_function("/fn", 1, 0).unwrap();
    let mut model = Model::new();
    model.doc = init;
    model.register_function("/fn", 1, 0).unwrap();
    let ptrs = ["/a", "/a/b", "/arr/1", "/k", "/fn", "", "/missing/x"];
    let clock = Arc::new(AtomicU64::new(0));
    let hist = Arc::new(Mutex::new(vec![]));
    let barrier = Arc::new(std::sync::Barrier::new(threads));
    let mut hs = vec![];
    let mut expected_calls = 0;
    let mut plans = vec![];
    for t in 0..threads {
        let mut r = rng.fork(t as u64);
        let plan: Vec<(String, Option<Value>)> = (0..per)
            .map(|j| {
                let p = r.pick(&ptrs).to_string();
                let tok = (t * 100 + j) as u64 + 1;
                let body = if r.chance(2, 5) {
                    None
                } else if p.is_empty() {
                    Some(json!({"k": tok, format!("t{t}"): tok}))
                } else if p == "/a" {
                    Some(json!({"b": tok}))
                } else {
                    Some(json!(tok))
                };
                (p, body)
            })
            .collect();
        expected_calls += plan.iter().filter(|(p, b)| p == "/fn" && b.is_some()).count();
        plans.push(plan);
    }
    for (t, plan) in plans.into_iter().enumerate() {
        let (sys, clock, hist, barrier) = (sys.clone(), clock.clone(), hist.clone(), barrier.clone());
        let mut r = rng.fork(1000 + t as u64);
        hs.push(std::thread::spawn(move || {
            barrier.wait();
            for (p, body) in plan {
                if r.coin() {
                    std::thread::yield_now();
                }
                let call = clock.fetch_add(1, Ordering::SeqCst);
                let res = sys.reg.dispatch(&p, body.clone());
                let done = clock.fetch_add(1, Ordering::SeqCst);
                let out = match res {
                    Ok(v) => {
                        if body.is_none() {
                            if p == "/fn" { Out::FnDescriptor } else { Out::Val(v) }
                        } else if p != "/fn" && is_status_ok(&v) {
                            Out::Written
                        } else {
                            Out::Val(v)
                        }
                    }
                    Err(e) => Out::Err(e.code() as u32),
                };
                hist.lock().unwrap().push(Ev { ptr: p, body, out, call, done, thread: t });
            }
        }));
    }
    for h in hs {
        let _ = h.join();
    }
    let h = hist.lock().unwrap().clone();
    let calls = sys.log.lock().unwrap().len();
    (h, model, calls, expected_calls)
}

pub fn run(args: &Args) -> Report {
    let mut rep = Report::new(
        args,
        "c14-model",
        "Registry vs plain-JSON-document model: (a) ALL read/write sequences up to length 5 over 3 pointers x 3 values on a \
         fixed document; (b) random sequences up to 100 of register/merge/read/write/call over pointers with escapes, empty \
         tokens, array indices, malformed pointers and depth <= 12, whole document + callable log compared after every op; \
         (c) pointer helper round trips to depth 40; (d) the same requests through Router::with_registry under 5 prefixes vs a \
         directly driven twin; (e) concurrent histories (<=4 threads x 4 ops) checked for linearizability; distinct = distinct \
         sequences / pointers / histories",
    );
    let miri = args.stage.starts_with("miri");
    quiet_panics(true);
    let (lz, lp) = probe_index_modes();
    rep.set("array_index_spelling_on_the_read_path", json!({"leading_zeros_accepted": lz, "plus_sign_accepted": lp, "note": "every other path (write, merge, mount, helpers) must agree with the read path"}));
    check_reentrant_callables(&mut rep);
    let mut rng = Rng::new(args.seed ^ 0xC14);

    // (a) small scope, exhaustive
    let init = json!({"a": {"b": 1}, "arr": [1, 2]});
    let ptrs = ["/a", "/a/b", "/arr/0"];
    let vals = ["7", "{\"b\":2}", "[9]"];
    let mut alpha = vec![];
    for p in ptrs {
        alpha.push(Op::Read(p.to_string()));
        for v in vals {
            alpha.push(Op::Write(p.to_string(), v.to_string()));
        }
    }
    let max_len = if miri { 2 } else { 5 };
    let mut idx: Vec<usize> = vec![];
    let mut n_ex = 0u64;
    fn rec(idx: &mut Vec<usize>, alpha: &[Op], max_len: usize, init: &Value, n: &mut u64, rep: &mut Report) {
        if !idx.is_empty() {
            let ops: Vec<Op> = idx.iter().map(|&i| alpha[i].clone()).collect();
            *n += 1;
            match catching(|| run_seq(&ops, ops.len() - 1, Some(init))) {
                Ok(None) => {}
                Ok(Some((_, sig, d))) => rep.violation(sig, d, json!({"init": init, "ops": opj(&ops)})),
                Err(p) => rep.violation(format!("C14:panic:{}", panic_site(&p)), p, json!({"ops": opj(&ops)})),
            }
        }
        if idx.len() == max_len {
            return;
        }
        for i in 0..alpha.len() {
            idx.push(i);
            rec(idx, alpha, max_len, init, n, rep);
            idx.pop();
        }
    }
    rec(&mut idx, &alpha, max_len, &init, &mut n_ex, &mut rep);
    rep.evaluations += n_ex;
    for i in 0..n_ex {
        rep.distinct(&("x", i));
    }
    rep.set("small_scope_sequences", json!(n_ex));
    rep.set("small_scope_exhaustive", json!(n_ex == (1..=max_len as u32).map(|l| 12u64.pow(l)).sum::<u64>()));
    rep.exhaustive = Some(false);

    // (b) random sequences
    let n = args.budget(4_000, 200_000);
    let mut ops_checked = 0u64;
    for case in 0..n {
        let mut r = rng.fork(case);
        let len = if miri { 1 + r.usize_below(8) } else { 1 + r.usize_below(100) };
        let ops: Vec<Op> = (0..len).map(|j| gen_op(&mut r, case * 1000 + j as u64)).collect();
        ops_checked += len as u64;
        rep.eval();
        rep.distinct(&ops);
        if case < 3 {
            rep.sample(json!({"kind": "random", "ops": opj(&ops[..len.min(8)])}));
        }
        match catching(|| run_seq(&ops, 0, None)) {
            Ok(None) => {}
            Ok(Some((i, sig, d))) => {
                let small = shrink_seq(ops[..=i].to_vec(), |t| matches!(catching(|| run_seq(t, 0, None)), Ok(Some((_, s2, _))) if s2 == sig));
                let d2 = match catching(|| run_seq(&small, 0, None)) {
                    Ok(Some((j, _, d2))) => format!("op #{j}: {d2}"),
                    _ => format!("op #{i}: {d}"),
                };
                rep.violation(sig, d2, json!({"ops": opj(&small), "shrunk_from_len": i + 1}))
            }
            Err(p) => rep.violation(format!("C14:panic:{}", panic_site(&p)), p, json!({"ops": opj(&ops)})),
        }
    }
    rep.set("random_operations_checked", json!(ops_checked));

    // (c) helpers, (d) mount
    let nh = args.budget(3_000, 100_000);
    for case in 0..nh {
        let mut r = rng.fork(0x10_0000 + case);
        check_helpers(&mut rep, &mut r);
        if case % 4 == 0 {
            check_mount(&mut rep, &mut r, case);
        }
    }

    // (e) concurrent histories
    let nc = if miri { 2 } else { args.budget(800, 40_000) };
    let (mut lin_ok, mut overlapping, mut timeouts) = (0u64, 0u64, 0u64);
    for case in 0..nc {
        let mut r = rng.fork(0x20_0000 + case);
        let threads = if miri { 2 } else { 2 + r.usize_below(3) };
        let (h, model, calls, expected_calls) = concurrent_case(&mut r, threads, if miri { 2 } else { 4 });
        rep.eval();
        let mut s = h.clone();
        s.sort_by_key(|e| e.call);
        rep.distinct(&s.iter().map(|e| (e.thread, e.ptr.clone(), format!("{:?}", e.out))).collect::<Vec<_>>());
        if s.windows(2).any(|w| w[1].call < w[0].done) {
            overlapping += 1;
        }
        let hj = || json!(s.iter().map(|e| format!("t{} [{}..{}] {} {:?} -> {:?}", e.thread, e.call, e.done, e.ptr, e.body, e.out)).collect::<Vec<_>>());
        if calls != expected_calls {
            rep.violation("C14:callable-invocation:concurrent", format!("{calls} callable invocations for {expected_calls} call requests"), json!({"history": hj()}));
        }
        let mut budget = 3_000_000u64;
        match linearizable(&h, &model, &mut budget) {
            Some(true) => lin_ok += 1,
            Some(false) => rep.violation("C14:not-linearizable", "no sequential order of the recorded concurrent history matches the document model", json!({"history": hj()})),
            None => timeouts += 1,
        }
        if case == 0 {
            rep.sample(json!({"kind": "concurrent", "history": hj()}));
        }
    }
    quiet_panics(false);
    rep.set("concurrent_histories_linearizable", json!(lin_ok));
    rep.set("concurrent_histories_with_overlapping_ops", json!(overlapping));
    rep.set("linearizability_checker_timeouts", json!(timeouts));
    if timeouts > nc / 10 {
        rep.inconclusive(format!("linearizability checker timed out on {timeouts} of {nc} histories"));
    }
    if !miri && overlapping == 0 {
        rep.inconclusive("no concurrent history had overlapping operations");
    }
    rep
}
