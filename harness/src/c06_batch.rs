//! C06 batch form of the forced timeout-vs-response windows.
//!
//! c06_gates.rs forces "timeout fired, entry not yet removed, reader delivers" and "reader took the entry,
//! timeout fires, reader delivers to nobody" for SINGLE calls. A batch (`batch_json_with_timeout`) drives many
//! requests through the same client under one per-request timeout; the blocking `Client` runs them on a bounded
//! pool of worker threads (`min(n, clamp(4 * available_parallelism, 1, 64))`), so with more requests than workers a
//! worker whose request just timed out goes on to serve the next request of the batch. Whatever the late response
//! of the timed-out request left behind (a queued message, a registered id) meets exactly that next request.
//!
//! Scenario (all three clients; fresh client, the first registered request - id 1 - is the one that times out):
//!   * blocking client: batch of `pool + extra` requests; the other `pool - 1` workers are parked at
//!     `client.registered` (before their write: their timeout clock has not started), so the queue is still
//!     non-empty when the victim's worker returns: it serves the `extra` remaining requests one after the other;
//!     then the parked workers are released and the rest of the batch runs.
//!   * async / WebSocket client: one task per request; the rest of the batch is answered on arrival.
//!   * the response of request 1 is forced into one of three windows by parking at the probes:
//!       `timeout.before_remove`  caller parked after its timeout fired, entry still registered; the reader matches
//!                                and delivers; then the caller removes and returns
//!       `reader.before_deliver`  reader parked with the entry already taken until the timeout fired and the caller
//!                                returned (blocking client: and, on a coin, until its worker's next request is on
//!                                the wire); then the reader delivers to nobody
//!       `late-after-return`      no response until the caller returned (blocking client: until the worker's next
//!                                request reached the server); then the late response, then the others
//!   * afterwards on the same client: a second batch (again larger than the pool, alternately with a generous
//!     timeout and without), one ordinary call, pending table empty.
//!
//! Oracle (positional, unique tokens): every request other than the timed-out one returns ITS OWN token, the timed-out
//! one returns a timeout error (or its own token when the response won), `verif_pending_len()` is 0 at the end, every
//! later request / call returns its own token. A request of the first batch that ran into the (short, shared)
//! timeout although the harness answered it is a slow machine: counted, schedule "not forced", never a violation.

use super::imp::{Stats, check_panic};
use super::infra::*;
use crate::common::*;
use serde_json::{Value, json};
use std::sync::mpsc;
use std::time::{Duration, Instant};

#[derive(Clone, Copy, Debug, PartialEq, Eq, Hash)]
pub enum Win {
    TimeoutBeforeRemove,
    ReaderBeforeDeliver,
    LateAfterReturn,
}
const WINS: [Win; 3] = [Win::TimeoutBeforeRemove, Win::ReaderBeforeDeliver, Win::LateAfterReturn];

impl Win {
    fn name(self) -> &'static str {
        match self {
            Win::TimeoutBeforeRemove => "timeout.before_remove",
            Win::ReaderBeforeDeliver => "reader.before_deliver",
            Win::LateAfterReturn => "late-after-return",
        }
    }
}

/// The blocking client's batch worker count for `n` requests (src/client.rs `batch_worker_count`: the pool is capped at
/// `clamp(4 * available_parallelism, 1, 64)`).
fn pool_size(n: usize) -> usize {
    let par = std::thread::available_parallelism().map(|c| c.get()).unwrap_or(1);
    n.min(par.saturating_mul(4).clamp(1, 64))
}
const POOL_CAP: usize = 64;

fn conv(r: Result<Value, repe::RepeError>) -> CallRes {
    match r {
        Ok(v) => CallRes::Ok(v),
        Err(e) => CallRes::Err(format!("{}: {}", ekind(&e), trunc(&e.to_string(), 160))),
    }
}

struct Batch {
    toks: Vec<u64>,
    rx: mpsc::Receiver<Vec<CallRes>>,
    res: Option<Vec<CallRes>>,
}

fn launch_batch(env: &mut Env, cli: &Cli, n: usize, timeout: Option<Duration>, rng: &mut Rng) -> Batch {
    let toks: Vec<u64> = (0..n).map(|_| env.token()).collect();
    let reqs: Vec<(String, Value)> = toks.iter().map(|t| (PATH.to_string(), body_for(*t, rng.usize_below(24)))).collect();
    let (tx, rx) = mpsc::channel();
    match cli.clone() {
        Cli::Sync(c) => {
            let tx2 = tx.clone();
            let r = std::thread::Builder::new().name("c06-batch".into()).spawn(move || {
                let r = catching(|| match timeout {
                    Some(d) => c.batch_json_with_timeout(reqs, d),
                    None => c.batch_json(reqs),
                });
                let _ = tx.send(match r {
                    Ok(v) => v.into_iter().map(conv).collect(),
                    Err(p) => (0..n).map(|_| CallRes::Panic(p.clone())).collect(),
                });
            });
            if let Err(e) = r {
                let _ = tx2.send((0..n).map(|_| CallRes::Panic(format!("harness: thread spawn failed: {e}"))).collect());
            }
        }
        Cli::Async(c) => {
            env.rt_cli.spawn(async move {
                let v = match timeout {
                    Some(d) => c.batch_json_with_timeout(reqs, d).await,
                    None => c.batch_json(reqs).await,
                };
                let _ = tx.send(v.into_iter().map(conv).collect());
            });
        }
        Cli::Ws(c) => {
            env.rt_cli.spawn(async move {
                let v = match timeout {
                    Some(d) => c.batch_json_with_timeout(reqs, d).await,
                    None => c.batch_json(reqs).await,
                };
                let _ = tx.send(v.into_iter().map(conv).collect());
            });
        }
    }
    Batch { toks, rx, res: None }
}

/// Answer (completely, correctly) every request the fake server has seen and not yet looked at, except ids in `hold`.
fn pump(srv: &mut Srv, cursor: &mut usize, hold: &[u64], ws: bool) {
    srv.poll();
    while *cursor < srv.reqs.len() {
        let r = srv.reqs[*cursor].clone();
        if !hold.contains(&r.header.id) {
            srv.answer(&r, ws);
        }
        *cursor += 1;
    }
}

fn wait_until(dur: Duration, mut f: impl FnMut() -> bool) -> bool {
    let deadline = Instant::now() + dur;
    loop {
        if f() {
            return true;
        }
        if Instant::now() >= deadline {
            return false;
        }
        std::thread::sleep(Duration::from_millis(1));
    }
}

/// Keep answering until the batch has returned.
fn finish_batch(b: &mut Batch, srv: &mut Srv, cursor: &mut usize, hold: &[u64], ws: bool, dur: Duration) -> bool {
    let deadline = Instant::now() + dur;
    loop {
        pump(srv, cursor, hold, ws);
        match b.rx.recv_timeout(Duration::from_millis(2)) {
            Ok(v) => {
                b.res = Some(v);
                pump(srv, cursor, hold, ws);
                return true;
            }
            Err(mpsc::RecvTimeoutError::Disconnected) => return false,
            Err(mpsc::RecvTimeoutError::Timeout) => {}
        }
        if Instant::now() >= deadline {
            return false;
        }
    }
}

fn is_timeout(e: &str) -> bool {
    e.starts_with("Io:TimedOut")
}

struct Cx<'a> {
    kind: Kind,
    win: Win,
    replay: &'a Value,
}

impl Cx<'_> {
    fn sig(&self, what: &str) -> String {
        format!("C06:{}:batch-timeout-window:{}:{what}", self.kind.name(), self.win.name())
    }
}

/// Positional judgement of one returned batch. `victim`: position of the request that was made to time out (first batch
/// only). `short_timeout`: the batch ran under the short shared timeout, so a timeout error of another request is a slow
/// machine, not a verdict. Returns the number of such slow-machine timeouts.
fn judge_batch(rep: &mut Report, cx: &Cx, b: &Batch, srv: &Srv, victim: Option<usize>, short_timeout: bool, phase: &str) -> usize {
    let Some(res) = &b.res else { return 0 };
    let mut slow = 0usize;
    let mut failed: Vec<(usize, String)> = vec![];
    if res.len() != b.toks.len() {
        rep.violation(cx.sig(&format!("{phase}:result-count")), format!("a batch of {} requests returned {} results", b.toks.len(), res.len()), cx.replay.clone());
        return 0;
    }
    for (i, (tok, r)) in b.toks.iter().zip(res.iter()).enumerate() {
        let is_victim = victim == Some(i);
        match r {
            CallRes::Ok(v) => {
                if v["t"].as_u64() != Some(*tok) {
                    rep.violation(
                        cx.sig(&format!("{phase}:wrong-token")),
                        format!("request #{i} of the batch sent token {tok} and was handed a response carrying {} (timed-out request at position {victim:?}); trace: {}", v["t"], ps_trace()),
                        cx.replay.clone(),
                    );
                } else if !srv.sent_tokens.contains(tok) {
                    rep.violation(cx.sig(&format!("{phase}:phantom-response")), format!("request #{i} (token {tok}) returned Ok although the fake server never sent a response for it"), cx.replay.clone());
                } else {
                    rep.count("batch_window.requests_returned_own_token", 1);
                    if is_victim {
                        rep.count("batch_window.timed_request_got_own_response", 1);
                    }
                }
            }
            CallRes::Err(e) if is_victim => {
                if is_timeout(e) {
                    rep.count("batch_window.timed_request_got_timeout_err", 1);
                } else {
                    rep.violation(
                        cx.sig(&format!("{phase}:timed-out-request-wrong-error")),
                        format!("request #{i} (token {tok}) was left without a response until its timeout and returned Err({e}) instead of a timeout error; trace: {}", ps_trace()),
                        cx.replay.clone(),
                    );
                }
            }
            CallRes::Err(e) if short_timeout && is_timeout(e) => {
                slow += 1;
                rep.count("batch_window.other_requests_that_ran_into_the_short_timeout", 1);
            }
            CallRes::Err(e) => failed.push((i, e.clone())),
            CallRes::Panic(p) => {
                rep.violation(format!("C06:panic:{}:batch-timeout-window:{}:{}", cx.kind.name(), cx.win.name(), panic_site(p)), format!("batch request #{i} panicked inside the client: {p}"), cx.replay.clone());
            }
        }
    }
    if let Some((i, e)) = failed.first() {
        let what = match phase {
            "same-batch" => "healthy-request-failed",
            "later-batch" => "later-batch-request-failed",
            _ => "later-call-failed",
        };
        rep.count("batch_window.healthy_requests_failed", failed.len() as u64);
        rep.violation(
            cx.sig(what),
            format!(
                "{} of {} requests of the {phase} failed on a healthy connection although the fake server answered each of them (the request made to time out was at position {victim:?}); first: request #{i} (token {}) returned Err({e}); failing positions {:?}; trace: {}",
                failed.len(),
                b.toks.len(),
                b.toks[*i],
                failed.iter().map(|f| f.0).take(40).collect::<Vec<_>>(),
                ps_trace()
            ),
            cx.replay.clone(),
        );
    }
    slow
}

fn hang(rep: &mut Report, env: &mut Env, cx: &Cx, what: &str, detail: String) {
    ps_release_all();
    env.hangs_left -= 1;
    let gap = env.hb.max_gap_ms();
    if gap > 1000 {
        rep.inconclusive(format!("{} / batch-timeout-window:{}: {what} observed, but the heartbeat saw a {gap} ms scheduling stall", cx.kind.name(), cx.win.name()));
    } else {
        rep.violation(cx.sig(what), format!("{detail} (heartbeat max gap {gap} ms); last panic: {:?}; trace: {}", take_last_panic(), ps_trace()), cx.replay.clone());
    }
}

fn run_one(env: &mut Env, rep: &mut Report, st: &mut Stats, kind: Kind, win: Win, rng: &mut Rng, case: u64) {
    let ws = kind == Kind::Ws;
    let sync = kind == Kind::Sync;
    let extra = 3 + rng.usize_below(6);
    let n = if sync { POOL_CAP + extra } else { 6 + rng.usize_below(11) };
    let pool = if sync { pool_size(n) } else { 0 };
    // `POOL_CAP + extra` always exceeds the pool; keep the batch just `extra` larger than the actual pool
    let n = if sync { pool + extra } else { n };
    let to = Duration::from_millis(300 + rng.below(120));
    let replay = json!({"scenario": "batch-timeout-window", "client": kind.name(), "window": win.name(), "batch": n, "pool": pool, "timeout_ms": to.as_millis() as u64, "seed": rep.seed, "case": case});
    let cx = Cx { kind, win, replay: &replay };
    let label = format!("{} / batch-timeout-window:{}", kind.name(), win.name());
    env.hb_reset();
    ps_reset();
    let _ = take_last_panic();
    let (cli, mut srv) = match env.connect(kind, true) {
        Ok(x) => x,
        Err(e) => return rep.inconclusive(format!("{label}: {e}")),
    };
    rep.eval();
    rep.distinct(&("batch-window", kind, win, n, pool));
    rep.count("batch_window.scenarios", 1);
    let p = |w: &str| kind.pt(w).unwrap();
    let (tbr, rrx, rbd) = (p("timeout.before_remove"), p("reader.received"), p("reader.before_deliver"));
    let xid = 1u64;
    match win {
        Win::TimeoutBeforeRemove => ps_park((tbr, xid)),
        Win::ReaderBeforeDeliver => ps_park((rbd, xid)),
        Win::LateAfterReturn => {}
    }
    if sync {
        // every other worker of the pool waits before its write (its timeout clock has not started)
        for id in 2..=pool as u64 {
            ps_park((p("registered"), id));
        }
    }
    let mut b = launch_batch(env, &cli, n, Some(to), rng);
    rep.count("batch_window.requests_in_first_batches", n as u64);
    let mut cur = 0usize;
    let hold = [xid];
    let seen = wait_until(STEP_MAX, || {
        pump(&mut srv, &mut cur, &hold, ws);
        srv.reqs.iter().any(|r| r.header.id == xid)
    });
    let xreq = srv.reqs.iter().find(|r| r.header.id == xid).cloned();
    let xpos = xreq.as_ref().and_then(|r| b.toks.iter().position(|t| *t == r.token));
    let (Some(xreq), Some(xpos), true) = (xreq, xpos, seen) else {
        ps_release_all();
        let _ = finish_batch(&mut b, &mut srv, &mut cur, &[], ws, WINDOW);
        return rep.inconclusive(format!("{label}: the request with id {xid} was not seen by the fake server ({:?})", srv.gone));
    };
    let mut forced = true;
    let mut followup_seen = false;
    match win {
        Win::TimeoutBeforeRemove => {
            forced &= wait_until(STEP_MAX, || {
                pump(&mut srv, &mut cur, &hold, ws);
                ps_wait_parked((tbr, xid), Duration::from_millis(3))
            });
            srv.answer(&xreq, ws);
            forced &= ps_wait_event((rbd, xid), STEP_MAX);
            std::thread::sleep(Duration::from_millis(15)); // let the hand-over after the probe complete (coverage only)
            ps_release((tbr, xid));
        }
        Win::ReaderBeforeDeliver => {
            if !sync {
                // a parked reader reads nothing: everything else of the batch completes first
                forced &= wait_until(STEP_MAX, || {
                    pump(&mut srv, &mut cur, &hold, ws);
                    srv.reqs.len() >= n
                });
                forced &= ps_wait_count(rbd, n - 1, STEP_MAX);
            }
            srv.answer(&xreq, ws);
            forced &= ps_wait_parked((rbd, xid), STEP_MAX);
            forced &= ps_wait_event((tbr, xid), STEP_MAX);
            if sync && rng.coin() {
                // hold the reader until the worker's NEXT request is on the wire and waiting
                followup_seen = wait_until(Duration::from_secs(2), || {
                    srv.poll();
                    srv.reqs.len() >= 2
                });
                rep.count("batch_window.reader_released_with_next_request_waiting", followup_seen as u64);
            } else {
                std::thread::sleep(Duration::from_millis(15));
            }
            ps_release((rbd, xid));
        }
        Win::LateAfterReturn => {
            forced &= wait_until(STEP_MAX, || {
                pump(&mut srv, &mut cur, &hold, ws);
                ps_wait_event((tbr, xid), Duration::from_millis(3))
            });
            if sync {
                followup_seen = wait_until(Duration::from_secs(2), || {
                    srv.poll();
                    srv.reqs.len() >= 2
                });
            } else {
                std::thread::sleep(Duration::from_millis(10));
            }
            srv.answer(&xreq, ws);
            rep.count("batch_window.late_responses_sent_after_timeout", 1);
            // the reader has the late response in hand before anything else is judged
            forced &= ps_wait_event((rrx, xid), STEP_MAX);
        }
    }
    if sync {
        // the requests that follow come from the worker whose request just timed out: every other worker is still
        // parked before its write. Serve them one by one, then let the rest of the pool go.
        let served = wait_until(Duration::from_secs(3), || {
            pump(&mut srv, &mut cur, &hold, ws);
            srv.reqs.len() >= 1 + extra
        });
        let by_victims_worker = srv.reqs.len().saturating_sub(1);
        followup_seen = by_victims_worker >= 1;
        rep.count("batch_window.requests_served_by_the_timed_out_worker", by_victims_worker as u64);
        if !served {
            rep.count("batch_window.followup_requests_not_all_seen_before_pool_release", 1);
        }
        forced &= followup_seen;
        for id in 2..=pool as u64 {
            ps_release((p("registered"), id));
        }
    }
    if !finish_batch(&mut b, &mut srv, &mut cur, &hold, ws, WINDOW) {
        hang(rep, env, &cx, "batch-hang", format!("batch_json_with_timeout({n} requests, {to:?}) had not returned {} s after the response of request id {xid} was forced into `{}`; the fake server saw {} requests and answered {}", WINDOW.as_secs(), win.name(), srv.reqs.len(), srv.sent_tokens.len()));
        return;
    }
    // was the intended order really produced?
    let (ib, ir, id_) = (ps_index((tbr, xid)), ps_index((rrx, xid)), ps_index((rbd, xid)));
    let order_ok = match win {
        Win::TimeoutBeforeRemove => matches!((ib, ir), (Some(a), Some(b)) if a < b),
        Win::ReaderBeforeDeliver => matches!((id_, ib), (Some(a), Some(b)) if a < b),
        Win::LateAfterReturn => matches!((ib, ir), (Some(a), Some(b)) if a < b) && id_.is_none(),
    };
    // every request of the batch has returned: nothing may be registered any more (checked before anything else is sent,
    // so that a later response cannot clear a leaked entry)
    let left = cli.pending_len();
    rep.count("pending_len_checks", 1);
    rep.count("batch_window.pending_len_checks", 1);
    if left != 0 {
        rep.violation(
            cx.sig("same-batch:residue"),
            format!("verif_pending_len() = {left} right after batch_json_with_timeout({n} requests, {to:?}) returned (the response of request id {xid} was forced into `{}`), expected 0; trace: {}", win.name(), ps_trace()),
            replay.clone(),
        );
    }
    let slow = judge_batch(rep, &cx, &b, &srv, Some(xpos), true, "same-batch");
    let achieved = forced && order_ok && slow == 0;
    st.bump(format!("batch-window|{}|{}|{}", kind.name(), win.name(), if achieved { "order-forced" } else { "order-not-achieved" }));
    rep.count(if achieved { "batch_window.schedules_forced" } else { "batch_window.schedules_not_forced" }, 1);

    // ---- the client keeps serving: another batch (larger than the pool again), then an ordinary call
    let n2 = if sync { pool + 1 + rng.usize_below(4) } else { 4 + rng.usize_below(6) };
    let t2 = if case % 2 == 0 { Some(Duration::from_secs(20)) } else { None };
    let mut b2 = launch_batch(env, &cli, n2, t2, rng);
    rep.count("batch_window.requests_in_later_batches", n2 as u64);
    if !finish_batch(&mut b2, &mut srv, &mut cur, &[], ws, WINDOW) {
        hang(rep, env, &cx, "later-batch-hang", format!("a second batch ({n2} requests, timeout {t2:?}) on the same client had not returned after {} s; the fake server saw {} requests and answered {}", WINDOW.as_secs(), srv.reqs.len(), srv.sent_tokens.len()));
        return;
    }
    judge_batch(rep, &cx, &b2, &srv, None, false, "later-batch");
    let mut b3 = launch_batch(env, &cli, 1, if rng.coin() { Some(Duration::from_secs(20)) } else { None }, rng);
    if !finish_batch(&mut b3, &mut srv, &mut cur, &[], ws, WINDOW) {
        hang(rep, env, &cx, "later-call-hang", format!("a one-request batch on the same client had not returned after {} s", WINDOW.as_secs()));
        return;
    }
    judge_batch(rep, &cx, &b3, &srv, None, false, "later-call");
    // an ordinary call through the non-batch API
    let mut calls = Calls::new();
    let ytok = env.token();
    let y = calls.launch(env, &cli, ytok, rng.usize_below(24), None);
    let deadline = Instant::now() + WINDOW;
    loop {
        pump(&mut srv, &mut cur, &[], ws);
        if calls.wait(&[y], Duration::from_millis(2)).is_empty() {
            break;
        }
        if Instant::now() >= deadline {
            hang(rep, env, &cx, "later-call-hang", format!("call_json (token {ytok}) on the same client had not returned after {} s", WINDOW.as_secs()));
            return;
        }
    }
    match &calls.v[y].res {
        Some(CallRes::Ok(v)) if v["t"].as_u64() == Some(ytok) => rep.count("batch_window.later_calls_returned_own_token", 1),
        Some(CallRes::Ok(v)) => rep.violation(cx.sig("later-call:wrong-token"), format!("call_json sent token {ytok} and was handed a response carrying {}", v["t"]), replay.clone()),
        Some(CallRes::Err(e)) => rep.violation(cx.sig("later-call-failed"), format!("call_json (token {ytok}) on the still-healthy connection returned Err({e}) although the fake server answered it; trace: {}", ps_trace()), replay.clone()),
        Some(CallRes::Panic(pn)) => rep.violation(format!("C06:panic:{}:batch-timeout-window:{}:{}", kind.name(), win.name(), panic_site(pn)), format!("later call panicked: {pn}"), replay.clone()),
        None => {}
    }
    // ---- nothing left behind
    let got = cli.pending_len();
    rep.count("pending_len_checks", 1);
    rep.count("batch_window.pending_len_checks", 1);
    if got != 0 {
        rep.violation(
            cx.sig("residue"),
            format!(
                "verif_pending_len() = {got}, expected 0 once every batch and call had returned (first batch: {n} requests under a {to:?} timeout, the response of request id {xid} forced into `{}`); results of the first batch: {} ok, {} err; trace: {}",
                win.name(),
                b.res.as_ref().map(|r| r.iter().filter(|x| matches!(x, CallRes::Ok(_))).count()).unwrap_or(0),
                b.res.as_ref().map(|r| r.iter().filter(|x| matches!(x, CallRes::Err(_))).count()).unwrap_or(0),
                ps_trace()
            ),
            replay.clone(),
        );
    }
    check_panic(rep, kind, &format!("batch-timeout-window:{}", win.name()), &replay);
    if case < 3 {
        rep.sample(json!({"batch_window": replay, "victim_position": xpos, "victim_result": b.res.as_ref().map(|r| format!("{:?}", r[xpos])), "order_forced": achieved, "followup_request_seen_while_pool_parked": followup_seen, "server_saw": srv.reqs.len()}));
    }
}

pub fn run_batch_windows(env: &mut Env, rep: &mut Report, st: &mut Stats, args: &Args) {
    // own random stream: the older stages keep the choices they had
    let mut rng = Rng::new(args.seed ^ 0xC06_BA7C);
    let rounds = args.budget(1, 3);
    let mut case = 0u64;
    let t0 = Instant::now();
    for _ in 0..rounds {
        for kind in KINDS {
            for win in WINS {
                if env.stop() {
                    rep.count("batch_window.scenarios_not_run_wall_cap", 1);
                    continue;
                }
                let mut r = rng.fork(0xBA7C_0000 + case);
                let ts = Instant::now();
                run_one(env, rep, st, kind, win, &mut r, case);
                st.timed(format!("batch-window {} {}", kind.name(), win.name()), ts);
                case += 1;
            }
        }
    }
    rep.set("batch_window.phase_wall_ms", json!(t0.elapsed().as_millis() as u64));
    for kind in KINDS {
        for win in WINS {
            if !st.sched.contains_key(&format!("batch-window|{}|{}|order-forced", kind.name(), win.name())) && rep.violations.is_empty() && !env.stop() {
                rep.inconclusive(format!("batch timeout window {} was never forced on {}", win.name(), kind.name()));
            }
        }
    }
}
