//! C07 — all dispatch paths and route shapes give the same answer for the same request.
//! In-process via Router::get: (A) differential equality of handle / handle_with_ctx / handle_view and
//! of the same route behind 1..2 forwarding middlewares, per handler kind x body-format code x body bytes,
//! after applying the documented query-echo rule; handler argument logs compared too. (B) all
//! registration orders of {exact route, registry mount, struct mount, middleware x2}: middleware runs
//! exactly once per request for every route, exact route beats mounted prefix. (C) prefix/path boundary
//! pairs. (D) a recording RepeStruct: segments == RFC 6901 tokens (independent tokenizer), depth 0..40.
//! (E) the servers as one more entry point: the same (router, query, body) cases sent by a raw peer to a loopback Server and
//! AsyncServer must reach the same handler with the same tokens / middleware runs / response as Router::get + handle_view.
//! (F) router histories: lookups interleaved with registrations (and clones) behave as on a router built from scratch.

use crate::common::*;
use repe::server::HandlerErased;
use repe::{BodyFormat, CallContext, ErrorCode, JsonTypedHandler, Message, MessageView, Next, QueryFormat, Registry, RepeError, RepeStruct, Router, StructError};
use serde::{Deserialize, Serialize};
use serde_json::{Value, json};
use std::sync::atomic::{AtomicU64, Ordering};
use std::sync::{Arc, Mutex};

type Log = Arc<Mutex<Vec<String>>>;

#[derive(Deserialize, Serialize, Debug, Clone)]
struct In {
    a: i64,
    b: String,
}
#[derive(Deserialize, Serialize, Debug, Clone, PartialEq)]
struct OutT {
    sum: i64,
    echo: String,
}

struct Adder(Log);
impl JsonTypedHandler for Adder {
    type In = In;
    type Out = OutT;
    fn call(&self, input: In) -> Result<OutT, (ErrorCode, String)> {
        self.0.lock().unwrap().push(format!("adder:{input:?}"));
        Ok(OutT { sum: input.a + 1, echo: input.b })
    }
}

/// custom erased handler: sets its own response query for one flag value
struct Custom(Log);
impl HandlerErased for Custom {
    fn handle(&self, req: &Message) -> Result<Message, RepeError> {
        self.0.lock().unwrap().push(format!("custom:{}", hex_trunc(&req.body, 24)));
        if req.body.first() == Some(&0xEE) {
            return Err(RepeError::Io(std::io::Error::other("custom handler failure")));
        }
        let own_query = req.body.first() == Some(&0x01);
        let mut b = Message::builder().id(req.header.id).body_bytes(req.body.iter().rev().cloned().collect::<Vec<u8>>()).body_format_code(req.header.body_format);
        if own_query {
            b = b.query_bytes(vec![1u8]).query_format_code(7);
        }
        Ok(b.build())
    }
}

struct Recorder {
    seen: Arc<Mutex<Vec<(Vec<String>, bool)>>>,
}
impl RepeStruct for Recorder {
    fn repe_handle(&mut self, segments: &[&str], body: Option<Value>) -> Result<Option<Value>, StructError> {
        self.seen.lock().unwrap().push((segments.iter().map(|s| s.to_string()).collect(), body.is_some()));
        // a struct may refuse a path: the refusal must not leave anything behind for the next request on this thread
        if segments.iter().any(|s| *s == "deny" || *s == "de/ny") {
            return Err(StructError::InvalidPath { path: segments.join("/") });
        }
        Ok(Some(json!({"n": segments.len()})))
    }
}

const KINDS: [&str; 12] = ["/json", "/json_ctx", "/typed", "/typed_ctx", "/slice", "/slice_ref", "/adder", "/custom", "/reg/x", "/st/field", "/json_blocking", "/typed_blocking"];

fn build_router(log: &Log, n_mw: usize, mw_hits: &Arc<AtomicU64>, rec: &Arc<Mutex<Vec<(Vec<String>, bool)>>>, reg: &Arc<Registry>) -> Router {
    let l = |tag: &'static str| {
        let log = log.clone();
        move |s: String| log.lock().unwrap().push(format!("{tag}:{s}"))
    };
    let (j, jc, t, tc, sl, sr, jb, tb) = (l("json"), l("json_ctx"), l("typed"), l("typed_ctx"), l("slice"), l("slice_ref"), l("json_blocking"), l("typed_blocking"));
    let jfun = |v: Value| -> Result<Value, (ErrorCode, String)> {
        if v == json!("fail") {
            Err((ErrorCode::ApplicationErrorBase, "scripted".into()))
        } else {
            Ok(json!({"got": v}))
        }
    };
    let mut r = Router::new()
        .with_json("/json", move |v| {
            j(v.to_string());
            jfun(v)
        })
        .with_json_ctx("/json_ctx", move |ctx: &CallContext, v| {
            jc(format!("{}|{}", ctx.method(), v));
            jfun(v)
        })
        .with_typed("/typed", move |i: In| -> Result<OutT, (ErrorCode, String)> {
            t(format!("{i:?}"));
            Ok(OutT { sum: i.a * 2, echo: i.b })
        })
        .with_typed_ctx("/typed_ctx", move |_ctx: &CallContext, i: In| -> Result<OutT, (ErrorCode, String)> {
            tc(format!("{i:?}"));
            Ok(OutT { sum: i.a * 3, echo: i.b })
        })
        .with_typed_slice("/slice", move |xs: Vec<f64>| -> Result<Vec<f64>, (ErrorCode, String)> {
            sl(format!("{:?}", xs.iter().map(|x| x.to_bits()).collect::<Vec<_>>()));
            Ok(xs.iter().rev().cloned().collect())
        })
        .with_typed_slice_ref("/slice_ref", move |xs: &[f64]| -> Result<Vec<f64>, (ErrorCode, String)> {
            sr(format!("{:?}", xs.iter().map(|x| x.to_bits()).collect::<Vec<_>>()));
            Ok(xs.iter().rev().cloned().collect())
        })
        .with_handler("/adder", Adder(log.clone()))
        .with_erased_handler("/custom", Arc::new(Custom(log.clone())))
        .with_json_blocking("/json_blocking", move |v| {
            jb(v.to_string());
            jfun(v)
        })
        .with_typed_blocking("/typed_blocking", move |i: In| -> Result<OutT, (ErrorCode, String)> {
            tb(format!("{i:?}"));
            Ok(OutT { sum: i.a * 5, echo: i.b })
        })
        .with_registry("/reg", reg.clone());
    let (rr, _) = r.with_struct("/st", Recorder { seen: rec.clone() });
    r = rr;
    for _ in 0..n_mw {
        let hits = mw_hits.clone();
        r = r.with_middleware(move |req: &Message, next: Next<'_>| {
            hits.fetch_add(1, Ordering::SeqCst);
            next.run(req)
        });
    }
    r
}

#[derive(Debug, Clone, PartialEq)]
struct Norm {
    id: u64,
    ec: u32,
    query_format: u16,
    body_format: u16,
    query: Vec<u8>,
    body: Vec<u8>,
}

/// Normalise a handler result the way the dispatch layer does: Err(e) -> error response with the
/// error's code and text; an empty response query means "echo the request query".
fn norm(r: Result<Message, RepeError>, req: &Message) -> Norm {
    match r {
        Ok(m) => Norm { id: m.header.id, ec: m.header.ec, query_format: m.header.query_format, body_format: m.header.body_format, query: if m.query.is_empty() { req.query.clone() } else { m.query }, body: m.body },
        Err(e) => Norm { id: req.header.id, ec: e.to_error_code() as u32, query_format: 0, body_format: BodyFormat::Utf8 as u16, query: req.query.clone(), body: e.to_string().into_bytes() },
    }
}

fn gen_body(r: &mut Rng, kind: &str) -> (u16, Vec<u8>) {
    let fmt = *r.pick(&[0u16, 1, 2, 3, 4, 0xffff, 1, 2]);
    let good_in = json!({"a": r.below(1000) as i64 - 500, "b": format!("s{}", r.below(100))});
    let body = match r.below(12) {
        11 => {
            // generic (serde) BEVE encodings of sequences, as a typed client produces them: the empty Vec is the untyped empty
            // array `05 00`; bulk routes accept it on every dispatch path or on none
            match r.below(8) {
                0 | 1 => beve::to_vec(&Vec::<f64>::new()).unwrap(),
                2 => beve::to_vec(&Vec::<i32>::new()).unwrap(),
                3 => beve::to_vec(&vec![1.0f64, -0.0]).unwrap(),
                4 => beve::to_vec(&Vec::<String>::new()).unwrap(),
                5 => beve::to_vec(&Vec::<In>::new()).unwrap(),
                6 => vec![0x05, 0x00, 0x00],
                _ => beve::to_vec(&vec![1i32, 2]).unwrap(),
            }
        }
        9 => {
            // one complete JSON value followed by trailing data: the owned and the borrowed decoder must agree
            // on whether that is acceptable (trailing whitespace is; a second value / stray byte is not)
            let mut v = serde_json::to_vec(&good_in).unwrap();
            v.extend_from_slice(*r.pick(&[&b"{\"a\":2,\"b\":\"x\"}"[..], b",", b"}", b"\0", b" \n\t ", b"]", b"1", b" x"]));
            v
        }
        10 => {
            // the same for a JSON scalar / array body
            let mut v = r.pick(&[&b"17"[..], b"\"fail\"", b"[1,2]", b"null"]).to_vec();
            v.extend_from_slice(*r.pick(&[&b" "[..], b"\n", b",", b"0", b"\"", b"}"]));
            v
        }
        0 => vec![],
        1 => {
            let k = r.usize_below(40);
            r.bytes(k)
        }
        2 => serde_json::to_vec(&good_in).unwrap(),
        3 => beve::to_vec(&In { a: r.below(100) as i64, b: "z".into() }).unwrap(),
        4 => {
            let mut v = serde_json::to_vec(&good_in).unwrap();
            v.truncate(r.usize_below(v.len().max(1)));
            v
        }
        5 => {
            let xs: Vec<f64> = (0..r.below(9)).map(|_| f64::from_bits(r.next_u64())).collect();
            if kind == "/slice_ref" && r.coin() {
                Message::builder().query_str(kind).body_aligned_typed_slice(&xs).build().body
            } else {
                Message::builder().body_typed_slice(&xs).build().body
            }
        }
        6 => b"\"fail\"".to_vec(),
        7 => {
            let mut v = Message::builder().body_typed_slice(&[1.5f64, -2.0, f64::NAN]).build().body;
            v.truncate(r.usize_below(v.len()));
            v
        }
        _ => {
            let mut v = vec![*r.pick(&[0x01u8, 0xEE, 0x00, 0x5C])];
            let k = r.usize_below(12);
            v.extend(r.bytes(k));
            v
        }
    };
    (fmt, body)
}

pub fn tokenize(p: &str) -> Vec<String> {
    // RFC 6901: "" -> no tokens; otherwise split after the leading '/', unescape ~1 -> '/', ~0 -> '~'
    if p.is_empty() {
        return vec![];
    }
    let chars: Vec<char> = p.chars().collect();
    let mut toks = vec![];
    let mut cur = String::new();
    let mut i = 1;
    while i < chars.len() {
        match chars[i] {
            '/' => toks.push(std::mem::take(&mut cur)),
            '~' if chars.get(i + 1) == Some(&'0') => {
                cur.push('~');
                i += 1;
            }
            '~' if chars.get(i + 1) == Some(&'1') => {
                cur.push('/');
                i += 1;
            }
            c => cur.push(c),
        }
        i += 1;
    }
    toks.push(cur);
    toks
}

fn esc(t: &str) -> String {
    t.replace('~', "~0").replace('/', "~1")
}

fn permutations(n: usize) -> Vec<Vec<usize>> {
    fn rec(cur: &mut Vec<usize>, used: &mut Vec<bool>, out: &mut Vec<Vec<usize>>) {
        if cur.len() == used.len() {
            out.push(cur.clone());
            return;
        }
        for i in 0..used.len() {
            if !used[i] {
                used[i] = true;
                cur.push(i);
                rec(cur, used, out);
                cur.pop();
                used[i] = false;
            }
        }
    }
    let mut out = vec![];
    rec(&mut vec![], &mut vec![false; n], &mut out);
    out
}

pub fn run(args: &Args) -> Report {
    let mut rep = Report::new(
        args,
        "c07-dispatch",
        "(A) 12 handler kinds x body-format codes {0,1,2,3,4,0xffff} x body shapes (empty, random, valid JSON, valid BEVE, \
         truncated, typed arrays, aligned typed arrays, error triggers): handle vs handle_with_ctx vs handle_view vs the same \
         behind 1 and 2 forwarding middlewares; (B) all 120 registration orders of {route, registry mount, struct mount, mw, mw}; \
         (C) prefix/path boundary pairs; (D) struct segments vs independent RFC 6901 tokenizer for depth 0..40 incl. the 16/17 \
         boundary; distinct = (kind, format, body shape, outcome class) / permutation / path shape",
    );
    let miri = args.stage.starts_with("miri");
    quiet_panics(true);
    let mut rng = Rng::new(args.seed ^ 0xC07);

    // ---------------- (A) differential
    let mk = |n_mw: usize| {
        let log: Log = Arc::new(Mutex::new(vec![]));
        let hits = Arc::new(AtomicU64::new(0));
        let rec = Arc::new(Mutex::new(vec![]));
        let reg = Arc::new(Registry::new());
        reg.register_value("/x", json!({"v": 1})).unwrap();
        let router = build_router(&log, n_mw, &hits, &rec, &reg);
        (router, log, hits, rec, reg)
    };
    let n = args.budget(150_000, 3_000_000);
    let r0 = mk(0);
    let r1 = mk(1);
    let r2 = mk(2);
    for case in 0..n {
        let mut r = rng.fork(case);
        let kind = *r.pick(&KINDS);
        let (fmt, body) = gen_body(&mut r, kind);
        let req = Message::builder().id(case + 1).query_str(kind).query_format(QueryFormat::JsonPointer).body_bytes(body.clone()).body_format_code(fmt).build();
        // the view path reads from a wire buffer; place the frame at a seeded misalignment
        let wire = req.to_vec();
        let mis = r.usize_below(8);
        let mut arena = vec![0u8; wire.len() + 16];
        let base = (8 - (arena.as_ptr() as usize % 8)) % 8 + mis;
        arena[base..base + wire.len()].copy_from_slice(&wire);
        let view = match MessageView::from_slice(&arena[base..base + wire.len()]) {
            Ok(v) => v,
            Err(e) => {
                rep.inconclusive(format!("harness built an unparsable frame: {e}"));
                break;
            }
        };
        rep.eval();
        let mut results: Vec<(&'static str, Result<Norm, String>, Vec<String>)> = vec![];
        for (label, sys) in [("plain", &r0), ("mw1", &r1), ("mw2", &r2)] {
            let Some(h) = sys.0.get(kind) else {
                rep.violation("C07:route-missing", format!("Router::get({kind}) returned None"), json!({"kind": kind}));
                continue;
            };
            let ctx = CallContext::detached(kind);
            let hits_before = sys.2.load(Ordering::SeqCst);
            let run_one = |name: &'static str, f: &dyn Fn() -> Result<Message, RepeError>| {
                sys.1.lock().unwrap().clear();
                sys.3.lock().unwrap().clear();
                // registry writes mutate: reset the value the request may have overwritten
                let _ = sys.4.register_value("/x", json!({"v": 1}));
                let out = catching(f).map(|x| norm(x, &req));
                let mut args_seen = sys.1.lock().unwrap().clone();
                args_seen.extend(sys.3.lock().unwrap().iter().map(|(s, b)| format!("struct:{s:?}:{b}")));
                (name, out, args_seen)
            };
            let a = run_one("handle", &|| h.handle(&req));
            let b = run_one("handle_with_ctx", &|| h.handle_with_ctx(&req, &ctx));
            let c = run_one("handle_view", &|| h.handle_view(&view, &ctx));
            let expect_hits = match label {
                "plain" => 0,
                "mw1" => 3,
                _ => 6,
            };
            let got_hits = sys.2.load(Ordering::SeqCst) - hits_before;
            if got_hits != expect_hits {
                rep.violation(format!("C07:middleware-count:{kind}"), format!("{label}: middleware ran {got_hits} times for 3 dispatches of {kind}, expected {expect_hits}"), json!({"kind": kind, "case": case}));
            }
            for (name, out, seen) in [a, b, c] {
                let tag: &'static str = match (label, name) {
                    ("plain", "handle") => "plain.handle",
                    ("plain", "handle_with_ctx") => "plain.handle_with_ctx",
                    ("plain", "handle_view") => "plain.handle_view",
                    ("mw1", "handle") => "mw1.handle",
                    ("mw1", "handle_with_ctx") => "mw1.handle_with_ctx",
                    ("mw1", "handle_view") => "mw1.handle_view",
                    ("mw2", "handle") => "mw2.handle",
                    ("mw2", "handle_with_ctx") => "mw2.handle_with_ctx",
                    _ => "mw2.handle_view",
                };
                results.push((tag, out, seen));
            }
        }
        if results.is_empty() {
            continue;
        }
        let (t0, o0, s0) = results[0].clone();
        let class = match &o0 {
            Ok(nm) => format!("ec{}", nm.ec),
            Err(_) => "panic".into(),
        };
        rep.distinct(&(kind, fmt, body.len().min(3), body.first().copied(), class.clone()));
        if case < 4 {
            rep.sample(json!({"kind": kind, "body_format": fmt, "body_hex": hex_trunc(&body, 32), "outcome": class}));
        }
        if let Err(p) = &o0 {
            rep.violation(format!("C07:panic:{kind}:{}", panic_site(p)), format!("{t0} panicked: {p}"), json!({"kind": kind, "fmt": fmt, "body_hex": hex(&body)}));
        }
        for (t, o, s) in &results[1..] {
            if *o != o0 {
                rep.violation(
                    format!("C07:paths-differ:{kind}:{t}"),
                    format!("{kind} fmt {fmt} body {}: {t0} -> {o0:?} but {t} -> {o:?}", hex_trunc(&body, 40)),
                    json!({"kind": kind, "fmt": fmt, "body_hex": hex(&body), "misalign": mis}),
                );
            }
            if *s != s0 {
                rep.violation(
                    format!("C07:handler-args-differ:{kind}:{t}"),
                    format!("{kind} fmt {fmt} body {}: handler invocations under {t0}: {s0:?}; under {t}: {s:?}", hex_trunc(&body, 40)),
                    json!({"kind": kind, "fmt": fmt, "body_hex": hex(&body)}),
                );
            }
        }
    }

    // ---------------- (B) registration orders
    let perms = permutations(5);
    let mut perm_checked = 0u64;
    for (pi, perm) in perms.iter().enumerate() {
        if miri && pi % 30 != 0 {
            continue;
        }
        let hits = [Arc::new(AtomicU64::new(0)), Arc::new(AtomicU64::new(0))];
        let rec = Arc::new(Mutex::new(vec![]));
        let reg = Arc::new(Registry::new());
        reg.register_value("/y", json!("from-registry")).unwrap();
        reg.register_value("/z", json!("z")).unwrap();
        let mut router = Router::new();
        for item in perm {
            router = match item {
                // exact routes: one below the registry prefix, one AT the registry prefix, one AT the struct root
                0 => router
                    .with_json("/x/y", |_v| Ok(json!("exact-route")))
                    .with_json("/x", |_v| Ok(json!("exact-at-registry-prefix")))
                    .with_json("/s", |_v| Ok(json!("exact-at-struct-root"))),
                1 => router.with_registry("/x", reg.clone()),
                2 => router.with_struct("/s", Recorder { seen: rec.clone() }).0,
                k => {
                    let h = hits[k - 3].clone();
                    router.with_middleware(move |req: &Message, next: Next<'_>| {
                        h.fetch_add(1, Ordering::SeqCst);
                        next.run(req)
                    })
                }
            };
        }
        rep.eval();
        rep.distinct(&("perm", perm));
        perm_checked += 1;
        for (path, want) in [("/x/y", "\"exact-route\""), ("/x/z", "\"z\""), ("/s/a/b", "{\"n\":2}"), ("/x", "\"exact-at-registry-prefix\""), ("/s", "\"exact-at-struct-root\"")] {
            let before: Vec<u64> = hits.iter().map(|h| h.load(Ordering::SeqCst)).collect();
            let req = Message::builder().id(9).query_str(path).query_format(QueryFormat::JsonPointer).body_json(&json!(1)).unwrap().build();
            let req = if path == "/x/z" { Message::builder().id(9).query_str(path).query_format(QueryFormat::JsonPointer).build() } else { req };
            let Some(h) = router.get(path) else {
                rep.violation("C07:route-missing:order", format!("order {perm:?}: get({path}) is None"), json!({"order": perm}));
                continue;
            };
            for which in ["handle", "handle_view"] {
                let out = if which == "handle" {
                    catching(|| h.handle(&req))
                } else {
                    let w = req.to_vec();
                    catching(|| h.handle_view(&MessageView::from_slice(&w).unwrap(), &CallContext::detached(path)))
                };
                match out {
                    Ok(Ok(m)) if m.header.ec == 0 && String::from_utf8_lossy(&m.body) == want => {}
                    other => {
                        let class = if matches!(path, "/x/y" | "/x" | "/s") { "exact-route-not-preferred" } else { "mount-response" };
                        rep.violation(format!("C07:{class}"), format!("registration order {perm:?} (0=route /x/y,1=registry /x,2=struct /s,3/4=middleware): {which} of {path} gave {:?}, expected body {want}", other.map(|r| r.map(|m| (m.header.ec, String::from_utf8_lossy(&m.body).to_string())))), json!({"order": perm, "path": path}));
                    }
                }
            }
            let after: Vec<u64> = hits.iter().map(|h| h.load(Ordering::SeqCst)).collect();
            if after[0] - before[0] != 2 || after[1] - before[1] != 2 {
                rep.violation(
                    "C07:middleware-skipped-by-order",
                    format!("registration order {perm:?} (0=route,1=registry mount,2=struct mount,3/4=middleware): two dispatches of {path} ran the middlewares {} and {} times (expected 2 and 2)", after[0] - before[0], after[1] - before[1]),
                    json!({"order": perm, "path": path}),
                );
            }
        }
    }
    rep.set("registration_orders_checked", json!(perm_checked));
    rep.set("registration_orders_exhaustive", json!(perm_checked == 120));

    // ---------------- (C) prefix boundaries
    let mut boundary = 0u64;
    for prefix in ["/ab", "/a/b", "/a~1b", "/é", "/ab/"] {
        for mount in ["registry", "struct"] {
            let rec = Arc::new(Mutex::new(vec![]));
            let reg = Arc::new(Registry::new());
            if prefix.ends_with('/') && mount == "struct" {
                continue; // trailing-slash struct roots: unspecified
            }
            let norm_prefix = if mount == "registry" { prefix.trim_end_matches('/') } else { prefix };
            // the mount alone, and the mount next to OTHER mounts whose prefixes sort right around it (a sibling continuing with a
            // character below '/', one continuing with a letter, a nested one, an unrelated one), registered before and after it:
            // which mount owns a path depends on that mount's prefix only
            for neighbours in 0..3u8 {
            let base = if mount == "registry" { Router::new().with_registry(prefix, reg.clone()) } else { Router::new().with_struct(prefix, Recorder { seen: rec.clone() }).0 };
            let other = |r: Router, p: String| if mount == "registry" { r.with_struct(&p, Recorder { seen: Arc::new(Mutex::new(vec![])) }).0 } else { r.with_registry(&p, Arc::new(Registry::new())) };
            let sibs = [format!("{norm_prefix}-v2"), format!("{norm_prefix}.x"), format!("{norm_prefix}zz"), format!("{norm_prefix}/nested/deeper"), "/unrelated".to_string(), format!("{norm_prefix} b")];
            let router = match neighbours {
                0 => base,
                1 => sibs.iter().fold(base, |r, p| other(r, p.clone())),
                _ => {
                    let first = sibs.iter().fold(Router::new(), |r, p| other(r, p.clone()));
                    if mount == "registry" { first.with_registry(prefix, reg.clone()) } else { first.with_struct(prefix, Recorder { seen: rec.clone() }).0 }
                }
            };
            let cands = [
                norm_prefix.to_string(),
                format!("{norm_prefix}/c"),
                format!("{norm_prefix}/"),
                format!("{norm_prefix}c"),
                format!("{norm_prefix}~"),
                format!("{norm_prefix}x/y"),
                { let mut c: Vec<char> = norm_prefix.chars().collect(); c.pop(); c.into_iter().collect::<String>() },
                format!("/zz{norm_prefix}"),
                format!("{norm_prefix}{norm_prefix}"),
                format!("{norm_prefix}{norm_prefix}/c"),
                format!("{norm_prefix}{norm_prefix}{norm_prefix}"),
                "/".to_string(),
                String::new(),
            ];
            for p in cands {
                rep.eval();
                boundary += 1;
                rep.distinct(&("boundary", prefix, mount, &p));
                let want = p == norm_prefix || p.strip_prefix(norm_prefix).is_some_and(|rest| rest.starts_with('/'));
                // with neighbours a path may also belong to one of THEM; only paths the mount under test owns are judged then
                let owned_by_neighbour = neighbours > 0 && sibs.iter().any(|sp| p == *sp || p.strip_prefix(sp.as_str()).is_some_and(|rest| rest.starts_with('/')));
                if owned_by_neighbour {
                    continue;
                }
                let got = router.get(&p).is_some();
                if got != want {
                    rep.violation(format!("C07:prefix-boundary:{mount}{}", if neighbours > 0 { ":with-neighbouring-mounts" } else { "" }), format!("{mount} mounted at {prefix:?} (neighbouring mounts: {}): get({p:?}) matched={got}, expected {want}", if neighbours == 0 { "none".to_string() } else { format!("{sibs:?} registered {}", if neighbours == 1 { "after" } else { "before" }) }), json!({"prefix": prefix, "path": p, "neighbours": neighbours}));
                }
            }
            }
        }
    }
    rep.set("prefix_boundary_pairs", json!(boundary));

    // ---------------- (C2) exact routes whose registered spelling is not canonical (trailing '/', doubled '/', no leading '/'):
    // a route answers for exactly the path it was registered under, in any registration order relative to a covering mount, and
    // for no other spelling (those belong to the mount or to nobody)
    let mut spellings = 0u64;
    for spelled in ["/x/y/", "/x/", "/x//", "/x/y//z", "x/y", "x", "/s/", "/s/k/", "/x/größe/übersicht", "/s/日本/語", "/x/😀", "/x/ééééééééééééééééééééééééééééééééééééééééé"] {
        for order in 0..2 {
            let reg = Arc::new(Registry::new());
            reg.register_value("/y", json!("from-registry")).unwrap();
            let rec = Arc::new(Mutex::new(vec![]));
            let route = |r: Router| r.with_json(spelled, |_v| Ok(json!("exact-route")));
            let mounts = |r: Router| r.with_registry("/x", reg.clone()).with_struct("/s", Recorder { seen: rec.clone() }).0;
            let router = if order == 0 { mounts(route(Router::new())) } else { route(mounts(Router::new())) };
            rep.eval();
            spellings += 1;
            rep.distinct(&("spelling", spelled, order));
            let ask = |path: &str| -> Option<String> {
                let h = router.get(path)?;
                let req = Message::builder().id(3).query_str(path).query_format(QueryFormat::JsonPointer).body_json(&json!(1)).unwrap().build();
                let w = req.to_vec();
                let a = catching(|| h.handle(&req)).ok()?.ok().map(|m| String::from_utf8_lossy(&m.body).to_string());
                let b = catching(|| h.handle_view(&MessageView::from_slice(&w).unwrap(), &CallContext::detached(path))).ok()?.ok().map(|m| String::from_utf8_lossy(&m.body).to_string());
                if a != b {
                    return Some(format!("handle={a:?} handle_view={b:?}"));
                }
                a.or(Some("<error response>".into()))
            };
            let got = ask(spelled);
            if got.as_deref() != Some("\"exact-route\"") {
                rep.violation("C07:exact-route-spelling:not-served-under-its-own-path", format!("route registered as {spelled:?} (registration order {order}: 0=route first, 1=mounts first): a request for exactly {spelled:?} got {got:?}"), json!({"spelled": spelled, "order": order}));
            }
            // the canonicalised neighbours are different paths
            let trimmed = spelled.trim_end_matches('/');
            let with_slash = if spelled.starts_with('/') { spelled.to_string() } else { format!("/{spelled}") };
            for other in [trimmed.to_string(), with_slash.trim_end_matches('/').to_string(), with_slash.clone()] {
                if other == spelled || other.is_empty() {
                    continue;
                }
                if ask(&other).as_deref() == Some("\"exact-route\"") {
                    rep.violation("C07:exact-route-spelling:served-under-another-path", format!("route registered as {spelled:?} also answered a request for {other:?} (order {order})"), json!({"spelled": spelled, "other": other, "order": order}));
                }
            }
        }
    }
    rep.set("exact_route_spellings_checked", json!(spellings));

    // ---------------- (D) struct segments
    const TOK: [&str; 14] = ["a", "b", "", "0", "a/b", "m~n", "~", "/", "~1", "~0", "é", "x y", "deny", "de/ny"];
    let nd = args.budget(40_000, 800_000);
    let mut depth_seen = std::collections::BTreeSet::new();
    let mut seg_mismatches = 0u64;
    for case in 0..nd {
        if seg_mismatches > 300 {
            // a defect that poisons later requests (e.g. state kept per thread) makes every further case fail, possibly ever more
            // slowly: the witnesses recorded so far say everything there is to say
            rep.set("struct_segment_cases_skipped_after_300_mismatches", json!(nd - case));
            break;
        }
        let mut r = rng.fork(0x40_0000 + case);
        let depth = if case < 41 { case as usize } else { r.usize_below(41) };
        let escape_free = r.coin();
        let toks: Vec<String> = (0..depth).map(|_| if escape_free { r.pick(&["a", "b", "", "0", "é", "x y", "deny"]).to_string() } else { r.pick(&TOK).to_string() }).collect();
        let root = *r.pick(&["/st", "", "/deep/root", "/a", "/é", "/a~1b"]);
        // a third of the cases: leading child tokens that repeat or extend the root's own text (the remainder after the mount
        // prefix must be cut once, at the prefix, whatever the children are called)
        let mut toks = toks;
        if !root.is_empty() && !toks.is_empty() && r.below(3) == 0 {
            let root_toks = tokenize(root);
            let last = root_toks.last().cloned().unwrap_or_default();
            let reps = 1 + r.usize_below(toks.len().min(3));
            for t in toks.iter_mut().take(reps) {
                *t = match r.below(5) {
                    0 => last.clone(),
                    1 => format!("{last}s"),
                    2 => root_toks[0].clone(),
                    3 => root_toks.join("/"),
                    _ => format!("{last}/x"),
                };
            }
        }
        let rel: String = toks.iter().map(|t| format!("/{}", esc(t))).collect();
        let path = format!("{root}{rel}");
        let rec = Arc::new(Mutex::new(vec![]));
        let router = Router::new().with_struct(root, Recorder { seen: rec.clone() }).0;
        let with_body = r.coin();
        let mut b = Message::builder().id(1).query_str(&path).query_format(QueryFormat::JsonPointer);
        if with_body {
            b = b.body_json(&json!({"k": case})).unwrap();
        }
        let req = b.build();
        rep.eval();
        depth_seen.insert(depth);
        rep.distinct(&("segments", depth, escape_free, root, with_body, &toks));
        let Some(h) = router.get(&path) else {
            rep.violation("C07:struct-mount-not-matched", format!("struct at {root:?}: get({path:?}) is None"), json!({"root": root, "path": path}));
            continue;
        };
        let expect = tokenize(&rel);
        for which in ["handle", "handle_view"] {
            rec.lock().unwrap().clear();
            let out = if which == "handle" {
                catching(|| h.handle(&req).map(|_| ()))
            } else {
                let w = req.to_vec();
                catching(|| h.handle_view(&MessageView::from_slice(&w).unwrap(), &CallContext::detached(&path)).map(|_| ()))
            };
            if let Err(p) = out {
                rep.violation(format!("C07:panic:struct:{}", panic_site(&p)), p, json!({"path": path}));
                continue;
            }
            let seen = rec.lock().unwrap().clone();
            if seen.len() != 1 || seen[0].0 != expect || seen[0].1 != with_body {
                seg_mismatches += 1;
                let class = if depth > 16 { "deep" } else if escape_free { "plain" } else { "escaped" };
                rep.violation(format!("C07:struct-segments:{class}"), format!("struct at {root:?}, path {path:?} ({which}): handler saw {seen:?}, RFC 6901 tokens are {expect:?} (body={with_body})"), json!({"root": root, "path": path}));
            }
        }
    }
    rep.set("struct_depths_covered", json!(depth_seen.len()));
    if !miri {
        server_entry_point(args, &mut rep, &mut rng);
    }
    router_histories(args, &mut rep, &mut rng);
    quiet_panics(false);
    rep
}

// ======================================================================================================================
// (E) the servers' resolution step as one more entry point of the differential
// ======================================================================================================================

type Seen = Arc<Mutex<Vec<(Vec<String>, bool)>>>;

struct Fam {
    name: &'static str,
    router: Router,
    rec: Seen,
    hits: Arc<AtomicU64>,
    prefixes: Vec<&'static str>,
}

fn server_families() -> Vec<Fam> {
    let mkreg = || {
        let reg = Arc::new(Registry::new());
        reg.register_value("/x", json!({"v": 1})).unwrap();
        reg.register_value("/y", json!({"z": [1, 2]})).unwrap();
        reg
    };
    let route = |r: Router, path: &str, name: &'static str| r.with_json(path, move |v| Ok(json!({"route": name, "got": v})));
    let mut out = vec![];
    let mut fam = |name: &'static str, prefixes: Vec<&'static str>, n_mw: usize, build: &dyn Fn(Router, &Seen) -> Router| {
        let rec: Seen = Arc::new(Mutex::new(vec![]));
        let hits = Arc::new(AtomicU64::new(0));
        let mut router = build(Router::new(), &rec);
        for _ in 0..n_mw {
            let h = hits.clone();
            router = router.with_middleware(move |req: &Message, next: Next<'_>| {
                h.fetch_add(1, Ordering::SeqCst);
                next.run(req)
            });
        }
        out.push(Fam { name, router, rec, hits, prefixes });
    };
    fam("root-struct", vec![""], 1, &|r, rec| route(r, "/json", "json").with_struct("", Recorder { seen: rec.clone() }).0);
    fam("root-struct-slash", vec!["/"], 0, &|r, rec| r.with_struct("/", Recorder { seen: rec.clone() }).0);
    fam("root-registry", vec![""], 1, &|r, _| r.with_registry("", mkreg()));
    fam("root-registry-slash", vec!["/"], 0, &|r, _| r.with_registry("/", mkreg()));
    fam("mounts", vec!["/ab", "/st"], 2, &|r, rec| route(route(r.with_registry("/ab", mkreg()).with_struct("/st", Recorder { seen: rec.clone() }).0, "/ab/x", "ab-x"), "/st", "st"));
    fam("escaped-mounts", vec!["/a~1b", "/é"], 0, &|r, rec| r.with_struct("/a~1b", Recorder { seen: rec.clone() }).0.with_registry("/é", mkreg()));
    fam("exact-only", vec![], 1, &|r, _| route(route(route(r, "", "empty"), "/", "slash"), "/json", "json"));
    fam("root-registry-then-root-struct", vec![""], 0, &|r, rec| route(r.with_registry("", mkreg()).with_struct("", Recorder { seen: rec.clone() }).0, "/x", "x"));
    fam("root-struct-then-root-registry", vec![""], 1, &|r, rec| r.with_struct("", Recorder { seen: rec.clone() }).0.with_registry("", mkreg()));
    out
}

fn query_class(q: &str, prefixes: &[&str]) -> &'static str {
    if q.is_empty() {
        return "empty-query";
    }
    if q == "/" {
        return "slash";
    }
    for p in prefixes {
        if p.is_empty() || *p == "/" {
            continue;
        }
        if q == *p {
            return "mount-prefix";
        }
        if q.strip_prefix(p) == Some("/") {
            return "mount-prefix-slash";
        }
        if q.strip_prefix(p).is_some_and(|rest| rest.starts_with('/')) {
            return "below-mount";
        }
    }
    "other"
}

#[derive(Debug, Clone, PartialEq)]
struct Observed {
    ec: u32,
    body_format: u16,
    query: Vec<u8>,
    body: Vec<u8>,
    tokens: Vec<(Vec<String>, bool)>,
    middleware_runs: u64,
}

/// One request/response exchange of a raw peer speaking through the independent codec. Err = scaffolding trouble.
fn raw_exchange(s: &mut std::net::TcpStream, id: u64, query: &[u8], body: &[u8], body_format: u16) -> Result<crate::oracle::Frame, String> {
    use crate::oracle::{SPEC, SpecHeader, frame};
    use std::io::{Read, Write};
    let h = SpecHeader { spec: SPEC, version: 1, id, query_format: QueryFormat::JsonPointer as u16, body_format, ..Default::default() };
    s.write_all(&frame(h, query, body)).map_err(|e| format!("write: {e}"))?;
    let mut hdr = [0u8; 48];
    s.read_exact(&mut hdr).map_err(|e| format!("read header: {e}"))?;
    let rh = SpecHeader::decode(&hdr);
    if !rh.consistent() || rh.length > (1 << 22) {
        return Err(format!("response header not a consistent REPE header: {rh:?}"));
    }
    let mut rest = vec![0u8; (rh.length - 48) as usize];
    s.read_exact(&mut rest).map_err(|e| format!("read payload: {e}"))?;
    let q = rh.query_length as usize;
    Ok(crate::oracle::Frame { header: rh, query: rest[..q].to_vec(), body: rest[q..].to_vec(), at: 0 })
}

fn server_entry_point(args: &Args, rep: &mut Report, rng: &mut Rng) {
    use std::time::Duration;
    let t = Some(Duration::from_secs(20));
    let rt = match tokio::runtime::Builder::new_multi_thread().worker_threads(2).enable_all().build() {
        Ok(rt) => rt,
        Err(e) => return rep.inconclusive(format!("server entry point: tokio runtime: {e}")),
    };
    const FIXED: [&str; 30] = [
        "", "/", "//", "/json", "/json/", "/nope", "/x", "/y", "/y/z", "/y/z/1", "/x/y", "/~0", "/~1", "/a~1b", "/a~1b/", "/a~1b/c~0d/~1", "/é", "/é/", "/é/x", "/st", "/st/", "/st/field/~1~0", "/ab", "/ab/", "/ab/x",
        "/abx", "/ab/x/y", "/ab/y", "x", "/k/k/k/k/k/k/k/k/k/k/k/k/k/k/k/k/k/k",
    ];
    const TOK: [&str; 10] = ["a", "", "0", "a/b", "m~n", "~", "é", "x y", "deny", "x"];
    let extra = args.budget(12, 200) as usize;
    let mut exchanges = 0u64;
    let mut resolved_cases = 0u64;
    let mut not_found_cases = 0u64;
    let mut state_dependent = 0u64;
    let mut id = 1000u64;
    'fam: for (fi, fam) in server_families().into_iter().enumerate() {
        // a blocking and an async server over the same router value the direct path uses
        let srv = repe::Server::new(fam.router.clone()).read_timeout(t).write_timeout(t);
        let addr_b = match srv.listen("127.0.0.1:0").and_then(|l| l.local_addr().map(|a| (l, a))) {
            Ok((l, a)) => {
                std::thread::spawn(move || {
                    let _ = srv.serve(l);
                });
                a
            }
            Err(e) => {
                rep.inconclusive(format!("server entry point: listen: {e}"));
                continue;
            }
        };
        let asrv = repe::AsyncServer::new(fam.router.clone()).read_timeout(t).write_timeout(t);
        let addr_a = match rt.block_on(async {
            let l = repe::AsyncServer::listen("127.0.0.1:0").await?;
            let a = l.local_addr()?;
            tokio::spawn(async move {
                let _ = asrv.serve(l).await;
            });
            Ok::<_, std::io::Error>(a)
        }) {
            Ok(a) => a,
            Err(e) => {
                rep.inconclusive(format!("server entry point: async listen: {e}"));
                continue;
            }
        };
        let mut conns = vec![];
        for (sname, addr) in [("server", addr_b), ("async_server", addr_a)] {
            match std::net::TcpStream::connect(addr) {
                Ok(s) => {
                    let _ = s.set_read_timeout(Some(Duration::from_secs(10)));
                    let _ = s.set_write_timeout(Some(Duration::from_secs(10)));
                    let _ = s.set_nodelay(true);
                    conns.push((sname, s));
                }
                Err(e) => {
                    rep.inconclusive(format!("server entry point: connect {sname}: {e}"));
                    continue 'fam;
                }
            }
        }
        let mut queries: Vec<String> = FIXED.iter().map(|s| s.to_string()).collect();
        for p in &fam.prefixes {
            let p = p.trim_end_matches('/');
            queries.extend([p.to_string(), format!("{p}/"), format!("{p}/c"), format!("{p}c"), format!("{p}/c/~1d")]);
        }
        let mut r = rng.fork(0xE000 + fi as u64);
        for _ in 0..extra {
            let root = *r.pick(&["", "", "/st", "/ab", "/a~1b", "/é"]);
            let depth = r.usize_below(20);
            let rel: String = (0..depth).map(|_| format!("/{}", esc(r.pick(&TOK)))).collect();
            queries.push(format!("{root}{rel}"));
        }
        for q in &queries {
            for with_body in [false, true] {
                id += 1;
                let body: Vec<u8> = if with_body { serde_json::to_vec(&json!({"k": id})).unwrap() } else { vec![] };
                let wire = crate::oracle::frame(
                    crate::oracle::SpecHeader { spec: crate::oracle::SPEC, version: 1, id, query_format: QueryFormat::JsonPointer as u16, body_format: BodyFormat::Json as u16, ..Default::default() },
                    q.as_bytes(),
                    &body,
                );
                let Ok(view) = MessageView::from_slice(&wire) else {
                    rep.inconclusive("server entry point: harness built an unparsable frame");
                    return;
                };
                let req = Message::builder().id(id).query_str(q).query_format(QueryFormat::JsonPointer).body_bytes(body.clone()).body_format(BodyFormat::Json).build();
                // the reference: Router::get + handle_view (None when the router does not resolve the path)
                let direct = |fam: &Fam| -> Result<Option<Observed>, String> {
                    fam.rec.lock().unwrap().clear();
                    let before = fam.hits.load(Ordering::SeqCst);
                    let Some(h) = fam.router.get(q) else {
                        return Ok(None);
                    };
                    let nm = catching(|| h.handle_view(&view, &CallContext::detached(q))).map(|x| norm(x, &req))?;
                    Ok(Some(Observed { ec: nm.ec, body_format: nm.body_format, query: nm.query, body: nm.body, tokens: fam.rec.lock().unwrap().clone(), middleware_runs: fam.hits.load(Ordering::SeqCst) - before }))
                };
                let Ok(want) = direct(&fam) else {
                    continue; // a panicking handler is judged by part (A)/(D), not sent to a server thread
                };
                let mut got = vec![];
                for (sname, s) in conns.iter_mut() {
                    fam.rec.lock().unwrap().clear();
                    let before = fam.hits.load(Ordering::SeqCst);
                    match raw_exchange(s, id, q.as_bytes(), &body, BodyFormat::Json as u16) {
                        Ok(f) if f.header.id == id => {
                            exchanges += 1;
                            got.push((*sname, Observed { ec: f.header.ec, body_format: f.header.body_format, query: f.query, body: f.body, tokens: fam.rec.lock().unwrap().clone(), middleware_runs: fam.hits.load(Ordering::SeqCst) - before }));
                        }
                        Ok(f) => {
                            rep.inconclusive(format!("server entry point: {sname} answered request {id} with id {}", f.header.id));
                            continue 'fam;
                        }
                        Err(e) => {
                            rep.inconclusive(format!("server entry point: {} {sname} exchange for query {q:?}: {e}", fam.name));
                            continue 'fam;
                        }
                    }
                }
                // requests that write may change what the next identical request answers: judge only cases whose direct
                // answer is the same before and after the servers handled them
                if direct(&fam).ok().as_ref() != Some(&want) {
                    state_dependent += 1;
                    continue;
                }
                rep.eval();
                let qc = query_class(q, &fam.prefixes);
                rep.distinct(&("server-entry", fam.name, qc, q, with_body));
                match &want {
                    Some(_) => resolved_cases += 1,
                    None => not_found_cases += 1,
                }
                if exchanges <= 4 {
                    rep.sample(json!({"part": "server-entry", "family": fam.name, "query": q, "with_body": with_body, "direct": format!("{:?}", want.as_ref().map(|w| (w.ec, String::from_utf8_lossy(&w.body).to_string(), &w.tokens)))}));
                }
                for (sname, obs) in &got {
                    let same = match &want {
                        Some(w) => obs == w,
                        // unresolved: no handler or middleware may run and the answer cannot be a success (which error code
                        // names "nobody owns this path" is not part of the statement)
                        None => obs.ec != ErrorCode::Ok as u32 && obs.tokens.is_empty() && obs.middleware_runs == 0,
                    };
                    if !same {
                        let show = |o: &Observed| format!("ec={} body_format={} query={:?} body={:?} struct-saw={:?} middleware-runs={}", o.ec, o.body_format, String::from_utf8_lossy(&o.query), trunc(&String::from_utf8_lossy(&o.body), 120), o.tokens, o.middleware_runs);
                        rep.violation(
                            format!("C07:server-route-differs:{sname}:{}:{qc}", fam.name),
                            format!(
                                "router family {} (mount prefixes {:?}), query {q:?} (body: {with_body}): Router::get + handle_view -> {}; the same request through {sname} -> {}",
                                fam.name,
                                fam.prefixes,
                                match &want {
                                    Some(w) => show(w),
                                    None => "no handler (an error answer expected, nothing reached)".to_string(),
                                },
                                show(obs)
                            ),
                            json!({"family": fam.name, "query": q, "with_body": with_body, "server": sname}),
                        );
                    }
                }
            }
        }
    }
    rep.set("server_entry_exchanges", json!(exchanges));
    rep.set("server_entry_cases_resolved", json!(resolved_cases));
    rep.set("server_entry_cases_not_found", json!(not_found_cases));
    rep.set("server_entry_state_dependent_skipped", json!(state_dependent));
    if exchanges == 0 {
        rep.inconclusive("server entry point: no request/response exchange with a server was observed");
    }
    rt.shutdown_background();
}

// ======================================================================================================================
// (F) router histories: lookups interleaved with registrations on one Router value, and clones taken on the way
// ======================================================================================================================

#[derive(Clone, Debug)]
enum Reg {
    Route(String, u32),
    Registry(String, u32),
    Struct(String, u32),
    Mw(u32),
}

impl Reg {
    fn kind(&self) -> &'static str {
        match self {
            Reg::Route(..) => "route",
            Reg::Registry(..) => "registry",
            Reg::Struct(..) => "struct",
            Reg::Mw(..) => "middleware",
        }
    }
}

struct IdRecorder {
    id: u32,
    log: Log,
}
impl RepeStruct for IdRecorder {
    fn repe_handle(&mut self, segments: &[&str], body: Option<Value>) -> Result<Option<Value>, StructError> {
        self.log.lock().unwrap().push(format!("struct{}:{segments:?}:{}", self.id, body.is_some()));
        Ok(Some(json!({"struct": self.id, "n": segments.len()})))
    }
}

/// Apply one registration. `in_place`: the `register_*` forms on the existing value; otherwise the consuming builder forms.
fn apply_reg(router: &mut Router, reg: &Reg, log: &Log, in_place: bool) {
    let taken = || Router::new();
    match reg {
        Reg::Route(path, k) => {
            let (l, k) = (log.clone(), *k);
            let r = std::mem::replace(router, taken());
            *router = r.with_json(path, move |_v| {
                l.lock().unwrap().push(format!("route{k}"));
                Ok(json!({"route": k}))
            });
        }
        Reg::Registry(prefix, k) => {
            let registry = Arc::new(Registry::new());
            registry.register_value("/y", json!(format!("reg{k}:y"))).unwrap();
            registry.register_value("/k", json!({"x": k})).unwrap();
            if in_place {
                router.register_registry(prefix, registry);
            } else {
                let r = std::mem::replace(router, taken());
                *router = r.with_registry(prefix, registry);
            }
        }
        Reg::Struct(prefix, k) => {
            let s = IdRecorder { id: *k, log: log.clone() };
            if in_place {
                router.register_struct(prefix, s);
            } else {
                let r = std::mem::replace(router, taken());
                *router = r.with_struct(prefix, s).0;
            }
        }
        Reg::Mw(k) => {
            let (l, k) = (log.clone(), *k);
            let mw = move |req: &Message, next: Next<'_>| {
                l.lock().unwrap().push(format!("mw{k}"));
                next.run(req)
            };
            if in_place {
                router.register_middleware(mw);
            } else {
                let r = std::mem::replace(router, taken());
                *router = r.with_middleware(mw);
            }
        }
    }
}

/// Resolve and dispatch one read request; the outcome and what ran (middlewares, handler identity, struct tokens) on the way.
fn ask_router(router: &Router, path: &str, via_view: bool, log: &Log) -> (String, Vec<String>) {
    log.lock().unwrap().clear();
    let req = Message::builder().id(5).query_str(path).query_format(QueryFormat::JsonPointer).build();
    let outcome = match router.get(path) {
        None => "unresolved".to_string(),
        Some(h) => {
            let out = if via_view {
                let w = req.to_vec();
                catching(|| h.handle_view(&MessageView::from_slice(&w).unwrap(), &CallContext::detached(path)))
            } else {
                catching(|| h.handle(&req))
            };
            match out {
                Ok(x) => {
                    let n = norm(x, &req);
                    format!("ec={} body_format={} body={}", n.ec, n.body_format, String::from_utf8_lossy(&n.body))
                }
                Err(p) => format!("panic:{}", panic_site(&p)),
            }
        }
    };
    let trace = log.lock().unwrap().clone();
    (outcome, trace)
}

fn router_histories(args: &Args, rep: &mut Report, rng: &mut Rng) {
    const PREFIXES: [&str; 7] = ["/a", "/a/b", "/s", "/ab", "/a", "/s", ""];
    const SUFFIXES: [&str; 8] = ["", "/y", "/k", "/k/x", "/~1", "/b", "/b/y", "/y"];
    const ROUTES: [&str; 7] = ["/a/y", "/a", "/s/k", "/q", "", "/a/b/y", "/ab/y"];
    let nh = args.budget(2500, 60_000).max(3);
    let (mut lookups, mut same_path_after_reg, mut clone_lookups, mut registrations) = (0u64, 0u64, 0u64, 0u64);
    for hist in 0..nh {
        let mut r = rng.fork(0xF0_0000 + hist);
        let live_log: Log = Arc::new(Mutex::new(vec![]));
        let mut live = Router::new();
        let mut regs: Vec<Reg> = vec![];
        let mut clones: Vec<(Router, Vec<Reg>, usize)> = vec![];
        let mut ops: Vec<String> = vec![];
        let mut last_path: Option<String> = None;
        let mut last_reg: &'static str = "nothing";
        let mut next_id = 0u32;
        let gen_path = |r: &mut Rng| -> String {
            match r.below(10) {
                0 => r.pick(&["/q", "x", "/", "/abc", "/s~1k"]).to_string(),
                _ => format!("{}{}", r.pick(&PREFIXES), r.pick(&SUFFIXES)),
            }
        };
        // compare `target` (built by the history) with a router built from scratch from the same registrations
        let check = |rep: &mut Report, who: &'static str, target: &Router, target_regs: &[Reg], path: &str, via_view: bool, after: &'static str, ops: &[String]| {
            let ref_log: Log = Arc::new(Mutex::new(vec![]));
            let mut fresh = Router::new();
            for reg in target_regs {
                apply_reg(&mut fresh, reg, &ref_log, false);
            }
            let want = ask_router(&fresh, path, via_view, &ref_log);
            let got = ask_router(target, path, via_view, &live_log);
            rep.eval();
            if got != want {
                let reached = want.1.last().map(|s| s.as_str()).unwrap_or("");
                let reached = if reached.starts_with("route") { "route" } else if reached.starts_with("struct") { "struct" } else if want.0 == "unresolved" { "unresolved" } else { "registry" };
                let what = if got.1 != want.1 { "handlers-or-middleware-run-differ" } else { "response-differs" };
                rep.violation(
                    format!("C07:router-history:{who}:{what}:{reached}-path:after-registering-{after}"),
                    format!(
                        "history {ops:?}: then {who}.get({path:?}) + {}: answered {:?} after running {:?}; a router built from scratch with the same registrations {:?} answers {:?} after running {:?}",
                        if via_view { "handle_view" } else { "handle" },
                        got.0,
                        got.1,
                        target_regs,
                        want.0,
                        want.1
                    ),
                    json!({"history": hist, "ops": ops, "path": path, "who": who}),
                );
            }
        };
        let steps = 5 + r.usize_below(14);
        let mut shape = vec![];
        for _ in 0..steps {
            match r.below(10) {
                0..=3 => {
                    let path = match (&last_path, r.below(3)) {
                        (Some(p), 0) => p.clone(),
                        _ => gen_path(&mut r),
                    };
                    let via_view = r.coin();
                    ops.push(format!("get {path:?}"));
                    shape.push(0u8);
                    check(rep, "router", &live, &regs, &path, via_view, last_reg, &ops);
                    lookups += 1;
                    last_path = Some(path);
                }
                4 => {
                    if clones.len() < 2 {
                        ops.push("clone".into());
                        shape.push(1);
                        clones.push((live.clone(), regs.clone(), ops.len()));
                    }
                }
                _ => {
                    next_id += 1;
                    let reg = match r.below(8) {
                        0 | 1 => Reg::Route(r.pick(&ROUTES).to_string(), next_id),
                        2 | 3 => Reg::Registry(r.pick(&PREFIXES).to_string(), next_id),
                        4 | 5 => Reg::Struct(r.pick(&PREFIXES).to_string(), next_id),
                        _ => Reg::Mw(next_id),
                    };
                    apply_reg(&mut live, &reg, &live_log, true);
                    registrations += 1;
                    last_reg = reg.kind();
                    ops.push(format!("register {reg:?}"));
                    shape.push(2 + match reg { Reg::Route(..) => 0, Reg::Registry(..) => 1, Reg::Struct(..) => 2, Reg::Mw(..) => 3 });
                    regs.push(reg);
                    // the path looked up just before the registration, then another one
                    if let Some(p) = last_path.clone() {
                        if r.below(4) != 0 {
                            ops.push(format!("get {p:?}"));
                            check(rep, "router", &live, &regs, &p, r.coin(), last_reg, &ops);
                            lookups += 1;
                            same_path_after_reg += 1;
                        }
                    }
                    if r.coin() {
                        let p = gen_path(&mut r);
                        ops.push(format!("get {p:?}"));
                        check(rep, "router", &live, &regs, &p, r.coin(), last_reg, &ops);
                        lookups += 1;
                        last_path = Some(p);
                    }
                }
            }
            // a clone is a router value of its own: it keeps behaving as a router built from the registrations it was cloned with
            if !clones.is_empty() && r.below(3) == 0 {
                let (c, c_regs, at) = &clones[r.usize_below(clones.len())];
                let path = match (&last_path, r.coin()) {
                    (Some(p), true) => p.clone(),
                    _ => gen_path(&mut r),
                };
                let mut c_ops = ops.clone();
                c_ops.push(format!("(clone taken after op {at}) get {path:?}"));
                check(rep, "clone", c, c_regs, &path, r.coin(), last_reg, &c_ops);
                clone_lookups += 1;
            }
        }
        rep.distinct(&("history", shape));
        if hist < 2 {
            rep.sample(json!({"part": "router-history", "ops": ops}));
        }
    }
    rep.set("router_histories", json!(nh));
    rep.set("router_history_registrations", json!(registrations));
    rep.set("router_history_lookups_compared", json!(lookups));
    rep.set("router_history_same_path_lookups_right_after_a_registration", json!(same_path_after_reg));
    rep.set("router_history_clone_lookups_compared", json!(clone_lookups));
}
