//! C16 names family — off-reader routes registered under LONG, NON-ASCII names.
//!
//! The other families use the short ASCII routes `/park` and `/ping`.  Here the off-reader routes carry names of
//! 1…300 bytes built from 2-, 3- and 4-byte UTF-8 characters, laid out so that every byte offset 1..=130 (and many
//! beyond) falls INSIDE some character of some route (`straddled_offsets_1_to_130`), plus short names, a name whose
//! first byte already belongs to a multi-byte character, and random mixed-width names.  Every such route is used
//!  * as an ordinary handler (returns at once → ec 0 with the request's id and token),
//!  * as the panicking handler (→ ec 9 with the request's id; afterwards the slot must be free again),
//!  * as the saturating handlers: `cap` requests park on gates, one more on the same route must be answered with
//!    ec 8 and its own id while every gate is still closed, an inline ping is answered, the parked ones answer after
//!    their release; the connection never closes.
//! Oracle = the property's, judged on replies only (windows are heartbeat-gated → inconclusive on a stall); the
//! on_error hook events (Saturation / HandlerPanic and the method label they carry) are only counted.

use super::*;
use std::sync::Condvar;

pub(super) struct NamesResult {
    pub viols: Vec<(String, String, Value)>,
    pub inconcl: Vec<String>,
    pub counts: Vec<(&'static str, u64)>,
}

struct NShared {
    gates: Mutex<HashMap<u64, bool>>,
    cv: Condvar,
    started: Mutex<HashSet<u64>>,
    hook_sat: Mutex<Vec<String>>,
    hook_panic: Mutex<Vec<String>>,
    hook_other: AtomicU64,
    gate_timeouts: AtomicU64,
}

fn lock<T>(m: &Mutex<T>) -> std::sync::MutexGuard<'_, T> {
    m.lock().unwrap_or_else(|e| e.into_inner())
}

fn op(sh: &NShared, v: &Value) -> Result<Value, (ErrorCode, String)> {
    let tok = v["tok"].as_u64().unwrap_or(0);
    match v["op"].as_str().unwrap_or("") {
        // unwinds without running the panic hook (as the other families do), so nothing is printed per panic
        "panic" => std::panic::resume_unwind(Box::new(format!("c16 names: scripted handler panic {tok}"))),
        "park" => {
            lock(&sh.started).insert(tok);
            let dl = Instant::now() + Duration::from_secs(40);
            let mut g = lock(&sh.gates);
            while !g.get(&tok).copied().unwrap_or(false) {
                let left = dl.saturating_duration_since(Instant::now());
                if left.is_zero() {
                    sh.gate_timeouts.fetch_add(1, Ordering::Relaxed);
                    break;
                }
                g = sh.cv.wait_timeout(g, left).unwrap_or_else(|e| e.into_inner()).0;
            }
            Ok(json!({ "tok": tok }))
        }
        _ => Ok(json!({ "tok": tok })),
    }
}

/// Route names: for every character width w ∈ {2,3,4} and every phase a ∈ 1..=w one name "/" + (a-1) ASCII bytes +
/// w-byte characters up to a target length (so the w names of one width together straddle EVERY offset > w), then
/// short names, a name starting with a 4-byte character, and random mixed-width names of 1..=300 bytes.
pub(super) fn route_names(rng: &mut Rng) -> Vec<String> {
    let sets: [&[char]; 3] = [&['é', 'ü', 'ß', 'ж', 'λ', 'ñ'], &['€', '中', '한', 'ᚠ', 'あ'], &['😀', '𝄞', '𐍈', '🦀']];
    let targets = [131usize, 164, 200, 257, 300, 140, 290, 180, 236];
    let mut v: Vec<String> = vec![];
    let mut k = 0;
    for (wi, set) in sets.iter().enumerate() {
        let w = wi + 2;
        for a in 1..=w {
            let mut s = String::from("/");
            for _ in 1..a {
                s.push('n');
            }
            while s.len() + w <= targets[k % targets.len()] {
                s.push(*rng.pick(set));
            }
            k += 1;
            v.push(s);
        }
    }
    for s in ["/", "/é", "/€", "/😀", "𝄞/ключ/größe", "é"] {
        v.push(s.to_string());
    }
    for _ in 0..4 {
        let len = 1 + rng.usize_below(300);
        let mut s = String::from("/");
        loop {
            let c = match rng.below(4) {
                0 => (b'a' + rng.below(26) as u8) as char,
                n => *rng.pick(sets[n as usize - 1]),
            };
            if s.len() + c.len_utf8() > len {
                break;
            }
            s.push(c);
        }
        v.push(s);
    }
    v.sort();
    v.dedup();
    let mut r2 = rng.fork(7);
    r2.shuffle(&mut v);
    v
}

fn straddled(names: &[String]) -> HashSet<usize> {
    let mut s = HashSet::new();
    for n in names {
        for (i, c) in n.char_indices() {
            for o in i + 1..i + c.len_utf8() {
                s.insert(o);
            }
        }
    }
    s
}

enum Wait {
    Got(SpecHeader, Vec<u8>),
    Closed(String),
    Timeout,
}

struct Cli {
    ws: Ws,
    seen: HashMap<u64, (SpecHeader, Vec<u8>)>,
    closed: Option<String>,
    frames: u64,
}

impl Cli {
    async fn send(&mut self, frames: Vec<Vec<u8>>) {
        for f in frames {
            if let Err(e) = self.ws.feed(WsMsg::Binary(f)).await {
                self.closed.get_or_insert(format!("send failed: {e}"));
                return;
            }
        }
        if let Err(e) = self.ws.flush().await {
            self.closed.get_or_insert(format!("flush failed: {e}"));
        }
    }
    /// Read until a frame with `id` arrived, the connection ended, or `until` returns true / the window closed.
    async fn wait(&mut self, id: u64, dl: Instant, until: impl Fn() -> bool) -> Wait {
        loop {
            if let Some(x) = self.seen.remove(&id) {
                return Wait::Got(x.0, x.1);
            }
            if let Some(w) = &self.closed {
                return Wait::Closed(w.clone());
            }
            if until() {
                return Wait::Timeout;
            }
            let now = Instant::now();
            if now >= dl {
                return Wait::Timeout;
            }
            let step = (dl - now).min(Duration::from_millis(20));
            match tokio::time::timeout(step, self.ws.next()).await {
                Err(_) => {}
                Ok(Some(Ok(WsMsg::Binary(b)))) if b.len() >= 48 => {
                    self.frames += 1;
                    let h = SpecHeader::decode(&b);
                    let body_at = 48usize.saturating_add(h.query_length as usize).min(b.len());
                    self.seen.insert(h.id, (h, b[body_at..].to_vec()));
                }
                Ok(Some(Ok(WsMsg::Close(_)))) => self.closed = Some("close frame".into()),
                Ok(Some(Ok(_))) => {}
                Ok(Some(Err(e))) => self.closed = Some(format!("ws error: {e}")),
                Ok(None) => self.closed = Some("end of stream".into()),
            }
        }
    }
}

struct Group {
    viols: Vec<(String, String, Value)>,
    inconcl: Vec<String>,
    ordinary: u64,
    panics: u64,
    saturations: u64,
    rejects: u64,
    parked_answered: u64,
    pings: u64,
    slot_retries: u64,
    routes_done: u64,
    hook_sat: u64,
    hook_panic: u64,
    hook_label_is_prefix: u64,
    hook_label_other: u64,
    hook_other: u64,
    gate_timeouts: u64,
}

async fn run_group(gi: usize, names: Vec<String>, cap: usize, panic_first: bool, hb: Arc<Heartbeat>) -> Group {
    let mut g = Group { viols: vec![], inconcl: vec![], ordinary: 0, panics: 0, saturations: 0, rejects: 0, parked_answered: 0, pings: 0, slot_retries: 0, routes_done: 0, hook_sat: 0, hook_panic: 0, hook_label_is_prefix: 0, hook_label_other: 0, hook_other: 0, gate_timeouts: 0 };
    let sh = Arc::new(NShared { gates: Mutex::new(HashMap::new()), cv: Condvar::new(), started: Mutex::new(HashSet::new()), hook_sat: Mutex::new(vec![]), hook_panic: Mutex::new(vec![]), hook_other: AtomicU64::new(0), gate_timeouts: AtomicU64::new(0) });
    let mut router = Router::new().with_json("/ping", |v: Value| Ok(v));
    for (i, n) in names.iter().enumerate() {
        let s = sh.clone();
        router = if i % 2 == 0 { router.with_json_blocking(n, move |v: Value| op(&s, &v)) } else { router.with_json_ctx_blocking(n, move |_c: &CallContext, v: Value| op(&s, &v)) };
    }
    let hs = sh.clone();
    let server = WebSocketServer::new(router)
        .on_error(move |e| match e {
            ConnectionError::Saturation { method } => lock(&hs.hook_sat).push(method.clone()),
            ConnectionError::HandlerPanic { method } => lock(&hs.hook_panic).push(method.clone()),
            _ => {
                hs.hook_other.fetch_add(1, Ordering::Relaxed);
            }
        })
        .with_offreader_limit(cap);
    let listener = match tokio::net::TcpListener::bind("127.0.0.1:0").await {
        Ok(l) => l,
        Err(e) => {
            g.inconcl.push(format!("names family: bind: {e}"));
            return g;
        }
    };
    let addr = match listener.local_addr() {
        Ok(a) => a,
        Err(e) => {
            g.inconcl.push(format!("names family: local_addr: {e}"));
            return g;
        }
    };
    let task = tokio::spawn(async move {
        let _ = server.serve_listener(listener, "/repe").await;
    });
    let conn = async {
        let stream = tokio::net::TcpStream::connect(addr).await.map_err(|e| format!("connect failed: {e}"))?;
        let _ = stream.set_nodelay(true);
        tokio_tungstenite::client_async(format!("ws://{addr}/repe"), stream).await.map(|(ws, _)| ws).map_err(|e| format!("websocket handshake failed: {e}"))
    };
    let ws = match tokio::time::timeout(Duration::from_secs(10), conn).await {
        Ok(Ok(ws)) => ws,
        Ok(Err(e)) => {
            g.inconcl.push(format!("names family: {e}"));
            task.abort();
            return g;
        }
        Err(_) => {
            g.inconcl.push("names family: connecting took more than 10 s".into());
            task.abort();
            return g;
        }
    };
    let mut c = Cli { ws, seen: HashMap::new(), closed: None, frames: 0 };
    let mut next = (gi as u64 + 1) << 40;
    let mut fresh = || {
        next += 0x101;
        next
    };
    // failure of a step that only needs the machine to make progress: a stall makes it inconclusive
    let fail = |g: &mut Group, sig: String, detail: String, name: &str| {
        let gap = hb.max_gap_ms();
        if gap > 1000 {
            g.inconcl.push(format!("{sig} suppressed: heartbeat saw a {gap} ms stall ({detail})"));
        } else {
            g.viols.push((sig, detail, json!({"family": "names", "group": gi, "cap": cap, "route_name": name, "route_name_bytes": name.len(), "panic_first": panic_first})));
        }
    };
    let describe = |n: &str| format!("off-reader route name of {} bytes / {} characters {:?}", n.len(), n.chars().count(), trunc(n, 80));
    'routes: for (ri, name) in names.iter().enumerate() {
        // step order: ordinary, then panic and saturation in the group's order (alternating per route)
        let panic_before = panic_first ^ (ri % 2 == 1);
        let steps: [&str; 3] = if panic_before { ["ordinary", "panic", "saturate"] } else { ["ordinary", "saturate", "panic"] };
        for step in steps {
            match step {
                "ordinary" | "panic" => {
                    let (id, tok) = (fresh(), fresh());
                    let want_ec: u32 = if step == "panic" { 9 } else { 0 };
                    // a slot is given back a moment after the reply of the previous occupant: ec 8 is retried (bounded)
                    let mut tries = 0;
                    loop {
                        let id = id + tries;
                        c.send(vec![req_frame(id, false, name, &json!({"op": if step == "panic" { "panic" } else { "ret" }, "tok": tok}))]).await;
                        match c.wait(id, Instant::now() + WINDOW, || false).await {
                            Wait::Got(h, _) if h.ec == 8 && tries < 200 => {
                                tries += 1;
                                g.slot_retries += 1;
                                tokio::time::sleep(Duration::from_millis(10)).await;
                            }
                            Wait::Got(h, _) if h.ec == 8 => {
                                fail(&mut g, format!("C16:slot-not-released:names:{step}"), format!("cap {cap}: with no handler parked a request to the {} was rejected with ec 8 {tries} times in a row", describe(name)), name);
                                break 'routes;
                            }
                            Wait::Got(h, body) => {
                                let body_ok = want_ec != 0 || serde_json::from_slice::<Value>(&body).ok().and_then(|v| v["tok"].as_u64()) == Some(tok);
                                if h.ec != want_ec || !body_ok {
                                    g.viols.push((format!("C16:wrong-reply:names:{step}"), format!("cap {cap}: the {step} request (id {id:#x}) to the {} was answered with ec {} (expected {want_ec}), body {}", describe(name), h.ec, hex_trunc(&body, 48)), json!({"family": "names", "route_name": name})));
                                    break 'routes;
                                }
                                if step == "panic" { g.panics += 1 } else { g.ordinary += 1 }
                                break;
                            }
                            Wait::Closed(why) => {
                                fail(&mut g, format!("C16:connection-lost:names:{step}"), format!("cap {cap}: connection ended ({why}) instead of answering the {step} request (id {id:#x}) to the {}", describe(name)), name);
                                break 'routes;
                            }
                            Wait::Timeout => {
                                let sig = if step == "panic" { "C16:panic-not-reported-to-caller:names".to_string() } else { "C16:request-never-answered:names:ordinary".to_string() };
                                fail(&mut g, sig, format!("cap {cap}: no reply with id {id:#x} within {} s to the {step} request to the {} (a panicking off-reader handler must be answered with ec 9 and the request's id)", WINDOW.as_secs(), describe(name)), name);
                                break 'routes;
                            }
                        }
                    }
                }
                _ => {
                    // park `cap` handlers on this route (ec 8 while fewer are parked = slot still being returned: bounded retries)
                    let mut parked: Vec<(u64, u64)> = vec![];
                    while parked.len() < cap {
                        let mut tries = 0u64;
                        loop {
                            let (id, tok) = (fresh(), fresh());
                            lock(&sh.gates).insert(tok, false);
                            c.send(vec![req_frame(id, false, name, &json!({"op": "park", "tok": tok}))]).await;
                            let s2 = sh.clone();
                            match c.wait(id, Instant::now() + WINDOW, move || lock(&s2.started).contains(&tok)).await {
                                Wait::Timeout if lock(&sh.started).contains(&tok) => {
                                    parked.push((id, tok));
                                    break;
                                }
                                Wait::Got(h, _) if h.ec == 8 && tries < 200 => {
                                    lock(&sh.gates).remove(&tok);
                                    tries += 1;
                                    g.slot_retries += 1;
                                    tokio::time::sleep(Duration::from_millis(10)).await;
                                }
                                Wait::Got(h, _) if h.ec == 8 => {
                                    fail(&mut g, format!("C16:slot-not-released:names:{}", parked.len()), format!("cap {cap}: with {} handler(s) parked a request to the {} was rejected with ec 8 {tries} times in a row over 2 s: a slot was not given back", parked.len(), describe(name)), name);
                                    break 'routes;
                                }
                                Wait::Got(h, body) => {
                                    g.viols.push(("C16:parked-call-answered-before-release:names".into(), format!("cap {cap}: parked request {id:#x} to the {} was answered (ec {}, body {}) while its gate is closed", describe(name), h.ec, hex_trunc(&body, 32)), json!({"family": "names", "route_name": name})));
                                    break 'routes;
                                }
                                Wait::Closed(why) => {
                                    fail(&mut g, "C16:connection-lost:names:park".into(), format!("cap {cap}: connection ended ({why}) while parking handlers on the {}", describe(name)), name);
                                    break 'routes;
                                }
                                Wait::Timeout => {
                                    fail(&mut g, "C16:request-never-answered:names:park".into(), format!("cap {cap}: a request to the {} was neither admitted (handler started) nor rejected within {} s", describe(name), WINDOW.as_secs()), name);
                                    break 'routes;
                                }
                            }
                        }
                    }
                    g.saturations += 1;
                    // one more on the same route + an inline ping, every gate still closed
                    let (xid, xtok, pid, ptok) = (fresh(), fresh(), fresh(), fresh());
                    lock(&sh.gates).insert(xtok, true); // should it ever be admitted it leaves at once
                    c.send(vec![req_frame(xid, false, name, &json!({"op": "park", "tok": xtok})), req_frame(pid, false, "/ping", &json!({"tok": ptok}))]).await;
                    let mut ok = true;
                    match c.wait(xid, Instant::now() + WINDOW, || false).await {
                        Wait::Got(h, _) if h.ec == 8 => g.rejects += 1,
                        Wait::Got(h, _) => {
                            g.viols.push(("C16:over-cap-request-not-rejected:names".into(), format!("cap {cap}: with {cap} handlers parked one more request (id {xid:#x}) to the {} was answered with ec {} instead of ec 8 (handler started: {})", describe(name), h.ec, lock(&sh.started).contains(&xtok)), json!({"family": "names", "route_name": name})));
                            ok = false;
                        }
                        Wait::Closed(why) => {
                            fail(&mut g, "C16:connection-lost:names:saturation".into(), format!("cap {cap}: connection ended ({why}) when one more request (id {xid:#x}) arrived at the saturated cap on the {}: no ec 8 reply, {} parked call(s) lost", describe(name), parked.len()), name);
                            ok = false;
                        }
                        Wait::Timeout => {
                            fail(&mut g, "C16:over-cap-request-never-answered:names".into(), format!("cap {cap}: with {cap} handlers parked one more request (id {xid:#x}) to the {} got no reply within {} s (expected ec 8 at once)", describe(name), WINDOW.as_secs()), name);
                            ok = false;
                        }
                    }
                    if ok {
                        match c.wait(pid, Instant::now() + WINDOW, || false).await {
                            Wait::Got(h, _) if h.ec == 0 => g.pings += 1,
                            Wait::Got(h, _) => {
                                g.viols.push(("C16:wrong-reply:names:ping".into(), format!("inline ping during saturation of the {} answered with ec {}", describe(name), h.ec), json!({"family": "names", "route_name": name})));
                                ok = false;
                            }
                            Wait::Closed(why) => {
                                fail(&mut g, "C16:connection-lost:names:saturation".into(), format!("cap {cap}: connection ended ({why}) during saturation of the {}", describe(name)), name);
                                ok = false;
                            }
                            Wait::Timeout => {
                                fail(&mut g, "C16:inline-call-not-answered-during-saturation:names".into(), format!("cap {cap}: inline ping not answered within {} s while {cap} handlers are parked on the {}", WINDOW.as_secs(), describe(name)), name);
                                ok = false;
                            }
                        }
                    }
                    // release (also on failure, so that no blocking thread is left behind)
                    for (_, tok) in &parked {
                        lock(&sh.gates).insert(*tok, true);
                    }
                    sh.cv.notify_all();
                    if !ok {
                        break 'routes;
                    }
                    for (id, tok) in parked {
                        match c.wait(id, Instant::now() + WINDOW, || false).await {
                            Wait::Got(h, body) if h.ec == 0 && serde_json::from_slice::<Value>(&body).ok().and_then(|v| v["tok"].as_u64()) == Some(tok) => g.parked_answered += 1,
                            Wait::Got(h, body) => {
                                g.viols.push(("C16:wrong-reply:names:released".into(), format!("released call {id:#x} on the {} answered with ec {} body {}", describe(name), h.ec, hex_trunc(&body, 48)), json!({"family": "names", "route_name": name})));
                                break 'routes;
                            }
                            Wait::Closed(why) => {
                                fail(&mut g, "C16:connection-lost:names:release".into(), format!("cap {cap}: connection ended ({why}) before the released call {id:#x} on the {} was answered", describe(name)), name);
                                break 'routes;
                            }
                            Wait::Timeout => {
                                fail(&mut g, "C16:released-call-never-answered:names".into(), format!("cap {cap}: released call {id:#x} on the {} not answered within {} s", describe(name), WINDOW.as_secs()), name);
                                break 'routes;
                            }
                        }
                    }
                }
            }
        }
        g.routes_done += 1;
    }
    // let everything go
    for v in lock(&sh.gates).values_mut() {
        *v = true;
    }
    sh.cv.notify_all();
    drop(c);
    task.abort();
    // hook events: counted, and the label they carry compared with the route names (recorded, not judged)
    let (hs, hp) = (lock(&sh.hook_sat).clone(), lock(&sh.hook_panic).clone());
    g.hook_sat = hs.len() as u64;
    g.hook_panic = hp.len() as u64;
    for m in hs.iter().chain(hp.iter()) {
        if names.iter().any(|n| n.starts_with(m.as_str())) {
            g.hook_label_is_prefix += 1;
        } else {
            g.hook_label_other += 1;
        }
    }
    g.hook_other = sh.hook_other.load(Ordering::Relaxed);
    g.gate_timeouts = sh.gate_timeouts.load(Ordering::Relaxed);
    g
}

pub(super) async fn run_names(seed: u64, hb: Arc<Heartbeat>) -> NamesResult {
    let mut rng = Rng::new(seed ^ 0xC16_0A3E5);
    let names = route_names(&mut rng);
    let covered = (1..=130usize).filter(|o| straddled(&names).contains(o)).count() as u64;
    let mut res = NamesResult { viols: vec![], inconcl: vec![], counts: vec![] };
    if covered < 130 {
        res.inconcl.push(format!("names family: only {covered} of the byte offsets 1..=130 are straddled by a character of some route name (generator defect)"));
        return res;
    }
    let longest = names.iter().map(|n| n.len()).max().unwrap_or(0) as u64;
    let total = names.len() as u64;
    // two groups, each with its own server and connection and ALL names: one starts with the panic on even routes,
    // the other with the saturation (so neither step hides the other behind a first failure)
    let caps = [1 + rng.usize_below(3), 1 + rng.usize_below(3)];
    let (a, b) = tokio::join!(run_group(0, names.clone(), caps[0], true, hb.clone()), run_group(1, names.clone(), caps[1], false, hb.clone()));
    let mut c: HashMap<&'static str, u64> = HashMap::new();
    for g in [a, b] {
        res.viols.extend(g.viols);
        res.inconcl.extend(g.inconcl);
        for (k, v) in [
            ("names_routes_completed", g.routes_done),
            ("names_ordinary_replies", g.ordinary),
            ("names_panic_replies_ec9", g.panics),
            ("names_saturations_reached", g.saturations),
            ("names_over_cap_rejected_ec8", g.rejects),
            ("names_parked_calls_answered_after_release", g.parked_answered),
            ("names_inline_pings_during_saturation", g.pings),
            ("names_slot_retries_on_ec8", g.slot_retries),
            ("names_hook_saturation_events", g.hook_sat),
            ("names_hook_handler_panic_events", g.hook_panic),
            ("names_hook_label_is_prefix_of_a_route_name", g.hook_label_is_prefix),
            ("names_hook_label_other", g.hook_label_other),
            ("names_hook_other_events", g.hook_other),
            ("names_gate_timeouts", g.gate_timeouts),
        ] {
            *c.entry(k).or_insert(0) += v;
        }
    }
    if res.viols.is_empty() && res.inconcl.is_empty() && c.get("names_routes_completed").copied().unwrap_or(0) < 2 * total {
        res.inconcl.push("names family: not every route was exercised".into());
    }
    let mut counts: Vec<(&'static str, u64)> = c.into_iter().collect();
    counts.sort();
    counts.push(("names_route_names", total));
    counts.push(("names_longest_route_name_bytes", longest));
    counts.push(("names_straddled_offsets_1_to_130", covered));
    res.counts = counts;
    res
}
