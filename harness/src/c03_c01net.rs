//! C01 "net" stage: the response BYTES emitted by Server, AsyncServer and WebSocketServer (inline and
//! off-reader) for a chosen logical response are compared with the frame the spec oracle builds for it.
//! The erased handler returns exactly the message described by the request body; mode "echo" leaves the
//! response query empty (the transports frame the borrowed request query), mode "own" sets one.

use super::cli::{CONNECT_T, EOS_T, WAIT_T};
use super::srv::{self, Tr, fill};
use crate::common::*;
use crate::oracle::{self, SpecHeader};
use futures_util::{SinkExt, StreamExt};
use repe::server::HandlerErased;
use repe::{CallContext, Execution, Message, MessageView, RepeError, Router};
use serde_json::json;
use std::sync::Arc;
use tokio::io::{AsyncReadExt, AsyncWriteExt};
use tokio::time::timeout;
use tokio_tungstenite::tungstenite::Message as WsMsg;

#[derive(Clone, Debug)]
struct Spec {
    own_query: bool,
    own_id: bool,
    qf: u16,
    bf: u16,
    ec: u32,
    reserved: u32,
    qlen: u32,
    blen: u32,
    seed: u64,
}

impl Spec {
    fn encode(&self) -> Vec<u8> {
        let mut b = vec![self.own_query as u8, self.own_id as u8];
        b.extend(self.qf.to_le_bytes());
        b.extend(self.bf.to_le_bytes());
        b.extend(self.ec.to_le_bytes());
        b.extend(self.reserved.to_le_bytes());
        b.extend(self.qlen.to_le_bytes());
        b.extend(self.blen.to_le_bytes());
        b.extend(self.seed.to_le_bytes());
        b
    }
    fn decode(b: &[u8]) -> Option<Spec> {
        if b.len() != 30 {
            return None;
        }
        let u16at = |i: usize| u16::from_le_bytes(b[i..i + 2].try_into().unwrap());
        let u32at = |i: usize| u32::from_le_bytes(b[i..i + 4].try_into().unwrap());
        Some(Spec { own_query: b[0] == 1, own_id: b[1] == 1, qf: u16at(2), bf: u16at(4), ec: u32at(6), reserved: u32at(10), qlen: u32at(14), blen: u32at(18), seed: u64::from_le_bytes(b[22..30].try_into().unwrap()) })
    }
    fn resp_query(&self) -> Vec<u8> {
        if self.own_query { fill(self.seed ^ 1, self.qlen.max(1) as usize) } else { vec![] }
    }
    fn resp_body(&self) -> Vec<u8> {
        fill(self.seed ^ 2, self.blen as usize)
    }
    fn resp_id(&self, req_id: u64) -> u64 {
        if self.own_id { self.seed.rotate_left(17) } else { req_id }
    }
    /// The frame the spec prescribes for this logical response.
    fn expected_frame(&self, req_id: u64, req_query: &[u8]) -> Vec<u8> {
        let q = if self.own_query { self.resp_query() } else { req_query.to_vec() };
        oracle::frame(
            SpecHeader { spec: oracle::SPEC, version: 1, notify: 0, reserved: self.reserved, id: self.resp_id(req_id), query_format: self.qf, body_format: self.bf, ec: self.ec, ..Default::default() },
            &q,
            &self.resp_body(),
        )
    }
}

struct C01H {
    off: bool,
}
impl C01H {
    fn respond(&self, id: u64, body: &[u8]) -> Result<Message, RepeError> {
        let Some(s) = Spec::decode(body) else {
            return Err(RepeError::ServerError { code: repe::ErrorCode::InvalidBody, message: "bad spec".into() });
        };
        let mut m = Message::builder().id(s.resp_id(id)).query_format_code(s.qf).body_format_code(s.bf).query_bytes(s.resp_query()).body_bytes(s.resp_body()).build();
        m.header.ec = s.ec;
        m.header.reserved = s.reserved;
        Ok(m)
    }
}
impl HandlerErased for C01H {
    fn handle(&self, req: &Message) -> Result<Message, RepeError> {
        self.respond(req.header.id, &req.body)
    }
    fn handle_view(&self, v: &MessageView, _c: &CallContext) -> Result<Message, RepeError> {
        self.respond(v.header.id, v.body)
    }
    fn execution(&self) -> Execution {
        if self.off { Execution::OffReader } else { Execution::Inline }
    }
}

fn paths() -> Vec<String> {
    let mut v = vec!["/c01".to_string()];
    for k in [1usize, 43, 44, 45, 251, 4091, 8188, 65531] {
        v.push(format!("/c01/{}", "q".repeat(k)));
    }
    v
}

fn router(off: bool) -> Router {
    let h: Arc<dyn HandlerErased> = Arc::new(C01H { off });
    let mut r = Router::new();
    for p in paths() {
        r = r.with_erased_handler(&p, h.clone());
    }
    r
}

const LENS: [u32; 11] = [0, 1, 47, 48, 49, 8191, 8192, 8193, 65535, 65536, 300];

fn gen_case(rng: &mut Rng, paths: &[String]) -> (u64, Vec<u8>, Spec) {
    let len = |rng: &mut Rng| if rng.coin() { *rng.pick(&LENS) } else { rng.below(65537) as u32 };
    let s = Spec {
        own_query: rng.chance(2, 5),
        own_id: rng.chance(1, 8),
        qf: rng.boundary_u16(),
        bf: rng.boundary_u16(),
        ec: rng.boundary_u32(),
        reserved: if rng.chance(1, 4) { rng.boundary_u32() } else { 0 },
        qlen: len(rng).max(1),
        blen: len(rng),
        seed: rng.next_u64(),
    };
    let path = if rng.chance(1, 3) { rng.pick(paths).clone() } else { paths[0].clone() };
    (rng.boundary_u64(), path.into_bytes(), s)
}

fn hdr48(f: &[u8]) -> SpecHeader {
    let mut b = [0u8; 48];
    let n = f.len().min(48);
    b[..n].copy_from_slice(&f[..n]);
    SpecHeader::decode(&b)
}

pub fn first_diff(got: &[u8], want: &[u8]) -> &'static str {
    if got.len() < 48 {
        return "short-frame";
    }
    let (g, w) = (SpecHeader::decode(got), SpecHeader::decode(want));
    if g.length != w.length {
        "length"
    } else if g.spec != w.spec {
        "spec"
    } else if g.version != w.version {
        "version"
    } else if g.notify != w.notify {
        "notify"
    } else if g.reserved != w.reserved {
        "reserved"
    } else if g.id != w.id {
        "id"
    } else if g.query_length != w.query_length {
        "query_length"
    } else if g.body_length != w.body_length {
        "body_length"
    } else if g.query_format != w.query_format {
        "query_format"
    } else if g.body_format != w.body_format {
        "body_format"
    } else if g.ec != w.ec {
        "ec"
    } else if got.len() != want.len() {
        "frame-size"
    } else {
        let ql = (w.query_length as usize).min(got.len() - 48);
        if got[48..48 + ql] != want[48..48 + ql] { "query" } else { "body" }
    }
}

/// One TCP connection: request/response lockstep, then half-close and require a clean end of stream.
async fn tcp_batch(addr: std::net::SocketAddr, cases: &[(u64, Vec<u8>, Spec)]) -> Result<(Vec<Vec<u8>>, usize), String> {
    let mut s = timeout(CONNECT_T, tokio::net::TcpStream::connect(addr)).await.map_err(|_| "connect timeout")?.map_err(|e| e.to_string())?;
    let _ = s.set_nodelay(true);
    let mut got = vec![];
    for (id, q, spec) in cases {
        let req = oracle::frame(SpecHeader { spec: oracle::SPEC, version: 1, id: *id, query_format: 1, body_format: 0, ..Default::default() }, q, &spec.encode());
        timeout(WAIT_T, s.write_all(&req)).await.map_err(|_| "write timeout")?.map_err(|e| e.to_string())?;
        let mut hdr = [0u8; 48];
        timeout(WAIT_T, s.read_exact(&mut hdr)).await.map_err(|_| "timeout reading response header")?.map_err(|e| format!("reading response header: {e}"))?;
        let h = SpecHeader::decode(&hdr);
        let mut frame = hdr.to_vec();
        if h.consistent() && h.length <= 48 + (1 << 18) {
            let mut rest = vec![0u8; (h.length - 48) as usize];
            timeout(WAIT_T, s.read_exact(&mut rest)).await.map_err(|_| "timeout reading response payload")?.map_err(|e| format!("reading response payload: {e}"))?;
            frame.extend(rest);
            got.push(frame);
        } else {
            got.push(frame);
            return Ok((got, 0)); // cannot re-synchronise; the comparison reports the header
        }
    }
    let _ = s.shutdown().await;
    let mut trailing = vec![];
    match timeout(EOS_T, s.read_to_end(&mut trailing)).await {
        Ok(_) => Ok((got, trailing.len())),
        Err(_) => Err("no end of stream after half-close".into()),
    }
}

async fn ws_batch(addr: std::net::SocketAddr, cases: &[(u64, Vec<u8>, Spec)]) -> Result<(Vec<Vec<u8>>, usize), String> {
    let (mut ws, _) = timeout(CONNECT_T, tokio_tungstenite::connect_async(format!("ws://{addr}/ws"))).await.map_err(|_| "ws connect timeout")?.map_err(|e| e.to_string())?;
    let mut got = vec![];
    for (id, q, spec) in cases {
        let req = oracle::frame(SpecHeader { spec: oracle::SPEC, version: 1, id: *id, query_format: 1, body_format: 0, ..Default::default() }, q, &spec.encode());
        timeout(WAIT_T, ws.send(WsMsg::Binary(req))).await.map_err(|_| "ws send timeout")?.map_err(|e| e.to_string())?;
        loop {
            match timeout(WAIT_T, ws.next()).await.map_err(|_| "timeout waiting for ws response")? {
                Some(Ok(WsMsg::Binary(b))) => {
                    got.push(b);
                    break;
                }
                Some(Ok(WsMsg::Ping(_) | WsMsg::Pong(_))) => continue,
                Some(Ok(other)) => return Err(format!("unexpected ws message {other:?}")),
                Some(Err(e)) => return Err(format!("ws error: {e}")),
                None => return Err("ws stream ended before the response".into()),
            }
        }
    }
    let _ = timeout(EOS_T, ws.close(None)).await;
    let mut trailing = 0usize;
    loop {
        match timeout(EOS_T, ws.next()).await {
            Err(_) => return Err("no end of ws stream after Close".into()),
            Ok(None) | Ok(Some(Err(_))) => break,
            Ok(Some(Ok(WsMsg::Binary(b)))) => trailing += b.len(),
            Ok(Some(Ok(_))) => {}
        }
    }
    Ok((got, trailing))
}

pub fn c01_net(args: &Args) -> Report {
    let mut rep = Report::new(
        args,
        "c01-net",
        "an erased handler returns chosen logical responses (echo of the borrowed request query / handler-set query; id, ec, \
         format codes, reserved over boundary classes; bodies 0..64 KiB, queries up to 64 KiB); the bytes received from Server, \
         AsyncServer, WebSocketServer inline and off-reader must equal the frame the spec oracle builds; distinct = (route, \
         echo/own, body-length class, query-length class, reserved!=0, own id)",
    );
    if let Err(e) = oracle::anchor_on_fixtures("/repo/interop/fixtures") {
        rep.inconclusive(format!("spec oracle not anchored on the interop fixtures: {e}"));
        return rep;
    }
    let gag = srv::Gag::new();
    let r = catching(|| c01_net_inner(args, &mut rep));
    drop(gag);
    if let Err(p) = r {
        rep.inconclusive(format!("harness panic: {p}"));
    }
    rep
}

fn c01_net_inner(args: &Args, rep: &mut Report) {
    let rt = tokio::runtime::Builder::new_multi_thread().worker_threads(4).enable_all().build().unwrap();
    // the TCP servers twice: plain, and with (never-firing) read/write timeouts configured, which selects their
    // timeout-wrapped write path
    let routes = [(Tr::Tcp, "server"), (Tr::AsyncTcp, "async-server"), (Tr::WsInline, "ws-inline"), (Tr::WsOff, "ws-offreader"), (Tr::Tcp, "server+timeouts"), (Tr::AsyncTcp, "async-server+timeouts")];
    let mut addrs = vec![];
    for (tr, name) in routes {
        match srv::start_server(&rt, tr, router(tr == Tr::WsOff), name.ends_with("+timeouts")) {
            Ok(a) => addrs.push(a),
            Err(e) => {
                rep.inconclusive(format!("could not start server: {e}"));
                return;
            }
        }
    }
    let ps = paths();
    let batches = args.budget(150, 6_000);
    let per_batch = 16usize;
    let deadline = std::time::Duration::from_secs(if args.thorough() { 400 } else { 30 });
    let mut rng = Rng::new(args.seed ^ 0xC01E7);
    let cls = |n: usize| match n {
        0 => 0,
        1..=47 => 1,
        48 => 2,
        49..=8191 => 3,
        8192 => 4,
        8193..=65535 => 5,
        _ => 6,
    };
    for b in 0..batches {
        if rep.elapsed() > deadline {
            rep.set("stopped_by_wall_clock_budget", json!(true));
            break;
        }
        let mut r = rng.fork(b);
        let cases: Vec<(u64, Vec<u8>, Spec)> = (0..per_batch).map(|_| gen_case(&mut r, &ps)).collect();
        let results: Vec<Result<(Vec<Vec<u8>>, usize), String>> = rt.block_on(async {
            let mut v = vec![];
            for (k, (tr, _)) in routes.iter().enumerate() {
                v.push(if matches!(tr, Tr::Tcp | Tr::AsyncTcp) { tcp_batch(addrs[k], &cases).await } else { ws_batch(addrs[k], &cases).await });
            }
            v
        });
        let mut per_route: Vec<Vec<Vec<u8>>> = vec![];
        for (k, res) in results.into_iter().enumerate() {
            let name = routes[k].1;
            let (got, trailing) = match res {
                Ok(x) => x,
                Err(e) => {
                    rep.inconclusive(format!("{name}: batch {b}: {e}"));
                    per_route.push(vec![]);
                    continue;
                }
            };
            if trailing > 0 {
                rep.violation(format!("C01:server-route-trailing-bytes:{name}"), format!("{name}: {trailing} byte(s) after the last response, before end of stream"), json!({"seed": args.seed, "batch": b}));
            }
            for (i, frame) in got.iter().enumerate() {
                let (id, q, spec) = &cases[i];
                let want = spec.expected_frame(*id, q);
                rep.eval();
                rep.count(&format!("frames_compared.{name}"), 1);
                rep.count("bytes_compared", want.len() as u64);
                rep.distinct(&(name, spec.own_query, cls(spec.blen as usize), cls(if spec.own_query { spec.qlen as usize } else { q.len() }), spec.reserved != 0, spec.own_id));
                if frame != &want {
                    let mode = if spec.own_query { "own-query" } else { "echo-query" };
                    let field = first_diff(frame, &want);
                    rep.violation(
                        format!("C01:server-route-bytes:{name}:{mode}:{field}"),
                        format!("{name} emitted a frame that differs from the spec layout of the logical response in `{field}` ({mode}): got header {:?} ({} bytes), spec header {:?} ({} bytes); logical response {spec:?}", hdr48(frame), frame.len(), SpecHeader::decode(&want), want.len()),
                        json!({"seed": args.seed, "batch": b, "case": i, "request_id": id, "request_query_len": q.len(), "spec": format!("{spec:?}"), "got_hex": hex_trunc(frame, 160), "want_hex": hex_trunc(&want, 160)}),
                    );
                }
            }
            if b == 0 && k == 0 {
                if let Some(f) = got.first() {
                    rep.sample(json!({"route": name, "spec": format!("{:?}", cases[0].2), "frame_hex": hex_trunc(f, 96)}));
                }
            }
            per_route.push(got);
        }
        // pairwise route agreement (implied by each route equalling the oracle; counted for the record)
        for i in 0..per_batch {
            for a in 0..per_route.len() {
                for c in a + 1..per_route.len() {
                    if let (Some(x), Some(y)) = (per_route[a].get(i), per_route[c].get(i)) {
                        rep.count("route_pairs_compared", 1);
                        if x != y {
                            rep.count("route_pairs_differing", 1);
                        }
                    }
                }
            }
        }
    }
    if rep.evaluations == 0 {
        rep.inconclusive("no frame compared");
    }
    rt.shutdown_background();
}
