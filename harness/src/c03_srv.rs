//! C03 helper: global invocation log, test handlers of every built-in kind, routers, the four servers.

use crate::common::Rng;
use repe::server::{HandlerErased, TypedHandlerFnCtx};
use repe::{
    AsyncServer, CallContext, ErrorCode, Execution, JsonTypedHandler, Message, MessageView, Next, Registry, RepeError, Router, Server,
    TypedResponse, WebSocketServer,
};
use serde::{Deserialize, Serialize};
use serde_json::{Value, json};
use std::collections::HashMap;
use std::net::SocketAddr;
use std::sync::atomic::{AtomicU64, Ordering};
use std::sync::{Arc, LazyLock, Mutex};

// ------------------------------------------------------------------ invocation log

pub const EV_H: u8 = 0; // user handler body reached (key = token carried in the request body)
pub const EV_MW: u8 = 1; // middleware reached (key = request id)

static LOG: LazyLock<Mutex<HashMap<(u8, u8, u64), (u32, u8)>>> = LazyLock::new(|| Mutex::new(HashMap::new()));
pub static EVENTS_TOTAL: AtomicU64 = AtomicU64::new(0);

pub fn ev(sid: u8, kind: u8, key: u64, route: u8) {
    EVENTS_TOTAL.fetch_add(1, Ordering::Relaxed);
    let mut g = LOG.lock().unwrap_or_else(|e| e.into_inner());
    let e = g.entry((sid, kind, key)).or_insert((0, route));
    e.0 += 1;
    if e.1 != route {
        e.1 = 0xff;
    }
}
pub fn ev_take(sid: u8, kind: u8, key: u64) -> (u32, u8) {
    LOG.lock().unwrap_or_else(|e| e.into_inner()).remove(&(sid, kind, key)).unwrap_or((0, 0))
}
pub fn ev_peek(sid: u8, kind: u8, key: u64) -> u32 {
    LOG.lock().unwrap_or_else(|e| e.into_inner()).get(&(sid, kind, key)).map(|x| x.0).unwrap_or(0)
}
pub fn ev_drain() -> Vec<((u8, u8, u64), (u32, u8))> {
    LOG.lock().unwrap_or_else(|e| e.into_inner()).drain().collect()
}

// ------------------------------------------------------------------ targets

#[derive(Clone, Copy, PartialEq, Eq, Hash, Debug)]
#[repr(u8)]
pub enum T {
    Json = 1,
    Typed,
    JCtx,
    TCtx,
    Slice,
    SRef,
    RegFn,
    RegVal,
    RegW,
    RegMissing,
    StEcho,
    StRo,
    StMissing,
    Erased,
    Jth,
    BJson,
    BTyped,
    BJCtx,
    BTCtx,
    // ---- re-entrant handlers (c03_re.rs; not drawn by the general generator): functions of the registry mounted at /rr
    // (and /r2) that read and write the registry they live in / the other one, plain value read and write on /rr, and a
    // context-aware handler that calls into the server's peer registry while it runs
    RrSet,
    RrMerge,
    RrMergeRoot,
    RrRegFn,
    RrSetRoot,
    RrRead,
    RrCross,
    R2Cross,
    RrConst,
    RrW,
    PeerReg,
}

/// Handlers that re-enter the state they are served from.
pub const REENT_FN_T: [T; 9] = [T::RrSet, T::RrMerge, T::RrMergeRoot, T::RrRegFn, T::RrSetRoot, T::RrRead, T::RrCross, T::R2Cross, T::PeerReg];

pub const ALL_T: [T; 19] = [
    T::Json,
    T::Typed,
    T::JCtx,
    T::TCtx,
    T::Slice,
    T::SRef,
    T::RegFn,
    T::RegVal,
    T::RegW,
    T::RegMissing,
    T::StEcho,
    T::StRo,
    T::StMissing,
    T::Erased,
    T::Jth,
    T::BJson,
    T::BTyped,
    T::BJCtx,
    T::BTCtx,
];

impl T {
    pub fn path(self) -> &'static str {
        match self {
            T::Json => "/json",
            T::Typed => "/typed",
            T::JCtx => "/jctx",
            T::TCtx => "/tctx",
            T::Slice => "/slice",
            T::SRef => "/sliceref",
            T::RegFn => "/reg/fn",
            T::RegVal => "/reg/val",
            T::RegW => "/reg/w",
            T::RegMissing => "/reg/nosuch",
            T::StEcho => "/st/echo",
            T::StRo => "/st/ro",
            T::StMissing => "/st/nosuch",
            T::Erased => "/erased",
            T::Jth => "/jth",
            T::BJson => "/b/json",
            T::BTyped => "/b/typed",
            T::BJCtx => "/b/jctx",
            T::BTCtx => "/b/tctx",
            T::RrSet => "/rr/set",
            T::RrMerge => "/rr/merge",
            T::RrMergeRoot => "/rr/mergeroot",
            T::RrRegFn => "/rr/regfn",
            T::RrSetRoot => "/rr/setroot",
            T::RrRead => "/rr/read",
            T::RrCross => "/rr/cross",
            T::R2Cross => "/r2/cross",
            T::RrConst => "/rr/const",
            T::RrW => "/rr/w",
            T::PeerReg => "/peerreg",
        }
    }
    /// registered with a `_blocking` constructor in the base router (off-reader on any WebSocket server)
    pub fn blocking_variant(self) -> bool {
        matches!(self, T::BJson | T::BTyped | T::BJCtx | T::BTCtx)
    }
}

pub const CODES: [ErrorCode; 7] = [
    ErrorCode::ApplicationErrorBase,
    ErrorCode::Timeout,
    ErrorCode::InvalidBody,
    ErrorCode::ParseError,
    ErrorCode::MethodNotFound,
    ErrorCode::InternalError,
    ErrorCode::ResourceExhausted,
];
pub fn code_of(c: u8) -> ErrorCode {
    CODES[c as usize % CODES.len()]
}

/// `Tin::op` value: the handler returns `Err((code_of(c), pad))`, i.e. an error whose message is caller-chosen text.
pub const OP_ERR_PAD: u8 = 6;
/// erased handler op: returns `Err(RepeError::ServerError { code_of(c), message: <payload as text> })`.
pub const ERASED_OP_ERR_PAYLOAD: u8 = 5;

#[derive(Serialize, Deserialize, Clone, Debug, PartialEq, Default)]
pub struct Tin {
    pub t: u64,
    pub op: u8,
    pub c: u8,
    pub pad: String,
}
/// The result record of every typed handler kind. `fail` (never on the wire) makes its `Serialize` impl FAIL after it has
/// already produced some output: the handler returned a value, but the library cannot encode it as a response body.
#[derive(Deserialize, Clone, Debug, PartialEq, Default)]
pub struct Tout {
    pub t: u64,
    pub r: String,
    pub pad: String,
    #[serde(skip)]
    pub fail: u8,
}

/// `Tout::fail` values. With fail == 0 the impl below produces exactly what `#[derive(Serialize)]` would.
/// the impl returns a custom error after the fields `t` and `r` have been written
pub const FAIL_MID: u8 = 1;
/// the field `pad` is a map whose key is a tuple: serde_json writes `..."pad":{` and then refuses the key
pub const FAIL_TUPLE_KEYS: u8 = 2;
/// all three fields are written, then the impl returns a custom error instead of closing the record
pub const FAIL_LATE: u8 = 3;
/// the impl returns a custom error before anything is written
pub const FAIL_EARLY: u8 = 4;
pub const FAIL_MODES: [u8; 4] = [FAIL_MID, FAIL_TUPLE_KEYS, FAIL_LATE, FAIL_EARLY];

/// How a request asks a typed handler for an unserializable result: `Tin::c >= 0x10` on a success op.
pub fn fail_of(c: u8) -> u8 {
    if c >= 0x10 { c >> 4 } else { 0 }
}
pub fn fail_name(fail: u8) -> &'static str {
    match fail {
        FAIL_MID => "result-serialize-fails-after-two-fields",
        FAIL_TUPLE_KEYS => "result-has-map-with-tuple-keys",
        FAIL_LATE => "result-serialize-fails-before-closing",
        FAIL_EARLY => "result-serialize-fails-at-once",
        _ => "well-formed",
    }
}

struct TupleKeys<'a>(u64, &'a str);
impl Serialize for TupleKeys<'_> {
    fn serialize<S: serde::Serializer>(&self, s: S) -> Result<S::Ok, S::Error> {
        use serde::ser::SerializeMap;
        let mut m = s.serialize_map(Some(1))?;
        m.serialize_entry(&(self.0, 7u8), self.1)?;
        m.end()
    }
}

impl Serialize for Tout {
    fn serialize<S: serde::Serializer>(&self, s: S) -> Result<S::Ok, S::Error> {
        use serde::ser::{Error, SerializeStruct};
        if self.fail == FAIL_EARLY {
            return Err(S::Error::custom(format!("result {} refuses to be serialized", self.t)));
        }
        let mut st = s.serialize_struct("Tout", 3)?;
        st.serialize_field("t", &self.t)?;
        st.serialize_field("r", &self.r)?;
        match self.fail {
            FAIL_MID => return Err(S::Error::custom(format!("result {} cannot be serialized past its second field", self.t))),
            FAIL_TUPLE_KEYS => st.serialize_field("pad", &TupleKeys(self.t, &self.pad))?,
            _ => st.serialize_field("pad", &self.pad)?,
        }
        if self.fail == FAIL_LATE {
            return Err(S::Error::custom(format!("result {} cannot be closed", self.t)));
        }
        st.end()
    }
}

/// Find the request record in whatever shape a built-in kind hands it to the handler
/// (object; registry: UTF-8 body -> string, raw body -> array of byte values).
pub fn parse_req(v: &Value) -> Option<Tin> {
    match v {
        Value::Object(_) => serde_json::from_value(v.clone()).ok(),
        Value::String(s) => serde_json::from_str(s).ok(),
        Value::Array(a) => {
            let bytes: Option<Vec<u8>> = a.iter().map(|x| x.as_u64().and_then(|n| u8::try_from(n).ok())).collect();
            serde_json::from_slice(&bytes?).ok()
        }
        _ => None,
    }
}

fn json_logic(sid: u8, t: T, v: Value) -> Result<Value, (ErrorCode, String)> {
    match parse_req(&v) {
        Some(r) => {
            ev(sid, EV_H, r.t, t as u8);
            if r.op == 1 {
                Err((code_of(r.c), format!("handler error {}", r.t)))
            } else if r.op == OP_ERR_PAD {
                // the handler's own error message is the request's pad (reflected, possibly long and non-ASCII)
                Err((code_of(r.c), r.pad))
            } else {
                Ok(json!({"t": r.t, "r": t.path(), "pad": r.pad}))
            }
        }
        None => {
            ev(sid, EV_H, 0, t as u8);
            Err((ErrorCode::InvalidBody, "no token in body".into()))
        }
    }
}

fn typed_logic(sid: u8, t: T, r: Tin) -> Result<TypedResponse<Tout>, (ErrorCode, String)> {
    ev(sid, EV_H, r.t, t as u8);
    if r.op == OP_ERR_PAD {
        return Err((code_of(r.c), r.pad));
    }
    let out = Tout { t: r.t, r: t.path().to_string(), pad: r.pad, fail: fail_of(r.c) };
    match r.op {
        1 => Err((code_of(r.c), format!("handler error {}", r.t))),
        3 => Ok(TypedResponse::beve(out)),
        4 => Ok(TypedResponse::utf8(out)),
        5 => Ok(TypedResponse::raw_binary(out)),
        _ => Ok(TypedResponse::json(out)),
    }
}

pub fn slice_result(xs: &[u64]) -> Vec<u64> {
    let mut out: Vec<u64> = xs.iter().map(|x| x.wrapping_add(1)).collect();
    if let Some(f) = out.first_mut() {
        *f = xs[0];
    }
    out
}

fn slice_logic(sid: u8, t: T, xs: &[u64]) -> Result<Vec<u64>, (ErrorCode, String)> {
    let tok = xs.first().copied().unwrap_or(0);
    ev(sid, EV_H, tok, t as u8);
    if xs.get(1).copied() == Some(1) {
        return Err((code_of(xs.get(2).copied().unwrap_or(0) as u8), format!("handler error {tok}")));
    }
    Ok(slice_result(xs))
}

struct TCtxFn {
    sid: u8,
    t: T,
}
impl TypedHandlerFnCtx<Tin, Tout> for TCtxFn {
    type Response = TypedResponse<Tout>;
    fn call(&self, ctx: &CallContext, input: Tin) -> Result<Self::Response, (ErrorCode, String)> {
        if ctx.method() != self.t.path() {
            ev(self.sid, EV_H, input.t, self.t as u8);
            return Err((ErrorCode::InvalidHeader, format!("ctx.method() = {:?}", ctx.method())));
        }
        typed_logic(self.sid, self.t, input)
    }
}

struct Jth {
    sid: u8,
}
impl JsonTypedHandler for Jth {
    type In = Tin;
    type Out = Tout;
    fn call(&self, r: Tin) -> Result<Tout, (ErrorCode, String)> {
        ev(self.sid, EV_H, r.t, T::Jth as u8);
        if r.op == 1 {
            return Err((code_of(r.c), format!("handler error {}", r.t)));
        }
        if r.op == OP_ERR_PAD {
            return Err((code_of(r.c), r.pad));
        }
        Ok(Tout { t: r.t, r: T::Jth.path().to_string(), pad: r.pad, fail: fail_of(r.c) })
    }
}

#[derive(Default, Serialize, Deserialize, repe::RepeStruct)]
#[repe(methods(echo(&mut self, arg: Tin) -> Tout))]
pub struct St {
    ro: u32,
    #[repe(skip)]
    #[serde(default)]
    sid: u8,
}
impl St {
    fn echo(&mut self, arg: Tin) -> Tout {
        ev(self.sid, EV_H, arg.t, T::StEcho as u8);
        Tout { t: arg.t, r: T::StEcho.path().to_string(), pad: arg.pad, fail: fail_of(arg.c) }
    }
}

// ---- custom erased handler: body = [token u64 LE][op u8][c u8][payload..]

pub const OWN_RAW_QUERY_PREFIX: [u8; 2] = [0xff, 0xfe];

/// The response the erased handler is specified to return (None = it returns Err(ServerError{code})).
/// Returns (ec, query_format, body_format, own_query, body).
pub fn erased_spec(req_qf: u16, req_bf: u16, body: &[u8]) -> Option<(u32, u16, u16, Option<Vec<u8>>, Vec<u8>)> {
    if body.len() < 10 {
        return Some((ErrorCode::InvalidBody as u32, 0, 3, None, b"short".to_vec()));
    }
    let tok = u64::from_le_bytes(body[..8].try_into().unwrap());
    let (op, c) = (body[8], body[9]);
    let payload = &body[10..];
    match op {
        1 => Some((0, 1, 0, Some(format!("/own/{tok}").into_bytes()), payload.iter().rev().copied().collect())),
        2 | ERASED_OP_ERR_PAYLOAD => None,
        3 => Some((code_of(c) as u32, 0, 3, None, format!("handler says no {tok}").into_bytes())),
        4 => {
            let mut q = OWN_RAW_QUERY_PREFIX.to_vec();
            q.push(tok as u8);
            Some((0, 0, req_bf, Some(q), payload.to_vec()))
        }
        _ => Some((0, req_qf, req_bf, None, payload.to_vec())),
    }
}

struct Erased {
    sid: u8,
    off: bool,
}
impl Erased {
    fn respond(&self, id: u64, qf: u16, bf: u16, body: &[u8]) -> Result<Message, RepeError> {
        let tok = if body.len() >= 8 { u64::from_le_bytes(body[..8].try_into().unwrap()) } else { 0 };
        ev(self.sid, EV_H, tok, T::Erased as u8);
        match erased_spec(qf, bf, body) {
            None if body[8] == ERASED_OP_ERR_PAYLOAD => {
                Err(RepeError::ServerError { code: code_of(body[9]), message: String::from_utf8_lossy(&body[10..]).into_owned() })
            }
            None => Err(RepeError::ServerError { code: code_of(body[9]), message: format!("erased error {tok}") }),
            Some((ec, rqf, rbf, q, b)) => {
                let mut m = Message::builder()
                    .id(id)
                    .query_format_code(rqf)
                    .body_format_code(rbf)
                    .query_bytes(q.unwrap_or_default())
                    .body_bytes(b)
                    .build();
                m.header.ec = ec;
                Ok(m)
            }
        }
    }
}
impl HandlerErased for Erased {
    fn handle(&self, req: &Message) -> Result<Message, RepeError> {
        self.respond(req.header.id, req.header.query_format, req.header.body_format, &req.body)
    }
    fn handle_view(&self, v: &MessageView, _ctx: &CallContext) -> Result<Message, RepeError> {
        self.respond(v.header.id, v.header.query_format, v.header.body_format, v.body)
    }
    fn execution(&self) -> Execution {
        if self.off { Execution::OffReader } else { Execution::Inline }
    }
}

/// Marks any resolved handler off-reader (for kinds that have no `_blocking` constructor).
pub struct OffWrap(pub Arc<dyn HandlerErased>);
impl HandlerErased for OffWrap {
    fn handle(&self, r: &Message) -> Result<Message, RepeError> {
        self.0.handle(r)
    }
    fn handle_with_ctx(&self, r: &Message, c: &CallContext) -> Result<Message, RepeError> {
        self.0.handle_with_ctx(r, c)
    }
    fn execution(&self) -> Execution {
        Execution::OffReader
    }
}

pub fn reg_val() -> Value {
    json!({"k": [1, 2, 3], "s": "v"})
}

fn registry(sid: u8) -> Arc<Registry> {
    let reg = Arc::new(Registry::new());
    reg.register_value("/val", reg_val()).unwrap();
    reg.register_value("/w", json!(0)).unwrap();
    reg.register_function("/fn", move |p: Option<Value>| -> Result<Value, (ErrorCode, String)> {
        json_logic(sid, T::RegFn, p.unwrap_or(Value::Null))
    })
    .unwrap();
    reg
}

// ---- re-entrant handlers

pub fn rr_const() -> Value {
    json!({"fixed": [1, 2, 3], "s": "never written"})
}

/// Root of the /rr registry: every key the re-entrant functions and the plain value requests use.
fn rr_root(limit: u64) -> Value {
    json!({"limit": limit, "cfg": {"a": 1}, "const": rr_const(), "w": 0, "seen": 0, "dyn": {}})
}

/// The function registered under `t`: it re-enters `own` (the registry it is registered in) and, for the cross kinds,
/// `other`, through the registries' public API while it runs, then returns the usual record. The result does not depend on
/// what the registries hold (other connections change them at the same time).
fn reent_logic(sid: u8, t: T, v: Value, own: &Registry, other: &Registry) -> Result<Value, (ErrorCode, String)> {
    let Some(r) = parse_req(&v) else {
        ev(sid, EV_H, 0, t as u8);
        return Err((ErrorCode::InvalidBody, "no token in body".into()));
    };
    ev(sid, EV_H, r.t, t as u8);
    let fail = |e: repe::RegistryError| (ErrorCode::InternalError, format!("re-entrant registry call failed: {e}"));
    let one = |k: String, v: Value| -> serde_json::Map<String, Value> { [(k, v)].into_iter().collect() };
    match t {
        T::RrSet => {
            let _previous = own.read_value("/limit").map_err(fail)?;
            own.register_value("/limit", json!(r.t % 1000)).map_err(fail)?;
        }
        T::RrMerge => {
            own.merge_at("/cfg", one(format!("k{}", r.t % 7), json!(r.t))).map_err(fail)?;
            let _ = own.read_value("/cfg").map_err(fail)?;
        }
        T::RrMergeRoot => own.merge_root(one("seen".into(), json!(r.t))).map_err(fail)?,
        T::RrRegFn => {
            own.register_function(&format!("/dyn/f{}", r.t % 5), |p: Option<Value>| -> Result<Value, (ErrorCode, String)> { Ok(p.unwrap_or(Value::Null)) }).map_err(fail)?;
            own.register_value("/dyn/count", json!(r.t)).map_err(fail)?;
        }
        T::RrSetRoot => own.set_root(rr_root(r.t % 1000)),
        T::RrRead => {
            let _ = own.read_value("/limit").map_err(fail)?;
            let _ = own.read_value("/const").map_err(fail)?;
        }
        T::RrCross => {
            let _ = own.read_value("/limit").map_err(fail)?;
            other.register_value("/n", json!(r.t)).map_err(fail)?;
        }
        T::R2Cross => {
            own.register_value("/n", json!(r.t)).map_err(fail)?;
            other.merge_at("/cfg", one("from_r2".into(), json!(r.t))).map_err(fail)?;
        }
        _ => {}
    }
    if r.op == 1 {
        return Err((code_of(r.c), format!("handler error {}", r.t)));
    }
    Ok(json!({"t": r.t, "r": t.path(), "pad": r.pad}))
}

/// The two registries mounted at /rr and /r2.
fn reent_registries(sid: u8) -> (Arc<Registry>, Arc<Registry>) {
    let r1 = Arc::new(Registry::new());
    let r2 = Arc::new(Registry::new());
    r1.set_root(rr_root(10));
    r2.set_root(json!({"n": 0}));
    for t in [T::RrSet, T::RrMerge, T::RrMergeRoot, T::RrRegFn, T::RrSetRoot, T::RrRead, T::RrCross, T::R2Cross] {
        let (own, other) = if t == T::R2Cross { (&r2, &r1) } else { (&r1, &r2) };
        // weak: the registry owns the function, the function must not keep the registry alive
        let (wo, wx) = (Arc::downgrade(own), Arc::downgrade(other));
        let name = t.path().rsplit('/').next().unwrap_or("");
        own.register_function(&format!("/{name}"), move |p: Option<Value>| -> Result<Value, (ErrorCode, String)> {
            match (wo.upgrade(), wx.upgrade()) {
                (Some(o), Some(x)) => reent_logic(sid, t, p.unwrap_or(Value::Null), &o, &x),
                _ => Err((ErrorCode::InternalError, "registry gone".into())),
            }
        })
        .unwrap();
    }
    (r1, r2)
}

static PREGS: LazyLock<Mutex<HashMap<u8, repe::PeerRegistry>>> = LazyLock::new(|| Mutex::new(HashMap::new()));

/// The peer registry of server `sid` (shared by its /peerreg handler and, on WebSocket servers that attach it, the server).
pub fn preg_for(sid: u8) -> repe::PeerRegistry {
    PREGS.lock().unwrap_or_else(|e| e.into_inner()).entry(sid).or_default().clone()
}

/// A context-aware handler that calls into the server's peer registry while it runs.
fn peerreg(sid: u8) -> impl Fn(&CallContext, Value) -> Result<Value, (ErrorCode, String)> + Send + Sync + 'static {
    let preg = preg_for(sid);
    move |ctx: &CallContext, v: Value| {
        let Some(r) = parse_req(&v) else {
            ev(sid, EV_H, 0, T::PeerReg as u8);
            return Err((ErrorCode::InvalidBody, "no token in body".into()));
        };
        ev(sid, EV_H, r.t, T::PeerReg as u8);
        let _ = preg.len();
        if let Some(p) = ctx.peer() {
            let id = p.peer_id();
            if preg.get(id).is_some() {
                let key = format!("tok{}-{}", r.t % 16, id.0);
                let _ = preg.alias(id, key.clone());
                let _ = preg.get_by(key.as_str());
                let _ = preg.aliases_for(id);
                let _ = preg.key_for(id);
            }
        }
        let _ = preg.peers().len();
        if r.op == 1 {
            return Err((code_of(r.c), format!("handler error {}", r.t)));
        }
        Ok(json!({"t": r.t, "r": T::PeerReg.path(), "pad": r.pad}))
    }
}

fn jctx(sid: u8, t: T) -> impl Fn(&CallContext, Value) -> Result<Value, (ErrorCode, String)> + Send + Sync + 'static {
    move |ctx: &CallContext, v: Value| {
        if ctx.method() != t.path() {
            return Err((ErrorCode::InvalidHeader, format!("ctx.method() = {:?}", ctx.method())));
        }
        json_logic(sid, t, v)
    }
}

/// Base router: every built-in kind registered the plain way, plus the four `_blocking` constructors under /b/.
fn base_router(sid: u8) -> Router {
    let (r, _) = Router::new()
        .with_json(T::Json.path(), move |v| json_logic(sid, T::Json, v))
        .with_typed::<Tin, Tout, _>(T::Typed.path(), move |r: Tin| typed_logic(sid, T::Typed, r))
        .with_json_ctx(T::JCtx.path(), jctx(sid, T::JCtx))
        .with_typed_ctx::<Tin, Tout, _>(T::TCtx.path(), TCtxFn { sid, t: T::TCtx })
        .with_typed_slice::<u64, u64, _>(T::Slice.path(), move |xs: Vec<u64>| slice_logic(sid, T::Slice, &xs))
        .with_typed_slice_ref::<u64, u64, _>(T::SRef.path(), move |xs: &[u64]| slice_logic(sid, T::SRef, xs))
        .with_registry("/reg", registry(sid))
        .with_erased_handler(T::Erased.path(), Arc::new(Erased { sid, off: false }))
        .with_handler(T::Jth.path(), Jth { sid })
        .with_json_blocking(T::BJson.path(), move |v| json_logic(sid, T::BJson, v))
        .with_typed_blocking::<Tin, Tout, _>(T::BTyped.path(), move |r: Tin| typed_logic(sid, T::BTyped, r))
        .with_json_ctx_blocking(T::BJCtx.path(), jctx(sid, T::BJCtx))
        .with_typed_ctx_blocking::<Tin, Tout, _>(T::BTCtx.path(), TCtxFn { sid, t: T::BTCtx })
        .with_struct("/st", St { ro: 42, sid });
    let (r1, r2) = reent_registries(sid);
    r.with_registry("/rr", r1).with_registry("/r2", r2).with_json_ctx(T::PeerReg.path(), peerreg(sid))
}

/// The same handlers, every one marked off-reader.
fn off_router(sid: u8) -> Router {
    let base = base_router(sid);
    let mut r = Router::new()
        .with_json_blocking(T::Json.path(), move |v| json_logic(sid, T::Json, v))
        .with_typed_blocking::<Tin, Tout, _>(T::Typed.path(), move |r: Tin| typed_logic(sid, T::Typed, r))
        .with_json_ctx_blocking(T::JCtx.path(), jctx(sid, T::JCtx))
        .with_typed_ctx_blocking::<Tin, Tout, _>(T::TCtx.path(), TCtxFn { sid, t: T::TCtx })
        .with_json_blocking(T::BJson.path(), move |v| json_logic(sid, T::BJson, v))
        .with_typed_blocking::<Tin, Tout, _>(T::BTyped.path(), move |r: Tin| typed_logic(sid, T::BTyped, r))
        .with_json_ctx_blocking(T::BJCtx.path(), jctx(sid, T::BJCtx))
        .with_typed_ctx_blocking::<Tin, Tout, _>(T::BTCtx.path(), TCtxFn { sid, t: T::BTCtx })
        .with_erased_handler(T::Erased.path(), Arc::new(Erased { sid, off: true }));
    r = r.with_json_ctx_blocking(T::PeerReg.path(), peerreg(sid));
    for t in [T::Slice, T::SRef, T::RegFn, T::RegVal, T::RegW, T::RegMissing, T::StEcho, T::StRo, T::StMissing, T::Jth, T::RrSet, T::RrMerge, T::RrMergeRoot, T::RrRegFn, T::RrSetRoot, T::RrRead, T::RrCross, T::R2Cross, T::RrConst, T::RrW] {
        let h = base.get(t.path()).expect("base route");
        r = r.with_erased_handler(t.path(), Arc::new(OffWrap(h)));
    }
    r
}

pub fn build_router(sid: u8, off: bool, mw: bool) -> Router {
    let r = if off { off_router(sid) } else { base_router(sid) };
    if mw {
        r.with_middleware(move |req: &Message, next: Next<'_>| {
            ev(sid, EV_MW, req.header.id, 0);
            next.run(req)
        })
    } else {
        r
    }
}

// ------------------------------------------------------------------ servers

#[derive(Clone, Copy, PartialEq, Eq, Debug, Hash)]
pub enum Tr {
    Tcp,
    AsyncTcp,
    WsInline,
    WsOff,
}

#[derive(Clone, Debug)]
pub struct Srv {
    pub sid: u8,
    pub tr: Tr,
    pub mw: bool,
    pub addr: SocketAddr,
    /// configuration suffix of the server's name (c03_bp.rs: small outbound queue / runtime flavour); None: default configuration
    pub tag: Option<String>,
}

impl Srv {
    pub fn name(&self) -> String {
        let t = match self.tr {
            Tr::Tcp => "server",
            Tr::AsyncTcp => "async-server",
            Tr::WsInline => "ws-inline",
            Tr::WsOff => "ws-offreader",
        };
        let t = match &self.tag {
            Some(tag) => format!("{t}-{tag}"),
            None => t.to_string(),
        };
        if self.mw { format!("{t}+mw") } else { t }
    }
    pub fn is_ws(&self) -> bool {
        matches!(self.tr, Tr::WsInline | Tr::WsOff)
    }
    /// Does a *dispatched* request to `t` run on the connection's reader (ordered) on this server?
    pub fn inline_for(&self, t: T) -> bool {
        match self.tr {
            Tr::Tcp | Tr::AsyncTcp => true,
            Tr::WsInline => !t.blocking_variant(),
            Tr::WsOff => false,
        }
    }
}

/// Start one server of the given kind over `router`; returns its address. Servers live until process exit.
/// `timeouts`: configure generous (60 s) read/write timeouts on the TCP servers. They never fire in these workloads, but
/// they select the servers' timeout-wrapped read/write code paths, which must answer exactly like the plain ones.
pub fn start_server(rt: &tokio::runtime::Runtime, tr: Tr, router: Router, timeouts: bool) -> std::io::Result<SocketAddr> {
    let t = if timeouts { Some(std::time::Duration::from_secs(60)) } else { None };
    match tr {
        Tr::Tcp => {
            let l = std::net::TcpListener::bind("127.0.0.1:0")?;
            let addr = l.local_addr()?;
            std::thread::Builder::new().name("c03-server".into()).spawn(move || {
                let _ = Server::new(router).read_timeout(t).write_timeout(t).serve(l);
            })?;
            Ok(addr)
        }
        Tr::AsyncTcp => {
            let l = rt.block_on(tokio::net::TcpListener::bind("127.0.0.1:0"))?;
            let addr = l.local_addr()?;
            rt.spawn(async move {
                let _ = AsyncServer::new(router).read_timeout(t).write_timeout(t).serve(l).await;
            });
            Ok(addr)
        }
        Tr::WsInline | Tr::WsOff => {
            let l = rt.block_on(tokio::net::TcpListener::bind("127.0.0.1:0"))?;
            let addr = l.local_addr()?;
            // saturation disabled (limit 0 = unbounded) so C16 behaviour cannot leak in
            let s = WebSocketServer::new(router).with_offreader_limit(0).on_error(|_| {});
            rt.spawn(async move {
                let _ = s.serve_listener(l, "/ws").await;
            });
            Ok(addr)
        }
    }
}

pub fn start_all(rt: &tokio::runtime::Runtime) -> std::io::Result<Vec<Srv>> {
    let mut v = vec![];
    let mut sid = 0u8;
    for mw in [false, true] {
        for tr in [Tr::Tcp, Tr::AsyncTcp, Tr::WsInline, Tr::WsOff] {
            let router = build_router(sid, tr == Tr::WsOff, mw);
            // the middleware family also runs the TCP servers with timeouts configured
            let addr = start_server(rt, tr, router, mw)?;
            v.push(Srv { sid, tr, mw, addr, tag: None });
            sid += 1;
        }
    }
    Ok(v)
}

// ------------------------------------------------------------------ stderr gag
// The servers print one line per closed connection to stderr; thousands of connections would bury the
// stage summary. Redirect fd 2 to /dev/null while the workload runs (RV_C03_STDERR=1 keeps it).

pub struct Gag {
    saved: i32,
}
impl Gag {
    pub fn new() -> Option<Gag> {
        if std::env::var_os("RV_C03_STDERR").is_some() {
            return None;
        }
        unsafe {
            let saved = libc::dup(2);
            let null = libc::open(c"/dev/null".as_ptr(), libc::O_WRONLY);
            if saved < 0 || null < 0 {
                return None;
            }
            libc::dup2(null, 2);
            libc::close(null);
            Some(Gag { saved })
        }
    }
}
impl Drop for Gag {
    fn drop(&mut self) {
        unsafe {
            libc::dup2(self.saved, 2);
            libc::close(self.saved);
        }
    }
}

/// Deterministic filler shared by handlers and oracle.
pub fn fill(seed: u64, n: usize) -> Vec<u8> {
    Rng::new(seed ^ 0xF111).bytes(n)
}
