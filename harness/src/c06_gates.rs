//! C06 gate-forced schedules: timeout-vs-response orders, task abort at each probe point, faults
//! landing while a caller is parked between registration and write.

use super::imp::{Stats, check_panic, check_residue, judge, report_hang};
use super::infra::*;
use crate::common::*;
use serde_json::{Value, json};
use std::time::Duration;

/// Launch `n` calls one by one, waiting for each `registered` probe so that the k-th launched call
/// owns request id `first_id + k`. Returns false when a registration was not observed.
fn launch_serial(env: &mut Env, cli: &Cli, calls: &mut Calls, kind: Kind, n: usize, first_id: u64, timeout: Option<Duration>, rng: &mut Rng) -> bool {
    for k in 0..n {
        let tok = env.token();
        calls.launch(env, cli, tok, rng.usize_below(24), timeout);
        if !ps_wait_event((kind.pt("registered").unwrap(), first_id + k as u64), STEP_MAX) {
            return false;
        }
    }
    true
}

/// The id the harness assumed for a call must be the id the fake server saw with that call's token.
fn id_assumption_holds(srv: &Srv, calls: &Calls, idx: usize, id: u64) -> bool {
    srv.req_by_token(calls.v[idx].token).map(|r| r.header.id == id).unwrap_or(true)
}

// ------------------------------------------------------------------ timeout vs response

#[derive(Clone, Copy, Debug, PartialEq, Eq, Hash)]
pub enum Order {
    /// caller parked at timeout.before_remove; the reader matches and delivers; then the caller removes
    TimeoutThenDeliver,
    /// caller parked at timeout.before_remove, reader parked at reader.received; caller removes and
    /// returns; then the reader finds nothing
    TimeoutThenUnmatched,
    /// reader parked at reader.before_deliver (entry already removed) until the caller's timeout fired
    /// and the caller returned; then the reader delivers to nobody
    RemovedThenTimeout,
    /// no response until after the timeout; the late response arrives while the next call is in flight
    NoResponse,
    /// response well before the timeout (not gated): the caller gets its own token
    ResponseWins,
}
const ORDERS: [Order; 5] = [Order::TimeoutThenDeliver, Order::TimeoutThenUnmatched, Order::RemovedThenTimeout, Order::NoResponse, Order::ResponseWins];

fn run_race(env: &mut Env, rep: &mut Report, st: &mut Stats, kind: Kind, order: Order, bystanders: usize, rng: &mut Rng, case: u64) {
    let ctx = format!("race:{order:?}");
    let ws = kind == Kind::Ws;
    let replay = json!({"scenario": "race", "client": kind.name(), "order": format!("{order:?}"), "bystanders": bystanders, "seed": rep.seed, "case": case});
    env.hb_reset();
    ps_reset();
    let _ = take_last_panic();
    let (cli, mut srv) = match env.connect(kind, true) {
        Ok(x) => x,
        Err(e) => return rep.inconclusive(format!("{} / {ctx}: {e}", kind.name())),
    };
    rep.eval();
    rep.distinct(&(kind, order, bystanders));
    let p = |w: &str| kind.pt(w).unwrap();
    let mut calls = Calls::new();
    if !launch_serial(env, &cli, &mut calls, kind, bystanders, 1, None, rng) || !srv.wait_reqs(bystanders, STEP_MAX) {
        return rep.inconclusive(format!("{} / {ctx}: bystanders not registered/seen", kind.name()));
    }
    let xid = bystanders as u64 + 1;
    let to = Duration::from_millis(if order == Order::ResponseWins { 20_000 } else { 60 + rng.below(60) });
    match order {
        Order::TimeoutThenDeliver => ps_park((p("timeout.before_remove"), xid)),
        Order::TimeoutThenUnmatched => {
            ps_park((p("timeout.before_remove"), xid));
            ps_park((p("reader.received"), xid));
        }
        Order::RemovedThenTimeout => ps_park((p("reader.before_deliver"), xid)),
        _ => {}
    }
    let xtok = env.token();
    let x = calls.launch(env, &cli, xtok, rng.usize_below(24), Some(to));
    if !srv.wait_reqs(bystanders + 1, STEP_MAX) {
        ps_release_all();
        return rep.inconclusive(format!("{} / {ctx}: racing request not seen by the server", kind.name()));
    }
    let xreq = srv.req_by_token(xtok);
    if !id_assumption_holds(&srv, &calls, x, xid) || xreq.is_none() {
        ps_release_all();
        return rep.inconclusive(format!("{} / {ctx}: request id assumption broken", kind.name()));
    }
    let xreq = xreq.unwrap();
    let mut forced = true;
    let mut late_pending = false; // the response for X has not been sent yet
    match order {
        Order::TimeoutThenDeliver => {
            forced &= ps_wait_parked((p("timeout.before_remove"), xid), STEP_MAX);
            srv.answer(&xreq, ws);
            forced &= ps_wait_event((p("reader.before_deliver"), xid), STEP_MAX);
            std::thread::sleep(Duration::from_millis(15)); // let the send after the probe complete (coverage only)
            ps_release((p("timeout.before_remove"), xid));
        }
        Order::TimeoutThenUnmatched => {
            forced &= ps_wait_parked((p("timeout.before_remove"), xid), STEP_MAX);
            srv.answer(&xreq, ws);
            forced &= ps_wait_parked((p("reader.received"), xid), STEP_MAX);
            ps_release((p("timeout.before_remove"), xid));
        }
        Order::RemovedThenTimeout => {
            srv.answer(&xreq, ws);
            forced &= ps_wait_parked((p("reader.before_deliver"), xid), STEP_MAX);
            forced &= ps_wait_event((p("timeout.before_remove"), xid), STEP_MAX);
        }
        Order::NoResponse => late_pending = true,
        Order::ResponseWins => srv.answer(&xreq, ws),
    }
    // X returns
    let miss = calls.wait(&[x], WINDOW);
    if !miss.is_empty() {
        ps_release_all();
        report_hang(rep, env, "timeout-hang", kind, &ctx, &miss, &calls, &replay);
        return;
    }
    // residue check while the reader is still parked (before the late response can hide a leak)
    match order {
        Order::TimeoutThenUnmatched | Order::NoResponse | Order::RemovedThenTimeout => check_residue(rep, &cli, bystanders, kind, &format!("{ctx}:after-timeout"), &replay),
        _ => {}
    }
    match order {
        Order::TimeoutThenUnmatched => ps_release((p("reader.received"), xid)),
        Order::RemovedThenTimeout => ps_release((p("reader.before_deliver"), xid)),
        _ => {}
    }
    // was the intended order really produced?
    let (ib, ir, id_) = (ps_index((p("timeout.before_remove"), xid)), ps_index((p("reader.received"), xid)), ps_index((p("reader.before_deliver"), xid)));
    let achieved = forced
        && match order {
            Order::TimeoutThenDeliver | Order::TimeoutThenUnmatched => matches!((ib, ir), (Some(a), Some(b)) if a < b),
            Order::RemovedThenTimeout => matches!((id_, ib), (Some(a), Some(b)) if a < b),
            Order::NoResponse => ib.is_some() && ir.is_none(),
            Order::ResponseWins => ib.is_none(),
        };
    st.bump(format!("race|{}|{order:?}|{}", kind.name(), if achieved { "order-forced" } else { "order-not-achieved" }));
    let x_ok = matches!(calls.v[x].res, Some(CallRes::Ok(_)));
    judge(rep, st, &calls, &[x], &srv, kind, &ctx, order == Order::ResponseWins, &replay);
    if order != Order::ResponseWins {
        rep.count(if x_ok { "race_timed_call_got_own_response" } else { "race_timed_call_got_timeout_err" }, 1);
    }

    // the client is still healthy: next call, late response in between, bystanders answered in random order
    let ytok = env.token();
    // (blocking client: from the very thread whose call just timed out, as an application loop would)
    let y = calls.launch_same_thread(env, &cli, x, ytok, rng.usize_below(24), if rng.coin() { None } else { Some(Duration::from_secs(40)) });
    if !srv.wait_reqs(bystanders + 2, STEP_MAX) {
        srv.poll();
        let miss = calls.wait(&[y], Duration::from_millis(200));
        if miss.is_empty() {
            judge(rep, st, &calls, &[y], &srv, kind, &format!("{ctx}:next-call"), true, &replay);
        } else {
            report_hang(rep, env, "next-call-not-sent", kind, &ctx, &miss, &calls, &replay);
        }
        return;
    }
    if late_pending {
        srv.answer(&xreq, ws);
        rep.count("late_responses_sent_after_timeout", 1);
    }
    let mut rest: Vec<Req> = srv.reqs.iter().filter(|r| r.header.id != xreq.header.id).cloned().collect();
    rng.shuffle(&mut rest);
    for r in &rest {
        srv.answer(r, ws);
    }
    let all = calls.all();
    let miss = calls.wait(&all, WINDOW);
    srv.poll();
    if !miss.is_empty() {
        report_hang(rep, env, "healthy-call-hang", kind, &ctx, &miss, &calls, &replay);
        return;
    }
    let others: Vec<usize> = all.iter().copied().filter(|i| *i != x).collect();
    judge(rep, st, &calls, &others, &srv, kind, &format!("{ctx}:next-call"), true, &replay);
    check_residue(rep, &cli, 0, kind, &format!("{ctx}:end"), &replay);
    check_panic(rep, kind, &ctx, &replay);
    if case < 2 {
        rep.sample(json!({"race": replay, "x_result": format!("{:?}", calls.v[x].res), "order_forced": achieved, "trace": ps_trace()}));
    }
}

pub fn run_races(env: &mut Env, rep: &mut Report, st: &mut Stats, rng: &mut Rng, args: &Args) {
    let rounds = args.budget(3, 40);
    let mut case = 0u64;
    for round in 0..rounds {
        for kind in KINDS {
            for order in ORDERS {
                for by in [0usize, 3] {
                    if env.stop() {
                        return;
                    }
                    let by = if round > 0 && by > 0 { 1 + rng.usize_below(8) } else { by };
                    let mut r = rng.fork(0x5ACE_0000 + case);
                    let ts = std::time::Instant::now();
                    run_race(env, rep, st, kind, order, by, &mut r, case);
                    st.timed(format!("race {} {order:?} by={by}", kind.name()), ts);
                    case += 1;
                }
            }
        }
    }
    // every (client, order) must have been produced at least once, otherwise the race clause was not exercised
    for kind in KINDS {
        for order in ORDERS {
            if !st.sched.contains_key(&format!("race|{}|{order:?}|order-forced", kind.name())) && rep.violations.is_empty() {
                rep.inconclusive(format!("race order {order:?} was never forced on {}", kind.name()));
            }
        }
    }
}

// ------------------------------------------------------------------ cancellation

#[derive(Clone, Copy, Debug, PartialEq, Eq, Hash)]
pub enum Trig {
    /// abort at `registered` while another call holds the writer lock: dropped while awaiting the lock
    RegisteredLockHeld,
    /// abort at `registered`, lock free: the request still goes out, dropped while awaiting the response
    Registered,
    WriteLocked,
    Written,
    /// abort while awaiting the response (trigger: the fake server saw the request)
    Waiting,
    /// abort while the reader is parked at reader.received with the response in hand
    ReaderReceived,
    /// abort while the reader is parked at reader.before_deliver (entry already taken)
    ReaderBeforeDeliver,
}
const TRIGS: [Trig; 7] = [Trig::RegisteredLockHeld, Trig::Registered, Trig::WriteLocked, Trig::Written, Trig::Waiting, Trig::ReaderReceived, Trig::ReaderBeforeDeliver];

fn run_cancel(env: &mut Env, rep: &mut Report, st: &mut Stats, kind: Kind, trig: Trig, bystanders: usize, rng: &mut Rng, case: u64) {
    let ctx = format!("cancel@{trig:?}");
    let ws = kind == Kind::Ws;
    let replay = json!({"scenario": "cancel", "client": kind.name(), "trigger": format!("{trig:?}"), "bystanders": bystanders, "seed": rep.seed, "case": case});
    let point = match trig {
        Trig::RegisteredLockHeld | Trig::Registered => kind.pt("registered"),
        Trig::WriteLocked => kind.pt("write.locked"),
        Trig::Written => kind.pt("written"),
        Trig::Waiting => None,
        Trig::ReaderReceived => kind.pt("reader.received"),
        Trig::ReaderBeforeDeliver => kind.pt("reader.before_deliver"),
    };
    if point.is_none() && trig != Trig::Waiting {
        return; // probe point does not exist for this client (ws_client has no `.written`)
    }
    env.hb_reset();
    ps_reset();
    let _ = take_last_panic();
    let (cli, mut srv) = match env.connect(kind, true) {
        Ok(x) => x,
        Err(e) => return rep.inconclusive(format!("{} / {ctx}: {e}", kind.name())),
    };
    rep.eval();
    rep.distinct(&(kind, trig, bystanders));
    let p = |w: &str| kind.pt(w).unwrap();
    let mut calls = Calls::new();
    if !launch_serial(env, &cli, &mut calls, kind, bystanders, 1, None, rng) || !srv.wait_reqs(bystanders, STEP_MAX) {
        return rep.inconclusive(format!("{} / {ctx}: bystanders not registered/seen", kind.name()));
    }
    let mut next_id = bystanders as u64 + 1;
    let mut z = None;
    if trig == Trig::RegisteredLockHeld {
        ps_park((p("write.locked"), next_id));
        let ztok = env.token();
        z = Some((calls.launch(env, &cli, ztok, 5, None), next_id));
        if !ps_wait_parked((p("write.locked"), next_id), STEP_MAX) {
            ps_release_all();
            return rep.inconclusive(format!("{} / {ctx}: lock holder never reached write.locked", kind.name()));
        }
        next_id += 1;
    }
    let xid = next_id;
    if let Some(pt) = point {
        ps_park((pt, xid));
    }
    let xtok = env.token();
    let x = calls.launch(env, &cli, xtok, rng.usize_below(24), if rng.coin() { None } else { Some(Duration::from_secs(40)) });
    let seen_before_x = bystanders;
    let x_written;
    let mut x_answered = false;
    let mut reached;
    x_written = trig != Trig::RegisteredLockHeld;
    match trig {
        Trig::RegisteredLockHeld | Trig::Registered | Trig::WriteLocked | Trig::Written => {
            reached = ps_wait_parked((point.unwrap(), xid), STEP_MAX);
        }
        Trig::Waiting => {
            reached = srv.wait_reqs(seen_before_x + 1, STEP_MAX);
        }
        Trig::ReaderReceived | Trig::ReaderBeforeDeliver => {
            reached = srv.wait_reqs(seen_before_x + 1, STEP_MAX);
            if let Some(r) = srv.req_by_token(xtok) {
                srv.answer(&r, ws);
                x_answered = true;
            }
            reached &= ps_wait_parked((point.unwrap(), xid), STEP_MAX);
        }
    }
    if !reached {
        ps_release_all();
        return rep.inconclusive(format!("{} / {ctx}: trigger point not reached; trace: {}", kind.name(), ps_trace()));
    }
    // abort; caller-side parks are released right after the abort flag is set so the task runs on to
    // its next pending await and is dropped there; reader-side parks stay until the task is gone
    let caller_side = matches!(trig, Trig::RegisteredLockHeld | Trig::Registered | Trig::WriteLocked | Trig::Written);
    let how = calls.abort_and_join(env, x, WINDOW, || {
        if caller_side {
            ps_release((point.unwrap(), xid));
        }
    });
    st.bump(format!("cancel|{}|{trig:?}|{}", kind.name(), how.split(':').next().unwrap_or("")));
    match how.as_str() {
        "cancelled" => rep.count("tasks_cancelled", 1),
        "completed" => {}
        "join-timeout" => {
            ps_release_all();
            let gap = env.hb.max_gap_ms();
            env.hangs_left -= 1;
            if gap > 1000 {
                rep.inconclusive(format!("aborted task did not finish but the machine stalled {gap} ms"));
            } else {
                rep.violation(format!("C06:cancel-hang:{}:{ctx}", kind.name()), format!("an aborted call task was still alive {} s after abort; trace: {}", WINDOW.as_secs(), ps_trace()), replay.clone());
            }
            return;
        }
        other => {
            rep.violation(format!("C06:panic:{}:{ctx}:task", kind.name()), format!("the aborted call task ended with {other}; last panic {:?}", take_last_panic()), replay.clone());
        }
    }
    // no residue: only the bystanders (and the parked lock holder) are registered now
    let registered_now = bystanders + if z.is_some() { 1 } else { 0 };
    if how == "cancelled" {
        check_residue(rep, &cli, registered_now, kind, &format!("{ctx}:after-abort"), &replay);
    }
    match trig {
        Trig::ReaderReceived | Trig::ReaderBeforeDeliver => ps_release((point.unwrap(), xid)),
        _ => {}
    }
    if let Some((_, zid)) = z {
        ps_release((p("write.locked"), zid));
    }
    // next call on the still-healthy client. Requests reach the fake server in write order, so once
    // it has seen this one, whether the cancelled request went out is decided.
    let ytok = env.token();
    let y = calls.launch(env, &cli, ytok, rng.usize_below(24), None);
    if !srv.wait_token(ytok, STEP_MAX) {
        let miss = calls.wait(&[y], Duration::from_millis(200));
        if miss.is_empty() {
            judge(rep, st, &calls, &[y], &srv, kind, &format!("{ctx}:next-call"), true, &replay);
        } else {
            report_hang(rep, env, "next-call-not-sent", kind, &ctx, &miss, &calls, &replay);
        }
        return;
    }
    let x_seen = srv.req_by_token(xtok).is_some();
    if x_written && !x_seen {
        // the abort took effect at an await before the write (e.g. the sink was momentarily busy): legitimate
        rep.count("cancelled_before_write", 1);
    }
    if !x_written && x_seen {
        rep.violation(
            format!("C06:cancelled-request-sent:{}:{ctx}", kind.name()),
            "a call aborted while it was still waiting for the writer lock nevertheless put its request on the wire".to_string(),
            replay.clone(),
        );
    }
    let expect_reqs = bystanders + if z.is_some() { 1 } else { 0 } + if x_seen { 1 } else { 0 } + 1;
    if srv.reqs.len() != expect_reqs {
        return rep.inconclusive(format!("{} / {ctx}: server saw {} requests, expected {expect_reqs} ({:?})", kind.name(), srv.reqs.len(), srv.gone));
    }
    let xreq = srv.req_by_token(xtok);
    if let (Some(r), false) = (&xreq, x_answered) {
        srv.answer(r, ws);
        rep.count("late_responses_sent_after_cancel", 1);
    }
    let mut rest: Vec<Req> = srv.reqs.iter().filter(|r| r.token != xtok).cloned().collect();
    rng.shuffle(&mut rest);
    for r in &rest {
        srv.answer(r, ws);
    }
    let others: Vec<usize> = calls.all().into_iter().filter(|i| *i != x).collect();
    let miss = calls.wait(&others, WINDOW);
    srv.poll();
    if !miss.is_empty() {
        report_hang(rep, env, "healthy-call-hang", kind, &ctx, &miss, &calls, &replay);
        return;
    }
    judge(rep, st, &calls, &others, &srv, kind, &format!("{ctx}:next-call"), true, &replay);
    if how == "completed" {
        judge(rep, st, &calls, &[x], &srv, kind, &ctx, false, &replay);
    }
    check_residue(rep, &cli, 0, kind, &format!("{ctx}:end"), &replay);
    check_panic(rep, kind, &ctx, &replay);
    if case < 2 {
        rep.sample(json!({"cancel": replay, "join": how, "trace": ps_trace()}));
    }
}

pub fn run_cancels(env: &mut Env, rep: &mut Report, st: &mut Stats, rng: &mut Rng, args: &Args) {
    let rounds = args.budget(5, 40);
    let mut case = 0u64;
    for round in 0..rounds {
        for kind in [Kind::Async, Kind::Ws] {
            for trig in TRIGS {
                for by in [0usize, 2] {
                    if env.stop() {
                        return;
                    }
                    let by = if round > 0 && by > 0 { 1 + rng.usize_below(6) } else { by };
                    let mut r = rng.fork(0xCA9C_0000 + case);
                    let ts = std::time::Instant::now();
                    run_cancel(env, rep, st, kind, trig, by, &mut r, case);
                    st.timed(format!("cancel {} {trig:?} by={by}", kind.name()), ts);
                    case += 1;
                }
            }
        }
    }
}

// ------------------------------------------------------------------ fault while a caller is parked mid-call

#[derive(Clone, Copy, Debug, PartialEq, Eq, Hash)]
pub enum Hold {
    AtRegistered,
    AtWriteLocked,
}
#[derive(Clone, Copy, Debug, PartialEq, Eq, Hash)]
pub enum HeldFault {
    Close,
    Rst,
    BadMagicHeldOpen,
}

fn run_held_one(env: &mut Env, rep: &mut Report, st: &mut Stats, kind: Kind, hold: Hold, hf: HeldFault, tmo: bool, rng: &mut Rng, case: u64) {
    let ctx = format!("{hf:?}+held@{hold:?}");
    let ws = kind == Kind::Ws;
    let replay = json!({"scenario": "held", "client": kind.name(), "hold": format!("{hold:?}"), "fault": format!("{hf:?}"), "timeouts": tmo, "seed": rep.seed, "case": case});
    env.hb_reset();
    ps_reset();
    let _ = take_last_panic();
    let (cli, mut srv) = match env.connect(kind, true) {
        Ok(x) => x,
        Err(e) => return rep.inconclusive(format!("{} / {ctx}: {e}", kind.name())),
    };
    rep.eval();
    rep.distinct(&(kind, hold, hf, tmo));
    let pt = kind.pt(if hold == Hold::AtRegistered { "registered" } else { "write.locked" }).unwrap();
    let to = |b: bool| if b { Some(Duration::from_secs(40)) } else { None };
    let mut calls = Calls::new();
    // one ordinary call already in flight
    let pre = rng.usize_below(3);
    if !launch_serial(env, &cli, &mut calls, kind, pre, 1, to(tmo), rng) || !srv.wait_reqs(pre, STEP_MAX) {
        return rep.inconclusive(format!("{} / {ctx}: setup calls not seen", kind.name()));
    }
    let aid = pre as u64 + 1;
    ps_park((pt, aid));
    let atok = env.token();
    calls.launch(env, &cli, atok, 4, to(tmo));
    if !ps_wait_parked((pt, aid), STEP_MAX) {
        ps_release_all();
        return rep.inconclusive(format!("{} / {ctx}: holder never parked", kind.name()));
    }
    match hf {
        HeldFault::Close => srv.send(Cmd::Close),
        HeldFault::Rst => srv.send(Cmd::Rst),
        HeldFault::BadMagicHeldOpen => {
            let f = super::imp::bad_frame(super::imp::BadHdr::Magic0, &Req::fabricated(aid).response());
            srv.send(if ws { Cmd::WsBinary(f) } else { Cmd::Raw(f) });
        }
    }
    // let the reader notice the failure while the holder is parked (drives coverage only)
    std::thread::sleep(Duration::from_millis(20 + rng.below(40)));
    let late = 1 + rng.usize_below(4);
    for i in 0..late {
        let t = env.token();
        calls.launch(env, &cli, t, rng.usize_below(16), to(tmo && i % 2 == 0));
    }
    std::thread::sleep(Duration::from_millis(rng.below(15)));
    // a burst of fresh callers right at the release: they race the failing reader for the writer lock
    let burst = 2 + rng.usize_below(5);
    let toks: Vec<u64> = (0..burst).map(|_| env.token()).collect();
    if let Cli::Sync(c) = &cli {
        // std::sync::Mutex is not fair: callers that are already spinning can barge in between the
        // holder's unlock and the reader's wake-up
        let go = std::sync::Arc::new(std::sync::atomic::AtomicBool::new(false));
        for (i, t) in toks.into_iter().enumerate() {
            calls.launch_spinning(c, t, to(tmo && i % 2 == 1), go.clone(), i as u64 * (5 + rng.below(25)));
        }
        std::thread::sleep(Duration::from_millis(2));
        go.store(true, std::sync::atomic::Ordering::Release);
        ps_release((pt, aid));
    } else {
        ps_release((pt, aid));
        for (i, t) in toks.into_iter().enumerate() {
            calls.launch(env, &cli, t, 0, to(tmo && i % 2 == 1));
        }
    }
    let late = late + burst;
    rep.count("held_schedules_calls", (pre + 1 + late) as u64);
    let all = calls.all();
    let miss = calls.wait(&all, WINDOW);
    srv.poll();
    st.bump(format!("held|{}|{hold:?}|{hf:?}", kind.name()));
    if !miss.is_empty() {
        report_hang(rep, env, "hang", kind, &ctx, &miss, &calls, &replay);
        return;
    }
    judge(rep, st, &calls, &all, &srv, kind, &ctx, false, &replay);
    let t = env.token();
    let l = calls.launch(env, &cli, t, 2, None);
    let miss = calls.wait(&[l], WINDOW);
    if !miss.is_empty() {
        report_hang(rep, env, "later-call-hang", kind, &ctx, &miss, &calls, &replay);
        return;
    }
    if let Some(CallRes::Ok(v)) = &calls.v[l].res {
        rep.violation(format!("C06:later-call-succeeded:{}:{ctx}", kind.name()), format!("later call returned Ok({v}) on a dead connection"), replay.clone());
    } else {
        rep.count("later_calls_returned_err", 1);
    }
    check_residue(rep, &cli, 0, kind, &ctx, &replay);
    check_panic(rep, kind, &ctx, &replay);
}

pub fn run_held(env: &mut Env, rep: &mut Report, st: &mut Stats, rng: &mut Rng, args: &Args) {
    let rounds = args.budget(2, 25);
    let mut case = 0u64;
    for _ in 0..rounds {
        for kind in KINDS {
            for hold in [Hold::AtRegistered, Hold::AtWriteLocked] {
                for hf in [HeldFault::Close, HeldFault::Rst, HeldFault::BadMagicHeldOpen] {
                    for tmo in [false, true] {
                        if env.stop() {
                            return;
                        }
                        // the blocking client's writer mutex is unfair: the interesting hand-over is a
                        // matter of microseconds, so that cell is repeated
                        let reps = if kind == Kind::Sync && hold == Hold::AtWriteLocked { 4 } else { 1 };
                        for _ in 0..reps {
                            let mut r = rng.fork(0x4E1D_0000 + case);
                            let ts = std::time::Instant::now();
                            run_held_one(env, rep, st, kind, hold, hf, tmo, &mut r, case);
                            st.timed(format!("held {} {hold:?} {hf:?} tmo={tmo}", kind.name()), ts);
                            case += 1;
                        }
                    }
                }
            }
        }
    }
}

// ------------------------------------------------------------------ forwarded frames (AsyncClient::forward_message*)
//
// `forward_message` / `forward_message_with_timeout` register a CALLER-CHOSEN request id (a proxy relays
// downstream frames over a shared upstream client). They are a call kind of their own with their own
// registration/cleanup code path, so every way a call can end without a response is driven through
// them as well: timeout (fake server silent, and the forced reader-vs-timeout orders the probe points
// of that path allow), task abort / future drop at the probe points and while waiting. After each:
// pending table exactly as before the forward (checked BEFORE any late response could clear a leaked
// entry), a RETRY forward under the SAME id is accepted, written once and gets its own response, the
// late response of the abandoned forward reaches nobody, bystanders and the next ordinary call get
// their own tokens, pending table empty at the end.
//
// The forward path has no `registered` and no `timeout.before_remove` probe (only the shared
// write.locked / written / reader.* points fire, with the caller-chosen id), so the order
// "timeout fired, entry not yet removed, reader delivers" cannot be forced for forwards.

const FK: Kind = Kind::Async;

struct FwdCase<'a> {
    ctx: &'a str,
    replay: &'a Value,
    /// index of the abandoned (timed out / aborted / dropped / completed) forward
    x: usize,
    fid: u64,
    xtok: u64,
    /// the fake server has already sent the response for X
    x_answered: bool,
    /// X is expected on the wire (false: it was cancelled while still waiting for the writer lock)
    x_written_expected: bool,
}

fn fwd_x_seen(rep: &mut Report, srv: &Srv, f: &FwdCase) -> bool {
    let seen = srv.req_by_token(f.xtok).is_some();
    if f.x_written_expected && !seen {
        rep.count("forward_cancelled_before_write", 1);
    }
    if !f.x_written_expected && seen {
        rep.violation(
            format!("C06:cancelled-request-sent:{}:{}", FK.name(), f.ctx),
            "a forward cancelled while it was still waiting for the writer lock nevertheless put its frame on the wire".to_string(),
            f.replay.clone(),
        );
    }
    seen
}

/// What must hold after a forward ended without (or with) its response. Two orders of the two
/// follow-up events are driven: the late response first, then the retry under the same id; or the
/// retry first (answered), then the late response.
fn fwd_aftermath(env: &mut Env, rep: &mut Report, st: &mut Stats, cli: &Cli, srv: &mut Srv, calls: &mut Calls, rng: &mut Rng, f: &FwdCase) {
    let (ctx, replay) = (f.ctx, f.replay);
    let late_first = f.x_answered || rng.coin();
    st.bump(format!("forward-aftermath|{}", if late_first { "late-response-then-retry" } else { "retry-then-late-response" }));
    let mut late_sent = f.x_answered;
    if late_first {
        // an ordinary call as a barrier: requests reach the server in write order and the reader
        // handles responses in arrival order, so once this call has its answer the late response of
        // X has been handled (and whether X went out at all is decided)
        let ytok = env.token();
        let y = calls.launch(env, cli, ytok, rng.usize_below(24), None);
        if !srv.wait_token(ytok, STEP_MAX) {
            let miss = calls.wait(&[y], Duration::from_millis(200));
            if miss.is_empty() {
                judge(rep, st, calls, &[y], srv, FK, &format!("{ctx}:next-call"), true, replay);
            } else {
                report_hang(rep, env, "next-call-not-sent", FK, ctx, &miss, calls, replay);
            }
            return;
        }
        fwd_x_seen(rep, srv, f);
        if let (Some(r), false) = (srv.req_by_token(f.xtok), late_sent) {
            srv.answer(&r, false);
            late_sent = true;
            rep.count("late_responses_sent_for_abandoned_forward", 1);
        }
        if let Some(r) = srv.req_by_token(ytok) {
            srv.answer(&r, false);
        }
        let miss = calls.wait(&[y], WINDOW);
        if !miss.is_empty() {
            report_hang(rep, env, "healthy-call-hang", FK, ctx, &miss, calls, replay);
            return;
        }
        judge(rep, st, calls, &[y], srv, FK, &format!("{ctx}:next-call"), true, replay);
    }
    // RETRY under the same caller-chosen id
    let rtok = env.token();
    let rto = if rng.coin() { None } else { Some(Duration::from_secs(40)) };
    let r = calls.launch_fwd(env, cli, f.fid, rtok, rng.usize_below(24), rto, false);
    rep.count("forward_retries_with_same_id", 1);
    // the retry reaches the server, or it returns without having been written (refused)
    let deadline = std::time::Instant::now() + STEP_MAX;
    let mut r_seen = false;
    while !r_seen && std::time::Instant::now() < deadline {
        r_seen = srv.wait_token(rtok, Duration::from_millis(10));
        if !r_seen && calls.wait(&[r], Duration::ZERO).is_empty() {
            // returned: a frame written before the return is at most a moment behind
            r_seen = srv.wait_token(rtok, Duration::from_millis(150));
            break;
        }
    }
    if !r_seen {
        srv.poll();
        let miss = calls.wait(&[r], Duration::from_millis(500));
        if miss.is_empty() {
            match &calls.v[r].res {
                Some(CallRes::Err(e)) if e.contains("already pending") || e.contains("AlreadyExists") => rep.violation(
                    format!("C06:forward-retry-refused:{}:{ctx}", FK.name()),
                    format!(
                        "after `{ctx}` ended forward id {} (token {}) without a response, a retry forward with the SAME caller-chosen id (token {rtok}) was refused: Err({e}); \
                         verif_pending_len() = {}; the abandoned forward left its id registered; trace: {}",
                        f.fid,
                        f.xtok,
                        cli.pending_len(),
                        ps_trace()
                    ),
                    replay.clone(),
                ),
                _ => judge(rep, st, calls, &[r], srv, FK, &format!("{ctx}:retry"), true, replay),
            }
        } else {
            report_hang(rep, env, "retry-not-sent", FK, ctx, &miss, calls, replay);
        }
        return;
    }
    let x_seen = fwd_x_seen(rep, srv, f);
    let Some(rreq) = srv.req_by_token(rtok) else { return };
    if rreq.header.id != f.fid {
        rep.violation(
            format!("C06:forward-id-rewritten:{}:{ctx}", FK.name()),
            format!("the retry frame was built with request id {} and reached the server with id {}", f.fid, rreq.header.id),
            replay.clone(),
        );
    }
    srv.answer(&rreq, false);
    let miss = calls.wait(&[r], WINDOW);
    if !miss.is_empty() {
        report_hang(rep, env, "retry-hang", FK, ctx, &miss, calls, replay);
        return;
    }
    judge(rep, st, calls, &[r], srv, FK, &format!("{ctx}:retry"), true, replay);
    if matches!(calls.v[r].res, Some(CallRes::Ok(_))) {
        rep.count("forward_retries_got_own_response", 1);
    }
    if let (Some(xr), false, true) = (srv.req_by_token(f.xtok), late_sent, x_seen) {
        // the late response of the abandoned forward: nobody is registered under that id any more
        srv.answer(&xr, false);
        rep.count("late_responses_sent_for_abandoned_forward", 1);
    }
    // next ordinary call; everything still unanswered (bystanders, lock holder) in random order
    let ztok = env.token();
    let z = calls.launch(env, cli, ztok, rng.usize_below(24), if rng.coin() { None } else { Some(Duration::from_secs(40)) });
    if !srv.wait_token(ztok, STEP_MAX) {
        let miss = calls.wait(&[z], Duration::from_millis(200));
        if miss.is_empty() {
            judge(rep, st, calls, &[z], srv, FK, &format!("{ctx}:next-call"), true, replay);
        } else {
            report_hang(rep, env, "next-call-not-sent", FK, ctx, &miss, calls, replay);
        }
        return;
    }
    let mut rest: Vec<Req> = srv.reqs.iter().filter(|q| q.token != f.xtok && !srv.sent_tokens.contains(&q.token)).cloned().collect();
    rng.shuffle(&mut rest);
    for q in &rest {
        srv.answer(q, false);
    }
    let others: Vec<usize> = calls.all().into_iter().filter(|i| *i != f.x).collect();
    let miss = calls.wait(&others, WINDOW);
    srv.poll();
    if !miss.is_empty() {
        report_hang(rep, env, "healthy-call-hang", FK, ctx, &miss, calls, replay);
        return;
    }
    judge(rep, st, calls, &others, srv, FK, &format!("{ctx}:next-call"), true, replay);
    let copies = srv.reqs.iter().filter(|q| q.token == rtok).count();
    if copies != 1 {
        rep.violation(
            format!("C06:forward-retry-duplicated:{}:{ctx}", FK.name()),
            format!("the retry forward (id {}, token {rtok}) reached the server {copies} times", f.fid),
            replay.clone(),
        );
    }
    let x_copies = srv.reqs.iter().filter(|q| q.token == f.xtok).count();
    if x_copies > 1 {
        rep.violation(
            format!("C06:forward-duplicated:{}:{ctx}", FK.name()),
            format!("the abandoned forward (id {}, token {}) reached the server {x_copies} times", f.fid, f.xtok),
            replay.clone(),
        );
    }
    check_residue(rep, cli, 0, FK, &format!("forward:{ctx}:end"), replay);
    check_panic(rep, FK, ctx, replay);
}

/// Bystanders of a forward scenario: `n` ordinary calls (ids 1..=n) and, when n > 0, one more
/// FORWARD in flight under another caller-chosen id. Returns the number of registered calls.
fn fwd_bystanders(env: &mut Env, cli: &Cli, srv: &mut Srv, calls: &mut Calls, n: usize, rng: &mut Rng) -> Option<usize> {
    if !launch_serial(env, cli, calls, FK, n, 1, None, rng) || !srv.wait_reqs(n, STEP_MAX) {
        return None;
    }
    if n == 0 {
        return Some(0);
    }
    let (bid, btok) = (env.fwd_id(), env.token());
    calls.launch_fwd(env, cli, bid, btok, rng.usize_below(24), if rng.coin() { None } else { Some(Duration::from_secs(40)) }, false);
    if !srv.wait_token(btok, STEP_MAX) {
        return None;
    }
    Some(n + 1)
}

#[derive(Clone, Copy, Debug, PartialEq, Eq, Hash)]
pub enum FOrder {
    /// server silent until after the timeout
    NoResponse,
    /// response read by the reader, reader parked at reader.received (entry not yet looked up) until the
    /// forward's timeout fired and the forward returned; then the reader must find nothing
    ReceivedThenTimeout,
    /// reader parked at reader.before_deliver (entry already taken) until the forward's timeout fired
    /// and it returned; then the reader delivers to nobody
    RemovedThenTimeout,
    /// response well before the timeout: own token; the id is then reused by the next forward
    ResponseWins,
}
const FORDERS: [FOrder; 4] = [FOrder::NoResponse, FOrder::ReceivedThenTimeout, FOrder::RemovedThenTimeout, FOrder::ResponseWins];

fn run_fwd_race(env: &mut Env, rep: &mut Report, st: &mut Stats, order: FOrder, bystanders: usize, rng: &mut Rng, case: u64) {
    let ctx = format!("forward-race:{order:?}");
    let replay = json!({"scenario": "forward-race", "client": FK.name(), "order": format!("{order:?}"), "bystanders": bystanders, "seed": rep.seed, "case": case});
    env.hb_reset();
    ps_reset();
    let _ = take_last_panic();
    let (cli, mut srv) = match env.connect(FK, true) {
        Ok(x) => x,
        Err(e) => return rep.inconclusive(format!("{} / {ctx}: {e}", FK.name())),
    };
    rep.eval();
    rep.distinct(&("forward-race", order, bystanders));
    let p = |w: &str| FK.pt(w).unwrap();
    let mut calls = Calls::new();
    let Some(registered) = fwd_bystanders(env, &cli, &mut srv, &mut calls, bystanders, rng) else {
        return rep.inconclusive(format!("{} / {ctx}: bystanders not registered/seen", FK.name()));
    };
    let fid = env.fwd_id();
    let to = Duration::from_millis(if order == FOrder::ResponseWins { 20_000 } else { 80 + rng.below(80) });
    match order {
        FOrder::ReceivedThenTimeout => ps_park((p("reader.received"), fid)),
        FOrder::RemovedThenTimeout => ps_park((p("reader.before_deliver"), fid)),
        _ => {}
    }
    let xtok = env.token();
    let x = calls.launch_fwd(env, &cli, fid, xtok, rng.usize_below(24), Some(to), false);
    if !srv.wait_token(xtok, STEP_MAX) {
        ps_release_all();
        return rep.inconclusive(format!("{} / {ctx}: forwarded request not seen by the server", FK.name()));
    }
    let xreq = srv.req_by_token(xtok).unwrap();
    if xreq.header.id != fid {
        rep.violation(
            format!("C06:forward-id-rewritten:{}:{ctx}", FK.name()),
            format!("the forwarded frame was built with request id {fid} and reached the server with id {}", xreq.header.id),
            replay.clone(),
        );
    }
    let mut forced = true;
    match order {
        FOrder::NoResponse => {}
        FOrder::ReceivedThenTimeout => {
            srv.answer(&xreq, false);
            forced &= ps_wait_parked((p("reader.received"), fid), STEP_MAX);
        }
        FOrder::RemovedThenTimeout => {
            srv.answer(&xreq, false);
            // the reader parks with the entry in hand, or the timeout won the race to the entry
            let deadline = std::time::Instant::now() + STEP_MAX;
            loop {
                if ps_wait_parked((p("reader.before_deliver"), fid), Duration::from_millis(5)) {
                    break;
                }
                if calls.wait(&[x], Duration::ZERO).is_empty() || std::time::Instant::now() > deadline {
                    forced = ps_wait_parked((p("reader.before_deliver"), fid), Duration::from_millis(20));
                    break;
                }
            }
        }
        FOrder::ResponseWins => srv.answer(&xreq, false),
    }
    let miss = calls.wait(&[x], WINDOW);
    if !miss.is_empty() {
        ps_release_all();
        report_hang(rep, env, "timeout-hang", FK, &ctx, &miss, &calls, &replay);
        return;
    }
    // residue BEFORE the reader goes on / before any late response: exactly the bystanders are registered
    check_residue(rep, &cli, registered, FK, &format!("forward:{ctx}:after-return"), &replay);
    match order {
        FOrder::ReceivedThenTimeout => ps_release((p("reader.received"), fid)),
        FOrder::RemovedThenTimeout => ps_release((p("reader.before_deliver"), fid)),
        _ => {}
    }
    let x_ok = matches!(calls.v[x].res, Some(CallRes::Ok(_)));
    let x_timeout = matches!(&calls.v[x].res, Some(CallRes::Err(e)) if e.starts_with("Io:TimedOut") || e.contains("timed out"));
    let achieved = forced
        && match order {
            FOrder::NoResponse | FOrder::ReceivedThenTimeout | FOrder::RemovedThenTimeout => !x_ok,
            FOrder::ResponseWins => x_ok,
        };
    st.bump(format!("forward-race|{order:?}|{}", if achieved { "order-forced" } else { "order-not-achieved" }));
    judge(rep, st, &calls, &[x], &srv, FK, &ctx, order == FOrder::ResponseWins, &replay);
    if order != FOrder::ResponseWins {
        rep.count(if x_ok { "forward_race_timed_forward_got_own_response" } else { "forward_race_timed_forward_got_err" }, 1);
        if x_timeout {
            rep.count("forward_timeouts_observed", 1);
        }
    }
    let f = FwdCase { ctx: &ctx, replay: &replay, x, fid, xtok, x_answered: order != FOrder::NoResponse, x_written_expected: true };
    fwd_aftermath(env, rep, st, &cli, &mut srv, &mut calls, rng, &f);
    if case < 2 {
        rep.sample(json!({"forward_race": replay, "x_result": format!("{:?}", calls.v[x].res), "order_forced": achieved, "trace": ps_trace()}));
    }
}

pub fn run_fwd_races(env: &mut Env, rep: &mut Report, st: &mut Stats, rng: &mut Rng, args: &Args) {
    let rounds = args.budget(5, 20);
    let mut case = 0u64;
    for round in 0..rounds {
        for order in FORDERS {
            for by in [0usize, 3] {
                if env.stop() {
                    rep.count("forward_scenarios_not_run_wall_cap", 1);
                    continue;
                }
                let by = if round > 0 && by > 0 { 1 + rng.usize_below(8) } else { by };
                let mut r = rng.fork(0xF0AD_0000 + case);
                let ts = std::time::Instant::now();
                run_fwd_race(env, rep, st, order, by, &mut r, case);
                st.timed(format!("forward-race {order:?} by={by}"), ts);
                case += 1;
            }
        }
    }
    for order in FORDERS {
        if !st.sched.contains_key(&format!("forward-race|{order:?}|order-forced")) && rep.violations.is_empty() {
            rep.inconclusive(format!("forward race order {order:?} was never forced"));
        }
    }
}

#[derive(Clone, Copy, Debug, PartialEq, Eq, Hash)]
pub enum FTrig {
    /// cancelled while waiting for the writer lock (another call is parked holding it): registered, never written
    LockWait,
    WriteLocked,
    Written,
    /// cancelled while awaiting the response (trigger: the fake server saw the frame)
    Waiting,
    /// cancelled while the reader is parked at reader.received with the response in hand
    ReaderReceived,
    /// cancelled while the reader is parked at reader.before_deliver (entry already taken)
    ReaderBeforeDeliver,
}
const FTRIGS: [FTrig; 6] = [FTrig::LockWait, FTrig::WriteLocked, FTrig::Written, FTrig::Waiting, FTrig::ReaderReceived, FTrig::ReaderBeforeDeliver];

#[derive(Clone, Copy, Debug, PartialEq, Eq, Hash)]
pub enum EndBy {
    /// JoinHandle::abort on the task awaiting the forward
    Abort,
    /// the task stays alive and drops the forward future (select! against a signal)
    DropFuture,
}

fn run_fwd_cancel(env: &mut Env, rep: &mut Report, st: &mut Stats, trig: FTrig, by_: EndBy, bystanders: usize, rng: &mut Rng, case: u64) {
    let ctx = format!("forward-cancel@{trig:?}/{by_:?}");
    let replay = json!({"scenario": "forward-cancel", "client": FK.name(), "trigger": format!("{trig:?}"), "end": format!("{by_:?}"), "bystanders": bystanders, "seed": rep.seed, "case": case});
    let p = |w: &str| FK.pt(w).unwrap();
    let point = match trig {
        FTrig::LockWait | FTrig::Waiting => None,
        FTrig::WriteLocked => Some(p("write.locked")),
        FTrig::Written => Some(p("written")),
        FTrig::ReaderReceived => Some(p("reader.received")),
        FTrig::ReaderBeforeDeliver => Some(p("reader.before_deliver")),
    };
    env.hb_reset();
    ps_reset();
    let _ = take_last_panic();
    let (cli, mut srv) = match env.connect(FK, true) {
        Ok(x) => x,
        Err(e) => return rep.inconclusive(format!("{} / {ctx}: {e}", FK.name())),
    };
    rep.eval();
    rep.distinct(&("forward-cancel", trig, by_, bystanders));
    let mut calls = Calls::new();
    let Some(mut registered) = fwd_bystanders(env, &cli, &mut srv, &mut calls, bystanders, rng) else {
        return rep.inconclusive(format!("{} / {ctx}: bystanders not registered/seen", FK.name()));
    };
    let mut holder = None;
    if trig == FTrig::LockWait {
        // an ordinary call (next id of the client's own counter) parked while it holds the writer lock
        let zid = bystanders as u64 + 1;
        ps_park((p("write.locked"), zid));
        let ztok = env.token();
        calls.launch(env, &cli, ztok, 5, None);
        if !ps_wait_parked((p("write.locked"), zid), STEP_MAX) {
            ps_release_all();
            return rep.inconclusive(format!("{} / {ctx}: lock holder never reached write.locked", FK.name()));
        }
        holder = Some(zid);
        registered += 1;
    }
    let fid = env.fwd_id();
    if let Some(pt) = point {
        ps_park((pt, fid));
    }
    let xtok = env.token();
    let seen_before_x = srv.reqs.len();
    let x = calls.launch_fwd(env, &cli, fid, xtok, rng.usize_below(24), if rng.coin() { None } else { Some(Duration::from_secs(40)) }, by_ == EndBy::DropFuture);
    let mut x_answered = false;
    let mut reached;
    match trig {
        FTrig::LockWait => {
            // no `registered` probe on the forward path: the registration is observed in the pending table
            let deadline = std::time::Instant::now() + STEP_MAX;
            loop {
                reached = cli.pending_len() == registered + 1;
                if reached || std::time::Instant::now() > deadline {
                    break;
                }
                std::thread::sleep(Duration::from_millis(1));
            }
            // let the task go on to the writer lock it cannot get (coverage only; both sides are legitimate)
            std::thread::sleep(Duration::from_millis(3));
        }
        FTrig::WriteLocked | FTrig::Written => reached = ps_wait_parked((point.unwrap(), fid), STEP_MAX),
        FTrig::Waiting => reached = srv.wait_reqs(seen_before_x + 1, STEP_MAX),
        FTrig::ReaderReceived | FTrig::ReaderBeforeDeliver => {
            reached = srv.wait_reqs(seen_before_x + 1, STEP_MAX);
            if let Some(r) = srv.req_by_token(xtok) {
                srv.answer(&r, false);
                x_answered = true;
            }
            reached &= ps_wait_parked((point.unwrap(), fid), STEP_MAX);
        }
    }
    if !reached {
        ps_release_all();
        return rep.inconclusive(format!("{} / {ctx}: trigger point not reached; trace: {}", FK.name(), ps_trace()));
    }
    let caller_side = matches!(trig, FTrig::WriteLocked | FTrig::Written);
    let release = || {
        if caller_side {
            ps_release((point.unwrap(), fid));
        }
    };
    let how = match by_ {
        EndBy::Abort => calls.abort_and_join(env, x, WINDOW, release),
        EndBy::DropFuture => calls.drop_future_and_wait(x, WINDOW, release),
    };
    st.bump(format!("forward-cancel|{trig:?}|{by_:?}|{}", how.split(':').next().unwrap_or("")));
    match how.as_str() {
        "cancelled" => rep.count(if by_ == EndBy::Abort { "forward_tasks_aborted" } else { "forward_futures_dropped" }, 1),
        "completed" => {}
        "join-timeout" => {
            ps_release_all();
            let gap = env.hb.max_gap_ms();
            env.hangs_left -= 1;
            if gap > 1000 {
                rep.inconclusive(format!("cancelled forward did not finish but the machine stalled {gap} ms"));
            } else {
                rep.violation(format!("C06:cancel-hang:{}:{ctx}", FK.name()), format!("a cancelled forward was still alive {} s after the cancellation; trace: {}", WINDOW.as_secs(), ps_trace()), replay.clone());
            }
            return;
        }
        other => {
            rep.violation(format!("C06:panic:{}:{ctx}:task", FK.name()), format!("the cancelled forward task ended with {other}; last panic {:?}", take_last_panic()), replay.clone());
        }
    }
    // residue, before the parked reader goes on and before any late response
    if how == "cancelled" {
        check_residue(rep, &cli, registered, FK, &format!("forward:{ctx}:after-cancel"), &replay);
    }
    if let (Some(pt), false) = (point, caller_side) {
        ps_release((pt, fid));
    }
    if let Some(zid) = holder {
        ps_release((p("write.locked"), zid));
    }
    if how == "completed" {
        judge(rep, st, &calls, &[x], &srv, FK, &ctx, false, &replay);
    }
    let f = FwdCase { ctx: &ctx, replay: &replay, x, fid, xtok, x_answered, x_written_expected: trig != FTrig::LockWait };
    fwd_aftermath(env, rep, st, &cli, &mut srv, &mut calls, rng, &f);
    if case < 2 {
        rep.sample(json!({"forward_cancel": replay, "end": how, "trace": ps_trace()}));
    }
}

pub fn run_fwd_cancels(env: &mut Env, rep: &mut Report, st: &mut Stats, rng: &mut Rng, args: &Args) {
    let rounds = args.budget(4, 20);
    let mut case = 0u64;
    for round in 0..rounds {
        for trig in FTRIGS {
            for by_ in [EndBy::Abort, EndBy::DropFuture] {
                for by in [0usize, 2] {
                    if env.stop() {
                        rep.count("forward_scenarios_not_run_wall_cap", 1);
                        continue;
                    }
                    let by = if round > 0 && by > 0 { 1 + rng.usize_below(6) } else { by };
                    let mut r = rng.fork(0xFCA9_0000 + case);
                    let ts = std::time::Instant::now();
                    run_fwd_cancel(env, rep, st, trig, by_, by, &mut r, case);
                    st.timed(format!("forward-cancel {trig:?} {by_:?} by={by}"), ts);
                    case += 1;
                }
            }
        }
    }
}

#[allow(dead_code)]
fn _unused(_: Value) {}
