// C04 family `trickle`: the server's answers arrive SPREAD OVER TIME.
//
// Every other family lets the fake server put a response frame on the wire in one piece (or in pieces that follow
// each other within microseconds), so the client's reader always finds a frame complete the moment it starts reading
// it. "For every order in which the server answers" says nothing about how fast the bytes of an answer arrive: a slow
// producer, a congested link, a big body or a server stalled half way through a frame deliver ONE response frame in
// several pieces with pauses between them. A reader that forgets what it has already taken off the stream when
// something else happens during such a pause (a periodic timer, a housekeeping branch of a `select!`, a per-read
// timeout that restarts the frame) resumes in the MIDDLE of the frame: it fails every call in flight although the
// server answered, or, when the rest of the body happens to look like a frame, hands another call bytes that the
// server sent INSIDE this call's body.
//
// One case = one fresh connection with its own fake server thread (all cases of a round run IN PARALLEL, so their
// pauses overlap; the family costs about the longest single case):
//
// 1. 3..7 calls are put in flight from clones of one client (`call_json`, `call_json_with_timeout`,
//    `call_with_formats`, `call_with_formats_and_timeout`; blocking `Client`, `AsyncClient`, `WebSocketClient`); none
//    of the timeouts handed to the API is shorter than 30 s and the blocking client has no read timeout, so no pause
//    of the server entitles the client to give up.
// 2. The fake server collects the requests and answers them in a seeded permuted order. Each response frame is cut at
//    seeded points: inside the 48-byte header, at the header/query boundary, inside the query, at the query/body
//    boundary, inside the body, one byte before the end; the pieces are written with pauses from a spread that covers
//    common timer periods: 1..8 ms, 40..60, 90..120, 240..270, 500..600, 1000..1100 and 1150..1400 ms. Every case has
//    a profile that plants one frame with a long stall (a single pause above 1.1 s; two pauses of 560..600 ms; one of
//    1000..1100; one of 500..600; five of 240..270), the rest is random within a budget of 6.5 s per connection.
//    Pieces do not respect frame boundaries: the tail of one frame and the head of the next may share a write.
//    WebSocket: the binary message is sent as several continuation FRAGMENTS (FIN = 0, opcode 0 afterwards) with
//    the pauses between the fragments, sometimes with a ping between two fragments, and additionally cut at the TCP
//    level inside a fragment's payload or inside a fragment header. The fragments are encoded by hand (server
//    frames are unmasked); tungstenite is used for the handshake and for reading the requests only.
// 3. "Frame inside the body": the response to a raw-body call (`call_with_formats*` returns the whole message) may
//    carry, right after a cut point, the byte image of one or two well-formed REPE RESPONSE frames whose ids are those
//    of OTHER calls still in flight (their real responses come later in the order); as the tail of the body (the
//    stream is in step again afterwards) or in its middle.
// 4. When every call has returned, after an idle pause, one or two further calls on the same connection are answered
//    in one piece.
//
// Oracle (offline, `judge_trickle`), unchanged in spirit: a call returns exactly the response the server sent for
// its id: the JSON value, or header id / notify / ec / formats, query and body bytes for the message APIs. A call that
// returns anything else is a violation (classified: bytes from inside another response's body, another call's
// response, something else). A call that returns an error although its response frame was COMPLETELY written and the
// fake server had neither closed the connection nor failed to write before the call returned is a violation: the
// peer never broke the connection, so the client failed the call on its own. Nothing is decided on time: a call that
// has not returned 12 s after the last byte was written is inconclusive (and counted), as is every setup problem.

use super::*;
use tokio_tungstenite::tungstenite as tung;

/// upper bound of the pauses of one connection (all responses plus the idle pause before the later calls)
const T_BUDGET_MS: u64 = 6500;
const T_PAR_PER_KIND: usize = 14;

#[derive(Clone, Copy, PartialEq, Eq, Hash, Debug)]
pub(super) enum TApi {
    Json,
    JsonT,
    /// call_with_formats_and_timeout: returns the whole message
    Msg,
    /// call_with_formats (no timeout)
    MsgNoT,
}

impl TApi {
    fn raw(self) -> bool {
        matches!(self, TApi::Msg | TApi::MsgNoT)
    }
}

#[derive(Clone, Copy, PartialEq, Eq, Hash, Debug)]
enum CutAt {
    InHeader,
    HeaderEnd,
    InQuery,
    QueryEnd,
    InBody,
    BeforeEmbedded,
    InEmbedded,
    LastByte,
    /// WebSocket only: one byte into the header of a continuation fragment
    WsFragmentHeader,
    /// between two response frames (not inside a frame)
    BetweenFrames,
}

impl CutAt {
    fn name(self) -> &'static str {
        match self {
            CutAt::InHeader => "inside_header",
            CutAt::HeaderEnd => "at_header_end",
            CutAt::InQuery => "inside_query",
            CutAt::QueryEnd => "at_query_body_boundary",
            CutAt::InBody => "inside_body",
            CutAt::BeforeEmbedded => "right_before_embedded_frame",
            CutAt::InEmbedded => "inside_embedded_frame",
            CutAt::LastByte => "before_last_byte",
            CutAt::WsFragmentHeader => "inside_ws_fragment_header",
            CutAt::BetweenFrames => "between_frames",
        }
    }
}

fn pause_class(ms: u64) -> &'static str {
    match ms {
        0..=10 => "up_to_10ms",
        11..=75 => "about_50ms",
        76..=180 => "about_100ms",
        181..=400 => "about_250ms",
        401..=800 => "500_to_600ms",
        801..=1100 => "1000_to_1100ms",
        _ => "above_1100ms",
    }
}

#[derive(Clone, Debug)]
pub(super) struct TPlan {
    index: u64,
    kind: Kind,
    n: usize,
    apis: Vec<TApi>,
    /// which long stall is planted (see the head of the file)
    profile: u8,
    salt: u64,
}

#[derive(Clone, Debug)]
pub(super) enum TRes {
    Val(Value),
    Msg { id: u64, notify: u8, ec: u32, qf: u16, bf: u16, query: Vec<u8>, body: Vec<u8> },
    Err(ErrInfo),
}

#[derive(Clone, Debug)]
struct TCut {
    at: CutAt,
    pause_ms: u64,
    /// WebSocket: the cut is a fragment boundary (otherwise a TCP-level cut)
    fragment: bool,
}

#[derive(Clone, Debug)]
struct TFrame {
    slot: usize,
    id: u64,
    bf: u16,
    query: Vec<u8>,
    body: Vec<u8>,
    json: Option<Value>,
    /// (victim slot, offset in the body, length)
    embedded: Vec<(usize, usize, usize)>,
    embedded_is_tail: bool,
    cuts: Vec<TCut>,
    /// offset in the connection's wire stream right after the last byte of this frame
    end_off: usize,
    stall_ms: u64,
    ws_fragments: usize,
    ws_pings: usize,
}

#[derive(Clone, Debug)]
struct TLater {
    tok: String,
    id: Option<u64>,
    json: Option<Value>,
    written: bool,
    out: Option<(TRes, bool)>,
}

pub(super) struct THist {
    plan: TPlan,
    tokens: Vec<String>,
    setup_err: Option<String>,
    trouble: Option<String>,
    /// request id per slot
    ids: Vec<Option<u64>>,
    dup_ids: Vec<(u64, usize)>,
    order: Vec<usize>,
    frames: Vec<TFrame>,
    wire_len: usize,
    written_upto: usize,
    pieces: u64,
    write_err: Option<String>,
    outs: Vec<Option<(TRes, bool)>>,
    window_expired: bool,
    idle_ms: u64,
    later: Vec<TLater>,
    later_skipped: bool,
    ms: u64,
}

pub(super) enum TPeer {
    Tcp { s: std::net::TcpStream, buf: Vec<u8> },
    Ws { ws: Box<tung::WebSocket<std::net::TcpStream>> },
}

impl TPeer {
    pub(super) fn stream(&mut self) -> &mut std::net::TcpStream {
        match self {
            TPeer::Tcp { s, .. } => s,
            TPeer::Ws { ws } => ws.get_mut(),
        }
    }

    /// Next request frame of the client, parsed by the independent codec. Ok(None): nothing inside the bound.
    pub(super) fn recv(&mut self, deadline: Instant) -> Result<Option<oracle::Frame>, String> {
        match self {
            TPeer::Tcp { s, buf } => loop {
                if buf.len() >= oracle::HDR {
                    let h = SpecHeader::decode(buf);
                    if !h.consistent() {
                        return Err(format!("request stream is not a REPE frame at a frame boundary: {h:?}"));
                    }
                    if let Some((h, ql, bl)) = oracle::valid_parse(buf, false) {
                        let total = oracle::HDR + ql + bl;
                        let f = oracle::Frame { header: h, query: buf[oracle::HDR..oracle::HDR + ql].to_vec(), body: buf[oracle::HDR + ql..total].to_vec(), at: 0 };
                        buf.drain(..total);
                        return Ok(Some(f));
                    }
                }
                let mut tmp = [0u8; 8192];
                match s.read(&mut tmp) {
                    Ok(0) => return Err("client closed the connection".into()),
                    Ok(k) => buf.extend_from_slice(&tmp[..k]),
                    Err(e) if matches!(e.kind(), std::io::ErrorKind::WouldBlock | std::io::ErrorKind::TimedOut | std::io::ErrorKind::Interrupted) => {
                        if Instant::now() >= deadline {
                            return Ok(None);
                        }
                    }
                    Err(e) => return Err(format!("server read: {e}")),
                }
            },
            TPeer::Ws { ws } => loop {
                // the client's socket may have Nagle on: do not sit on the acknowledgement of its previous small frame
                quickack(ws.get_ref().as_raw_fd());
                match ws.read() {
                    Ok(tung::Message::Binary(b)) => {
                        return match oracle::valid_parse(&b, true) {
                            Some((h, ql, bl)) => Ok(Some(oracle::Frame { header: h, query: b[oracle::HDR..oracle::HDR + ql].to_vec(), body: b[oracle::HDR + ql..oracle::HDR + ql + bl].to_vec(), at: 0 })),
                            None => Err("websocket binary message is not exactly one REPE frame".into()),
                        };
                    }
                    Ok(tung::Message::Ping(_) | tung::Message::Pong(_)) => continue,
                    Ok(other) => return Err(format!("unexpected websocket message from the client: {other:?}")),
                    Err(tung::Error::Io(e)) if matches!(e.kind(), std::io::ErrorKind::WouldBlock | std::io::ErrorKind::TimedOut | std::io::ErrorKind::Interrupted) => {
                        if Instant::now() >= deadline {
                            return Ok(None);
                        }
                    }
                    Err(e) => return Err(format!("server ws read: {e}")),
                }
            },
        }
    }

    pub(super) fn close(&mut self) {
        let _ = self.stream().shutdown(std::net::Shutdown::Both);
    }
}

pub(super) enum TCli {
    B(Client),
    A(AsyncClient),
    W(WebSocketClient),
}

fn accept_bounded(l: &std::net::TcpListener, dur: Duration) -> Result<std::net::TcpStream, String> {
    l.set_nonblocking(true).map_err(|e| format!("listener: {e}"))?;
    let until = Instant::now() + dur;
    loop {
        match l.accept() {
            Ok((s, _)) => {
                s.set_nonblocking(false).map_err(|e| format!("accepted socket: {e}"))?;
                return Ok(s);
            }
            Err(e) if e.kind() == std::io::ErrorKind::WouldBlock => {
                if Instant::now() >= until {
                    return Err("nobody connected to the fake server".into());
                }
                std::thread::sleep(Duration::from_millis(2));
            }
            Err(e) => return Err(format!("accept: {e}")),
        }
    }
}

fn t_connect_once(rt: &Runtime, kind: Kind) -> Result<(TCli, TPeer), String> {
    let l = bind_loopback()?;
    let addr = l.local_addr().map_err(|e| e.to_string())?;
    match kind {
        Kind::B | Kind::A => {
            let cli = if kind == Kind::B {
                TCli::B(Client::connect(addr).map_err(|e| format!("Client::connect: {e}"))?)
            } else {
                TCli::A(rt.block_on(async { tokio::time::timeout(Duration::from_secs(10), AsyncClient::connect(addr)).await }).map_err(|_| "AsyncClient::connect timed out".to_string())?.map_err(|e| format!("AsyncClient::connect: {e}"))?)
            };
            let s = accept_bounded(&l, Duration::from_secs(10))?;
            s.set_nodelay(true).ok();
            s.set_read_timeout(Some(Duration::from_millis(25))).ok();
            s.set_write_timeout(Some(Duration::from_secs(10))).ok();
            Ok((cli, TPeer::Tcp { s, buf: Vec::new() }))
        }
        Kind::W => {
            let url = format!("ws://{addr}");
            let con = rt.spawn(async move { tokio::time::timeout(Duration::from_secs(10), WebSocketClient::connect(&url)).await });
            let s = accept_bounded(&l, Duration::from_secs(10))?;
            s.set_nodelay(true).ok();
            s.set_read_timeout(Some(Duration::from_secs(10))).ok();
            s.set_write_timeout(Some(Duration::from_secs(10))).ok();
            let ws = tung::accept(s).map_err(|e| format!("websocket handshake (server side): {e}"))?;
            ws.get_ref().set_read_timeout(Some(Duration::from_millis(25))).ok();
            let cli = rt
                .block_on(async { tokio::time::timeout(Duration::from_secs(12), con).await })
                .map_err(|_| "WebSocketClient::connect did not finish".to_string())?
                .map_err(|e| format!("connect task: {e}"))?
                .map_err(|_| "WebSocketClient::connect timed out".to_string())?
                .map_err(|e| format!("WebSocketClient::connect: {e}"))?;
            Ok((TCli::W(cli), TPeer::Ws { ws: Box::new(ws) }))
        }
    }
}

pub(super) fn t_connect(rt: &Runtime, kind: Kind) -> Result<(TCli, TPeer), String> {
    let mut last = String::new();
    for attempt in 0..12 {
        match t_connect_once(rt, kind) {
            Ok(x) => return Ok(x),
            Err(e) => last = e,
        }
        CONNECT_RETRIES.fetch_add(1, Ordering::Relaxed);
        std::thread::sleep(Duration::from_millis(100 + 30 * attempt));
    }
    Err(last)
}

pub(super) fn t_val(r: Result<Value, RepeError>) -> TRes {
    match r {
        Ok(v) => TRes::Val(v),
        Err(e) => TRes::Err(err_info(&e)),
    }
}

pub(super) fn t_msg(r: Result<repe::Message, RepeError>) -> TRes {
    match r {
        Ok(m) => TRes::Msg { id: m.header.id, notify: m.header.notify, ec: m.header.ec, qf: m.header.query_format, bf: m.header.body_format, query: m.query, body: m.body },
        Err(e) => TRes::Err(err_info(&e)),
    }
}

/// Start one call; its result travels through `tx` tagged with `tag`.
pub(super) fn t_issue(rt: &Runtime, cli: &TCli, tag: usize, api: TApi, path: String, body: Value, tx: mpsc::Sender<(usize, TRes)>) {
    match cli {
        TCli::B(c) => {
            let c = c.clone();
            let spawned = std::thread::Builder::new().name("c04-trickle-caller".into()).spawn(move || {
                let r = catching(|| match api {
                    TApi::Json => t_val(c.call_json(&path, &body)),
                    TApi::JsonT => t_val(c.call_json_with_timeout(&path, &body, API_TIMEOUT)),
                    TApi::Msg => {
                        let bytes = serde_json::to_vec(&body).unwrap();
                        t_msg(c.call_with_formats_and_timeout(&path, 1, Some(&bytes), 2, API_TIMEOUT))
                    }
                    TApi::MsgNoT => {
                        let bytes = serde_json::to_vec(&body).unwrap();
                        t_msg(c.call_with_formats(&path, 1, Some(&bytes), 2))
                    }
                })
                .unwrap_or_else(|p| TRes::Err(ErrInfo { class: format!("panic.{}", panic_site(&p)), text: trunc(&p, 200), mismatch: None }));
                drop(c);
                let _ = tx.send((tag, r));
            });
            let _ = spawned;
        }
        TCli::A(c) => {
            let c = c.clone();
            rt.spawn(async move {
                let r = match api {
                    TApi::Json => t_val(c.call_json(&path, &body).await),
                    TApi::JsonT => t_val(c.call_json_with_timeout(&path, &body, API_TIMEOUT).await),
                    TApi::Msg => {
                        let bytes = serde_json::to_vec(&body).unwrap();
                        t_msg(c.call_with_formats_and_timeout(&path, 1, Some(&bytes), 2, API_TIMEOUT).await)
                    }
                    TApi::MsgNoT => {
                        let bytes = serde_json::to_vec(&body).unwrap();
                        t_msg(c.call_with_formats(&path, 1, Some(&bytes), 2).await)
                    }
                };
                drop(c);
                let _ = tx.send((tag, r));
            });
        }
        TCli::W(c) => {
            let c = c.clone();
            rt.spawn(async move {
                let r = match api {
                    TApi::Json => t_val(c.call_json(&path, &body).await),
                    TApi::JsonT => t_val(c.call_json_with_timeout(&path, &body, API_TIMEOUT).await),
                    TApi::Msg => {
                        let bytes = serde_json::to_vec(&body).unwrap();
                        t_msg(c.call_with_formats_and_timeout(&path, 1, Some(&bytes), 2, API_TIMEOUT).await)
                    }
                    TApi::MsgNoT => {
                        let bytes = serde_json::to_vec(&body).unwrap();
                        t_msg(c.call_with_formats(&path, 1, Some(&bytes), 2).await)
                    }
                };
                drop(c);
                let _ = tx.send((tag, r));
            });
        }
    }
}

pub(super) fn make_plan(index: u64, kind: Kind, ordinal: usize, rng: &mut Rng) -> TPlan {
    let n = 3 + rng.usize_below(5);
    let mut apis: Vec<TApi> = (0..n).map(|_| *rng.pick(&[TApi::Json, TApi::JsonT, TApi::Msg, TApi::MsgNoT, TApi::Msg])).collect();
    // at least one call that returns the whole message (the only kind of response that can carry arbitrary bytes)
    if !apis.iter().any(|a| a.raw()) {
        let i = rng.usize_below(n);
        apis[i] = if rng.coin() { TApi::Msg } else { TApi::MsgNoT };
    }
    TPlan { index, kind, n, apis, profile: (ordinal % 6) as u8, salt: rng.next_u64() }
}

fn draw_pause(rng: &mut Rng) -> u64 {
    match rng.below(100) {
        0..=29 => rng.range(1, 8),
        30..=44 => rng.range(40, 60),
        45..=59 => rng.range(90, 120),
        60..=74 => rng.range(240, 270),
        75..=86 => rng.range(500, 600),
        87..=94 => rng.range(1000, 1100),
        _ => rng.range(1150, 1400),
    }
}

/// One cut of a REPE frame before it is put on the wire: (offset inside the frame, pause, class, pause is mandatory)
type RawCut = (usize, u64, CutAt, bool);

/// Seeded cut points of one response frame (offsets strictly inside the frame).
fn draw_cuts(rng: &mut Rng, qlen: usize, blen: usize, embedded: &[(usize, usize, usize)]) -> Vec<RawCut> {
    let total = oracle::HDR + qlen + blen;
    let body0 = oracle::HDR + qlen;
    let mut cuts: Vec<RawCut> = vec![];
    let k = 1 + rng.usize_below(4);
    for _ in 0..k {
        let c = match rng.below(9) {
            0 | 1 => Some((1 + rng.usize_below(oracle::HDR - 1), CutAt::InHeader)),
            2 => Some((oracle::HDR, CutAt::HeaderEnd)),
            3 if qlen >= 2 => Some((oracle::HDR + 1 + rng.usize_below(qlen - 1), CutAt::InQuery)),
            4 if qlen >= 1 && blen >= 1 => Some((body0, CutAt::QueryEnd)),
            5 | 6 if blen >= 2 => Some((body0 + 1 + rng.usize_below(blen - 1), CutAt::InBody)),
            7 => Some((total - 1, CutAt::LastByte)),
            _ => embedded.first().filter(|e| e.2 >= 2).map(|e| (body0 + e.1 + 1 + rng.usize_below(e.2 - 1), CutAt::InEmbedded)),
        };
        if let Some((off, at)) = c {
            if off > 0 && off < total {
                cuts.push((off, draw_pause(rng), at, false));
            }
        }
    }
    if let Some(e) = embedded.first() {
        // the frame inside the body starts right after a cut point
        let p = if rng.chance(7, 10) {
            match rng.below(4) {
                0 => rng.range(240, 270),
                1 | 2 => rng.range(500, 600),
                _ => rng.range(1000, 1100),
            }
        } else {
            draw_pause(rng)
        };
        cuts.push((body0 + e.1, p, CutAt::BeforeEmbedded, false));
    }
    cuts.sort_by_key(|c| (c.0, c.2 != CutAt::BeforeEmbedded));
    cuts.dedup_by_key(|c| c.0);
    // an offset inside the embedded image is classified as such whatever drew it
    for c in cuts.iter_mut() {
        if c.2 == CutAt::InBody {
            if embedded.iter().any(|e| c.0 > body0 + e.1 && c.0 < body0 + e.1 + e.2) {
                c.2 = CutAt::InEmbedded;
            }
        }
    }
    cuts
}

/// Plant the profile's long stall into the designated frame (more cuts are added when the profile needs them).
fn plant_profile(rng: &mut Rng, profile: u8, cuts: &mut Vec<RawCut>, qlen: usize, blen: usize) {
    let total = oracle::HDR + qlen + blen;
    let want: Vec<u64> = match profile {
        0 => vec![rng.range(1150, 1400)],
        1 => vec![rng.range(560, 600), rng.range(560, 600)],
        2 => vec![rng.range(1000, 1100)],
        3 => vec![rng.range(500, 600)],
        4 => (0..5).map(|_| rng.range(240, 270)).collect(),
        _ => vec![],
    };
    // more cut points when there are fewer than the profile has pauses
    let mut guard = 0;
    while cuts.len() < want.len() && guard < 200 {
        guard += 1;
        let off = 1 + rng.usize_below(total - 1);
        if cuts.iter().all(|c| c.0 != off) {
            let at = if off < oracle::HDR {
                CutAt::InHeader
            } else if off == oracle::HDR {
                CutAt::HeaderEnd
            } else if off < oracle::HDR + qlen {
                CutAt::InQuery
            } else if off == oracle::HDR + qlen {
                CutAt::QueryEnd
            } else {
                CutAt::InBody
            };
            cuts.push((off, 1, at, false));
        }
    }
    cuts.sort_by_key(|c| c.0);
    // the cut right before an embedded frame takes the first (longest) planted pause, the others are spread
    let mut idx: Vec<usize> = (0..cuts.len()).collect();
    rng.shuffle(&mut idx);
    if let Some(p) = cuts.iter().position(|c| c.2 == CutAt::BeforeEmbedded) {
        idx.retain(|i| *i != p);
        idx.insert(0, p);
    }
    for (w, i) in want.iter().zip(idx.iter()) {
        cuts[*i].1 = *w;
        cuts[*i].3 = true;
    }
}

pub(super) fn ws_header(fin: bool, opcode: u8, len: usize) -> Vec<u8> {
    let mut h = vec![((fin as u8) << 7) | opcode];
    if len < 126 {
        h.push(len as u8);
    } else if len < 65536 {
        h.push(126);
        h.extend_from_slice(&(len as u16).to_be_bytes());
    } else {
        h.push(127);
        h.extend_from_slice(&(len as u64).to_be_bytes());
    }
    h
}

/// (offset in the wire bytes of the frame, pause, class, is a WebSocket fragment boundary)
type WireCut = (usize, u64, CutAt, bool);

/// The bytes one response frame occupies on the wire and where they are cut. TCP: the frame itself. WebSocket: one
/// binary message, as a rule split into continuation fragments at the cut points.
fn to_wire(rng: &mut Rng, kind: Kind, repe: &[u8], cuts: &[RawCut]) -> (Vec<u8>, Vec<WireCut>, usize, usize) {
    if kind != Kind::W {
        return (repe.to_vec(), cuts.iter().map(|c| (c.0, c.1, c.2, false)).collect(), 0, 0);
    }
    fn emit(wire: &mut Vec<u8>, wcuts: &mut Vec<WireCut>, payload: &[u8], fin: bool, first: bool, pend: &mut Vec<(usize, u64, CutAt)>) {
        let hdr = ws_header(fin, if first { 2 } else { 0 }, payload.len());
        let base = wire.len() + hdr.len();
        wire.extend_from_slice(&hdr);
        for (poff, pause, at) in pend.drain(..) {
            wcuts.push((base + poff, pause, at, false));
        }
        wire.extend_from_slice(payload);
    }
    let (mut wire, mut wcuts): (Vec<u8>, Vec<WireCut>) = (vec![], vec![]);
    let (mut frag_start, mut first, mut fragments, mut pings) = (0usize, true, 0usize, 0usize);
    let mut pend: Vec<(usize, u64, CutAt)> = vec![];
    for (off, pause, at, _) in cuts {
        if rng.chance(3, 4) {
            emit(&mut wire, &mut wcuts, &repe[frag_start..*off], false, first, &mut pend);
            fragments += 1;
            first = false;
            frag_start = *off;
            wcuts.push((wire.len(), *pause, *at, true));
            if rng.chance(1, 6) {
                // a control frame between two fragments of one message (RFC 6455 5.4)
                wire.extend_from_slice(&ws_header(true, 0x9, 3));
                wire.extend_from_slice(b"c04");
                pings += 1;
            }
            if rng.chance(1, 5) {
                wcuts.push((wire.len() + 1, rng.range(1, 8), CutAt::WsFragmentHeader, false));
            }
        } else {
            pend.push((*off - frag_start, *pause, *at));
        }
    }
    emit(&mut wire, &mut wcuts, &repe[frag_start..], true, first, &mut pend);
    fragments += 1;
    (wire, wcuts, fragments, pings)
}

pub(super) fn kind_char(k: Kind) -> char {
    match k {
        Kind::B => 'b',
        Kind::A => 'a',
        Kind::W => 'w',
    }
}

/// Results that are in by `until` (or as soon as `want` slots have one).
pub(super) fn t_collect(rx: &mpsc::Receiver<(usize, TRes)>, outs: &mut [Option<(TRes, bool)>], base: usize, until: Instant, late: bool) {
    while outs.iter().any(|o| o.is_none()) {
        let now = Instant::now();
        if now >= until {
            break;
        }
        match rx.recv_timeout((until - now).min(Duration::from_millis(200))) {
            Ok((tag, r)) => {
                if tag >= base && tag - base < outs.len() && outs[tag - base].is_none() {
                    outs[tag - base] = Some((r, late));
                }
            }
            Err(mpsc::RecvTimeoutError::Timeout) => {}
            Err(_) => break,
        }
    }
}

/// One connection, start to end. Every wait is bounded.
fn run_conn(rt: &Runtime, seed: u64, p: &TPlan) -> THist {
    let t0 = Instant::now();
    let mut rng = Rng::new(seed ^ p.salt.rotate_left(21) ^ 0x0C04_7121_C1E);
    let kc = kind_char(p.kind);
    let tokens: Vec<String> = (0..p.n).map(|i| format!("t{kc}{}-{}-{:x}", p.index, i, mix(seed ^ p.salt ^ ((i as u64) << 40)) & 0xffff_ffff)).collect();
    let mut h = THist {
        plan: p.clone(),
        tokens: tokens.clone(),
        setup_err: None,
        trouble: None,
        ids: vec![None; p.n],
        dup_ids: vec![],
        order: vec![],
        frames: vec![],
        wire_len: 0,
        written_upto: 0,
        pieces: 0,
        write_err: None,
        outs: vec![None; p.n],
        window_expired: false,
        idle_ms: 0,
        later: vec![],
        later_skipped: false,
        ms: 0,
    };
    let (cli, mut peer) = match t_connect(rt, p.kind) {
        Ok(x) => x,
        Err(e) => {
            h.setup_err = Some(e);
            return h;
        }
    };
    let (tx, rx) = mpsc::channel::<(usize, TRes)>();
    let r = (|| -> Result<(), String> {
        // 1. the calls, issued in a seeded order
        let mut issue_order: Vec<usize> = (0..p.n).collect();
        rng.shuffle(&mut issue_order);
        for i in issue_order {
            t_issue(rt, &cli, i, p.apis[i], format!("/c04/t{i}"), json!({"tok": tokens[i], "slot": i}), tx.clone());
        }
        // 2. all of them in flight
        let mut queries: Vec<Vec<u8>> = vec![vec![]; p.n];
        let mut seen: HashSet<u64> = HashSet::new();
        let deadline = Instant::now() + REQ_WINDOW;
        while h.ids.iter().any(|x| x.is_none()) {
            let Some(f) = peer.recv(deadline)? else {
                return Err(format!("only {} of {} requests reached the fake server inside {} s", h.ids.iter().flatten().count(), p.n, REQ_WINDOW.as_secs()));
            };
            let parsed: Option<(usize, String)> = serde_json::from_slice::<Value>(&f.body).ok().and_then(|v| Some((v.get("slot")?.as_u64()? as usize, v.get("tok")?.as_str()?.to_string())));
            match parsed {
                Some((slot, tok)) if slot < p.n && tokens[slot] == tok && h.ids[slot].is_none() && f.header.notify == 0 => {
                    if !seen.insert(f.header.id) {
                        h.dup_ids.push((f.header.id, slot));
                    }
                    h.ids[slot] = Some(f.header.id);
                    queries[slot] = f.query.clone();
                }
                _ => return Err(format!("a request that does not belong to this case reached the fake server: id {} query {:?}", f.header.id, String::from_utf8_lossy(&f.query))),
            }
        }
        if !h.dup_ids.is_empty() {
            return Ok(()); // two calls in flight under one id: the judge reports it, the rest would be ambiguous
        }
        let ids: Vec<u64> = h.ids.iter().map(|x| x.unwrap_or(0)).collect();
        let id_of = |s: usize| ids[s];

        // 3. the answers: a permuted order, bodies (some with frames for ids answered LATER inside them), cuts, pauses
        let mut order: Vec<usize> = (0..p.n).collect();
        rng.shuffle(&mut order);
        // make sure a raw-body call is answered before at least one other call
        if !order[..p.n - 1].iter().any(|s| p.apis[*s].raw()) {
            let last = order[p.n - 1];
            let at = rng.usize_below(p.n - 1);
            order.retain(|s| *s != last);
            order.insert(at, last);
        }
        h.order = order.clone();
        let mut raw: Vec<(TFrame, Vec<u8>, Vec<RawCut>)> = vec![];
        let mut designated: Option<usize> = None;
        for (pos, &slot) in order.iter().enumerate() {
            let id = id_of(slot);
            let later: Vec<usize> = order[pos + 1..].to_vec();
            let carrier = p.apis[slot].raw() && !later.is_empty() && rng.chance(3, 4);
            let (bf, body, json_body, embedded, tail) = if carrier {
                let mut body: Vec<u8> = format!("C04-BLOB {} ", tokens[slot]).into_bytes();
                let fill = rng.usize_below(200);
                body.extend_from_slice(&rng.bytes(fill));
                let mut victims = later.clone();
                rng.shuffle(&mut victims);
                victims.truncate(if victims.len() >= 2 && rng.chance(1, 4) { 2 } else { 1 });
                let mut embedded = vec![];
                for v in victims {
                    let vid = id_of(v);
                    let decoy = mk_frame(vid, false, &queries[v], &json!({"id": vid, "tok": format!("decoy-{}-in-{}-for-{}", p.index, slot, v), "k": "decoy"}));
                    embedded.push((v, body.len(), decoy.len()));
                    body.extend_from_slice(&decoy);
                }
                let tail = rng.chance(3, 5);
                if !tail {
                    let fill = 1 + rng.usize_below(120);
                    body.extend_from_slice(&rng.bytes(fill));
                }
                (0u16, body, None, embedded, tail)
            } else if p.apis[slot].raw() && rng.coin() {
                let mut body: Vec<u8> = format!("C04-BLOB {} ", tokens[slot]).into_bytes();
                let fill = rng.usize_below(300);
                body.extend_from_slice(&rng.bytes(fill));
                (0u16, body, None, vec![], false)
            } else {
                let pad = if rng.coin() { rng.usize_below(40) } else { 100 + rng.usize_below(300) };
                let v = json!({"id": id, "tok": tokens[slot], "k": "resp", "pad": "p".repeat(pad)});
                (2u16, serde_json::to_vec(&v).unwrap(), Some(v), vec![], false)
            };
            let hd = SpecHeader { spec: oracle::SPEC, version: 1, notify: 0, id, query_format: 1, body_format: bf, ec: 0, ..Default::default() };
            let repe = oracle::frame(hd, &queries[slot], &body);
            let cuts = draw_cuts(&mut rng, queries[slot].len(), body.len(), &embedded);
            if designated.is_none() && !embedded.is_empty() {
                designated = Some(pos);
            }
            raw.push((TFrame { slot, id, bf, query: queries[slot].clone(), body, json: json_body, embedded, embedded_is_tail: tail, cuts: vec![], end_off: 0, stall_ms: 0, ws_fragments: 0, ws_pings: 0 }, repe, cuts));
        }
        let designated = designated.unwrap_or(0);
        {
            let (f, _, cuts) = &mut raw[designated];
            plant_profile(&mut rng, p.profile, cuts, f.query.len(), f.body.len());
        }
        // the budget: planted pauses first, the others as long as there is room
        let idle_ms = rng.range(0, 700);
        let mut spent: u64 = idle_ms + raw.iter().flat_map(|r| r.2.iter()).filter(|c| c.3).map(|c| c.1).sum::<u64>();
        for (_, _, cuts) in raw.iter_mut() {
            for c in cuts.iter_mut().filter(|c| !c.3) {
                if spent + c.1 > T_BUDGET_MS {
                    c.1 = 1 + c.1 % 8;
                }
                spent += c.1;
            }
        }
        h.idle_ms = idle_ms;
        // the wire: pieces do not respect frame boundaries
        let mut wire: Vec<u8> = vec![];
        let mut gcuts: Vec<(usize, u64)> = vec![];
        let nframes = raw.len();
        for (i, (mut f, repe, cuts)) in raw.into_iter().enumerate() {
            let (w, wcuts, fragments, pings) = to_wire(&mut rng, p.kind, &repe, &cuts);
            let base = wire.len();
            for (off, pause, at, fragment) in &wcuts {
                gcuts.push((base + off, *pause));
                f.cuts.push(TCut { at: *at, pause_ms: *pause, fragment: *fragment });
            }
            f.stall_ms = wcuts.iter().map(|c| c.1).sum();
            f.ws_fragments = fragments;
            f.ws_pings = pings;
            wire.extend_from_slice(&w);
            f.end_off = wire.len();
            if i + 1 < nframes && rng.coin() {
                gcuts.push((wire.len(), rng.range(0, 20)));
            }
            h.frames.push(f);
        }
        h.wire_len = wire.len();

        // 4. trickle
        let mut at = 0usize;
        gcuts.push((wire.len(), 0));
        for (off, pause) in gcuts {
            if off > at {
                if let Err(e) = peer.stream().write_all(&wire[at..off]) {
                    h.write_err = Some(format!("after {at} of {} bytes: {e}", wire.len()));
                    break;
                }
                at = off;
                h.written_upto = at;
                h.pieces += 1;
            }
            if pause > 0 && at < wire.len() {
                std::thread::sleep(Duration::from_millis(pause));
            }
        }

        // 5. the callers
        t_collect(&rx, &mut h.outs, 0, Instant::now() + CALL_WINDOW, false);
        if h.outs.iter().any(|o| o.is_none()) {
            h.window_expired = true;
            return Ok(());
        }
        // 6. later calls on the same connection, answered in one piece each, after an idle pause
        let healthy = h.write_err.is_none() && h.outs.iter().all(|o| !matches!(o, Some((TRes::Err(_), _))));
        if !healthy {
            h.later_skipped = true;
            return Ok(());
        }
        std::thread::sleep(Duration::from_millis(idle_ms));
        let m = 1 + rng.usize_below(2);
        for j in 0..m {
            let tok = format!("t{kc}{}-later{}-{:x}", p.index, j, mix(seed ^ p.salt ^ ((j as u64) << 50)) & 0xffff_ffff);
            t_issue(rt, &cli, 1000 + j, if j == 0 { TApi::Json } else { TApi::JsonT }, format!("/c04/later{j}"), json!({"tok": tok, "slot": 1000 + j}), tx.clone());
            h.later.push(TLater { tok, id: None, json: None, written: false, out: None });
        }
        let deadline = Instant::now() + REQ_WINDOW;
        let mut got: Vec<(usize, u64, Vec<u8>)> = vec![];
        while got.len() < m {
            let Some(f) = peer.recv(deadline)? else {
                return Err(format!("only {} of {m} later requests reached the fake server inside {} s", got.len(), REQ_WINDOW.as_secs()));
            };
            let j = serde_json::from_slice::<Value>(&f.body).ok().and_then(|v| v.get("slot")?.as_u64()).map(|s| s as usize).filter(|s| *s >= 1000 && *s < 1000 + m);
            match j {
                Some(s) => {
                    if !seen.insert(f.header.id) {
                        h.dup_ids.push((f.header.id, s));
                    }
                    h.later[s - 1000].id = Some(f.header.id);
                    got.push((s - 1000, f.header.id, f.query.clone()));
                }
                None => return Err(format!("a request that does not belong to this case reached the fake server: id {}", f.header.id)),
            }
        }
        got.reverse();
        for (j, id, query) in got {
            let v = json!({"id": id, "tok": h.later[j].tok, "k": "resp"});
            let repe = mk_frame(id, false, &query, &v);
            let bytes = if p.kind == Kind::W { [ws_header(true, 2, repe.len()), repe].concat() } else { repe };
            h.later[j].json = Some(v);
            match peer.stream().write_all(&bytes) {
                Ok(()) => h.later[j].written = true,
                Err(e) => {
                    h.write_err = Some(format!("answer to a later call: {e}"));
                    break;
                }
            }
        }
        let mut outs: Vec<Option<(TRes, bool)>> = vec![None; m];
        t_collect(&rx, &mut outs, 1000, Instant::now() + CALL_WINDOW, false);
        if outs.iter().any(|o| o.is_none()) {
            h.window_expired = true;
        }
        for (j, o) in outs.into_iter().enumerate() {
            h.later[j].out = o;
        }
        Ok(())
    })();
    if let Err(e) = r {
        h.trouble = Some(e);
    }
    // release whoever still waits; what comes in now is late
    peer.close();
    if h.outs.iter().any(|o| o.is_none()) {
        t_collect(&rx, &mut h.outs, 0, Instant::now() + Duration::from_secs(6), true);
    }
    {
        let _g = rt.enter();
        drop(cli);
    }
    drop(peer);
    h.ms = t0.elapsed().as_millis() as u64;
    h
}

pub(super) fn show_tres(r: &TRes) -> String {
    match r {
        TRes::Val(v) => format!("Ok({})", trunc(&v.to_string(), 160)),
        TRes::Msg { id, notify, ec, bf, body, .. } => format!("Ok(message id {id} notify {notify} ec {ec} body_format {bf} body[{}] {})", body.len(), hex_trunc(body, 48)),
        TRes::Err(e) => format!("Err({}: {})", e.class, e.text),
    }
}

#[derive(Default)]
struct TVerdict {
    violations: Vec<(String, String)>,
    inconclusive: Vec<String>,
    counts: Vec<(String, u64)>,
    timeouts: u64,
    judged: bool,
}

fn judge_trickle(h: &THist, stall_ms: u64) -> TVerdict {
    let mut v = TVerdict::default();
    let p = &h.plan;
    let k = p.kind.name();
    let sigp = format!("C04:{k}:trickle");
    let mut cnt = |key: String, n: u64| v.counts.push((key, n));
    if let Some(e) = &h.setup_err {
        v.inconclusive.push(format!("trickle #{} ({k}): could not set up the connection: {e}", p.index));
        return v;
    }
    for (id, slot) in &h.dup_ids {
        v.violations.push((format!("C04:{k}:duplicate-request-id"), format!("request id {id} (slot {slot}) had already been used on this connection")));
    }
    if let Some(t) = &h.trouble {
        v.inconclusive.push(format!("trickle #{} ({k}, n={}): harness trouble: {t} (stall {stall_ms} ms)", p.index, p.n));
    }
    if h.frames.is_empty() {
        return v;
    }
    v.judged = true;
    let describe = |f: &TFrame| -> String {
        format!(
            "response to slot {} (id {}, {} bytes on the wire as {} piece(s){}: cut {}; stalled {} ms in all{})",
            f.slot,
            f.id,
            oracle::HDR + f.query.len() + f.body.len(),
            f.cuts.len() + 1,
            if p.kind == Kind::W { format!(", {} WebSocket fragment(s), {} ping(s) between fragments", f.ws_fragments, f.ws_pings) } else { String::new() },
            f.cuts.iter().map(|c| format!("{}{} then {} ms", c.at.name(), if c.fragment { " (fragment boundary)" } else { "" }, c.pause_ms)).collect::<Vec<_>>().join(", "),
            f.stall_ms,
            if f.embedded.is_empty() { String::new() } else { format!("; its body holds the image of response frame(s) for slot(s) {:?} {}", f.embedded.iter().map(|e| e.0).collect::<Vec<_>>(), if f.embedded_is_tail { "as its tail" } else { "in its middle" }) },
        )
    };
    let script = format!(
        "{} calls in flight on one {k} connection (apis {:?}), answered in slot order {:?}; {}; the fake server wrote {} of {} bytes{} and did not close the connection before the calls returned",
        p.n,
        p.apis,
        h.order,
        h.frames.iter().map(describe).collect::<Vec<_>>().join(" | "),
        h.written_upto,
        h.wire_len,
        h.write_err.as_ref().map(|e| format!(" (write error {e})")).unwrap_or_default(),
    );
    let tok_slot: HashMap<&str, usize> = h.tokens.iter().enumerate().map(|(i, t)| (t.as_str(), i)).collect();

    // what the fake server did (evidence)
    cnt(format!("trickle_cases_{k}"), 1);
    cnt("trickle_calls_in_flight".into(), p.n as u64);
    cnt("trickle_pieces_written".into(), h.pieces);
    cnt(format!("trickle_profile_{}", ["single_pause_above_1100ms", "two_pauses_560_600ms", "one_pause_1000_1100ms", "one_pause_500_600ms", "five_pauses_240_270ms", "random_only"][p.profile as usize % 6]), 1);
    for f in &h.frames {
        let complete = f.end_off <= h.written_upto;
        if !complete {
            continue;
        }
        cnt(format!("trickle_response_frames_completely_written_{k}"), 1);
        if f.cuts.len() >= 1 {
            cnt("trickle_response_frames_written_in_several_pieces".into(), 1);
        }
        for c in &f.cuts {
            cnt(format!("trickle_cut_{}", c.at.name()), 1);
            cnt(format!("trickle_pause_inside_frame_{}", pause_class(c.pause_ms)), 1);
            if c.fragment {
                cnt("trickle_ws_pauses_between_continuation_fragments".into(), 1);
            }
        }
        if f.stall_ms > 1100 {
            cnt(format!("trickle_frames_with_cumulative_stall_above_1100ms_{k}"), 1);
        }
        if f.cuts.iter().any(|c| c.pause_ms >= 500) {
            cnt(format!("trickle_frames_with_a_pause_of_500ms_or_more_{k}"), 1);
        }
        if !f.embedded.is_empty() {
            cnt(format!("trickle_responses_with_frame_for_inflight_id_inside_body_{k}"), 1);
            cnt("trickle_embedded_frames_for_inflight_ids".into(), f.embedded.len() as u64);
            cnt(if f.embedded_is_tail { "trickle_embedded_frame_is_tail_of_body".into() } else { "trickle_embedded_frame_in_middle_of_body".into() }, 1);
            if f.cuts.iter().any(|c| c.at == CutAt::BeforeEmbedded && c.pause_ms >= 500) {
                cnt("trickle_embedded_frame_right_after_a_pause_of_500ms_or_more".into(), 1);
            }
        }
        if p.kind == Kind::W {
            cnt("trickle_ws_fragments_written".into(), f.ws_fragments as u64);
            cnt("trickle_ws_pings_between_fragments".into(), f.ws_pings as u64);
            if f.ws_fragments >= 2 {
                cnt("trickle_ws_messages_sent_as_continuation_fragments".into(), 1);
            }
        }
    }

    let mut returned = 0usize;
    for slot in 0..p.n {
        let Some(f) = h.frames.iter().find(|f| f.slot == slot) else { continue };
        let complete = f.end_off <= h.written_upto;
        let who = format!("slot {slot} (api {:?}, request id {}, token {})", p.apis[slot], f.id, h.tokens[slot]);
        let Some((res, late)) = &h.outs[slot] else {
            v.timeouts += 1;
            v.inconclusive.push(format!("trickle #{} ({k}): {who} produced no result inside the harness bound (response completely written: {complete}; stall {stall_ms} ms)", p.index));
            continue;
        };
        returned += 1;
        // what a returned value is, when it is not the call's own response
        let classify = |tok: Option<&str>, kk: Option<&str>| -> (String, String) {
            match (tok, kk) {
                (Some(t), Some("decoy")) if t.starts_with("decoy-") => ("returned-frame-from-inside-another-response-body".into(), format!("the frame the fake server had put INSIDE THE BODY of another call's response ({t})")),
                (Some(t), _) if tok_slot.get(t).map(|j| *j != slot).unwrap_or(false) => ("got-other-calls-response".into(), format!("the response of slot {}", tok_slot[t])),
                _ => ("foreign-response".into(), "not a response the fake server sent for this call".into()),
            }
        };
        match res {
            TRes::Val(val) => {
                if f.json.as_ref() == Some(val) && complete {
                    cnt(format!("trickle_calls_returned_own_response_{k}"), 1);
                    if f.stall_ms > 1100 {
                        cnt("trickle_calls_returned_own_response_after_stall_above_1100ms".into(), 1);
                    }
                } else {
                    let (what, text) = classify(val.get("tok").and_then(|t| t.as_str()), val.get("k").and_then(|t| t.as_str()));
                    v.violations.push((format!("{sigp}:{what}"), format!("{who} returned {} which is {text}, not its own response (completely written: {complete}); {script}", trunc(&val.to_string(), 200))));
                }
            }
            TRes::Msg { id, notify, ec, qf, bf, query, body } => {
                let own = *id == f.id && *notify == 0 && *ec == 0 && *qf == 1 && *bf == f.bf && *query == f.query && *body == f.body;
                if own && complete {
                    cnt(format!("trickle_calls_returned_own_response_{k}"), 1);
                    if !f.embedded.is_empty() {
                        cnt("trickle_calls_returned_whole_body_with_embedded_frame".into(), 1);
                    }
                    if f.stall_ms > 1100 {
                        cnt("trickle_calls_returned_own_response_after_stall_above_1100ms".into(), 1);
                    }
                } else {
                    let parsed: Option<Value> = serde_json::from_slice(body).ok();
                    let (what, text) = classify(parsed.as_ref().and_then(|b| b.get("tok")).and_then(|t| t.as_str()), parsed.as_ref().and_then(|b| b.get("k")).and_then(|t| t.as_str()));
                    v.violations.push((format!("{sigp}:{what}"), format!("{who} returned {} which is {text}, not its own response (header id {} expected; body of {} bytes expected; completely written: {complete}); {script}", show_tres(res), f.id, f.body.len())));
                }
            }
            TRes::Err(e) => {
                cnt(format!("trickle_error_class_{}", e.class.replace('.', "_")), 1);
                if let Some((expected, got)) = e.mismatch {
                    v.violations.push((format!("{sigp}:call-got-frame-of-other-id"), format!("{who} failed with ResponseIdMismatch(expected {expected}, got {got}); {script}")));
                } else if *late {
                    v.timeouts += 1;
                    v.inconclusive.push(format!("trickle #{} ({k}): {who} returned `{}` only after the harness had given up waiting and closed the connection (response completely written: {complete}; stall {stall_ms} ms)", p.index, e.text));
                } else if complete {
                    v.violations.push((
                        format!("{sigp}:call-failed-although-response-completely-delivered:{}", e.class),
                        format!("{who} failed with `{}` ({}) although the fake server wrote its response frame completely (in pieces, with pauses) and the peer never closed or broke the connection; {script}", e.text, e.class),
                    ));
                } else {
                    cnt("trickle_calls_not_judged_response_not_completely_written".into(), 1);
                }
            }
        }
    }
    if returned == p.n && h.write_err.is_some() && v.violations.is_empty() {
        v.inconclusive.push(format!("trickle #{} ({k}): the fake server could not write all responses ({}) although no call misbehaved", p.index, h.write_err.clone().unwrap_or_default()));
    }
    if h.later_skipped {
        cnt("trickle_later_calls_skipped_after_anomaly".into(), 1);
    }
    cnt("trickle_idle_ms_before_later_calls".into(), if h.later.is_empty() { 0 } else { h.idle_ms });
    for (j, l) in h.later.iter().enumerate() {
        let who = format!("later call {j} (request id {:?}, token {})", l.id, l.tok);
        match &l.out {
            None => {
                if l.written {
                    v.timeouts += 1;
                }
                v.inconclusive.push(format!("trickle #{} ({k}): {who} produced no result inside the harness bound (response written: {}; stall {stall_ms} ms)", p.index, l.written));
            }
            Some((TRes::Val(val), _)) if l.json.as_ref() == Some(val) => cnt(format!("trickle_later_calls_returned_own_response_{k}"), 1),
            Some((TRes::Err(e), _)) if l.written && e.mismatch.is_none() => {
                v.violations.push((format!("{sigp}:later-call-failed:{}", e.class), format!("{who}, issued {} ms after every trickled response had been delivered, failed with `{}` although the fake server answered it in one piece and never closed the connection; before: {script}", h.idle_ms, e.text)));
            }
            Some((TRes::Err(e), _)) if e.mismatch.is_none() => cnt("trickle_calls_not_judged_response_not_completely_written".into(), 1),
            Some((other, _)) => {
                v.violations.push((format!("{sigp}:later-call:foreign-response"), format!("{who} returned {} instead of its own response {:?}; before: {script}", show_tres(other), l.json.as_ref().map(|j| j.to_string()))));
            }
        }
    }
    v
}

fn plan_json(p: &TPlan, seed: u64, stage: &str) -> Value {
    json!({
        "seed": seed, "stage": stage, "family": "trickle", "index": p.index, "client": p.kind.name(), "n": p.n,
        "apis": p.apis.iter().map(|a| format!("{a:?}")).collect::<Vec<_>>(), "profile": p.profile, "salt": p.salt,
    })
}

pub(super) fn run_family(st: &mut Stage, args: &Args, index: &mut u64) {
    match st.only {
        None | Some(("trickle", _)) => {}
        Some(_) => return,
    }
    if st.stop.is_some() {
        return;
    }
    let t_family = Instant::now();
    let mut r = Rng::new(args.seed ^ 0x7121_C1E5_0C04);
    let per_kind = (args.budget(T_PAR_PER_KIND as u64, 4 * T_PAR_PER_KIND as u64) as usize * if args.stage == "trickle" { 3 } else { 1 }).max(6);
    let rounds = per_kind.div_ceil(T_PAR_PER_KIND);
    let mut anomalies = 0u64;
    let mut max_stall_in_frame = 0u64;
    let mut slowest = 0u64;
    let mut ordinal = 0usize;
    for round in 0..rounds {
        if st.stop.is_some() || anomalies >= 12 {
            break;
        }
        let here = T_PAR_PER_KIND.min(per_kind - round * T_PAR_PER_KIND);
        let mut plans: Vec<TPlan> = vec![];
        for _ in 0..here {
            for kind in [Kind::B, Kind::A, Kind::W] {
                *index += 1;
                ordinal += 1;
                plans.push(make_plan(*index, kind, ordinal / 3 + kind as usize, &mut r));
            }
        }
        st.hb.reset();
        let rt = st.ctx.rt;
        let seed = st.seed;
        let hists: Vec<Result<THist, String>> = std::thread::scope(|s| {
            let hs: Vec<_> = plans.iter().map(|p| s.spawn(move || catching(|| run_conn(rt, seed, p)))).collect();
            hs.into_iter().map(|h| h.join().unwrap_or_else(|_| Err("connection thread panicked".into()))).collect()
        });
        let stall = st.hb.max_gap_ms();
        for (p, h) in plans.iter().zip(hists) {
            let h = match h {
                Ok(h) => h,
                Err(e) => {
                    st.rep.inconclusive(format!("trickle #{} ({}): harness panic: {e}", p.index, p.kind.name()));
                    continue;
                }
            };
            let v = judge_trickle(&h, stall);
            let rep = &mut st.rep;
            if v.judged {
                rep.eval();
                rep.count("scenarios_family_trickle", 1);
                rep.count(&format!("connections_{}_trickle", p.kind.name()), 1);
            }
            for (key, n) in &v.counts {
                rep.count(key, *n);
            }
            slowest = slowest.max(h.ms);
            for f in &h.frames {
                if f.end_off <= h.written_upto {
                    max_stall_in_frame = max_stall_in_frame.max(f.stall_ms);
                }
            }
            let ident = ("trickle-script", p.kind, &p.apis, &h.order, h.frames.iter().map(|f| (f.slot, f.cuts.iter().map(|c| (c.at, pause_class(c.pause_ms), c.fragment)).collect::<Vec<_>>(), f.embedded.clone(), f.embedded_is_tail)).collect::<Vec<_>>());
            if v.judged {
                st.scripts.insert(hash_of(&ident));
                rep.distinct(&ident);
            }
            if rep.samples.len() < rep.max_samples && p.index % 17 == 3 {
                rep.sample(json!({
                    "scenario": plan_json(p, st.seed, &rep.stage),
                    "answer_order": h.order,
                    "frames": h.frames.iter().map(|f| json!({
                        "slot": f.slot, "id": f.id, "bytes": oracle::HDR + f.query.len() + f.body.len(),
                        "cuts": f.cuts.iter().map(|c| format!("{}{}:{}ms", c.at.name(), if c.fragment { "(ws-fragment)" } else { "" }, c.pause_ms)).collect::<Vec<_>>(),
                        "stall_ms": f.stall_ms, "embedded_frames_for_slots": f.embedded.iter().map(|e| e.0).collect::<Vec<_>>(),
                    })).collect::<Vec<_>>(),
                    "results": h.outs.iter().map(|o| o.as_ref().map(|o| show_tres(&o.0)).unwrap_or_else(|| "no result".into())).collect::<Vec<_>>(),
                    "wall_ms": h.ms,
                }));
            }
            if !v.violations.is_empty() || !v.inconclusive.is_empty() {
                anomalies += 1;
            }
            for (sig, detail) in v.violations {
                let detail = format!("[trickle #{} {} n={}] {detail}", p.index, p.kind.name(), p.n);
                let replay = plan_json(p, st.seed, &st.rep.stage);
                st.rep.violation(sig, detail, replay);
            }
            for i in v.inconclusive {
                st.rep.inconclusive(i);
            }
            st.timeouts += v.timeouts;
        }
        if st.rep.violations.len() >= 12 {
            st.stop = Some("twelve distinct violations recorded; stopping early".into());
        }
    }
    st.rep.set("trickle_longest_stall_inside_one_frame_ms", json!(max_stall_in_frame));
    st.rep.set("trickle_slowest_connection_ms", json!(slowest));
    if anomalies >= 12 {
        st.rep.set("trickle_family_stopped_after_anomalies", json!(anomalies));
    }
    // the family must have seen what it is for
    if st.stop.is_none() && anomalies == 0 {
        for kind in [Kind::B, Kind::A, Kind::W] {
            let k = kind.name();
            if st.rep.get_count(&format!("trickle_frames_with_cumulative_stall_above_1100ms_{k}")) == 0 {
                st.rep.inconclusive(format!("trickle: no {k} response frame was delivered with a stall above 1.1 s inside it"));
            }
            if st.rep.get_count(&format!("trickle_responses_with_frame_for_inflight_id_inside_body_{k}")) == 0 {
                st.rep.inconclusive(format!("trickle: no {k} response carried a frame for another in-flight id inside its body"));
            }
            if st.rep.get_count(&format!("trickle_calls_returned_own_response_{k}")) == 0 {
                st.rep.inconclusive(format!("trickle: no {k} call was observed returning a trickled response"));
            }
        }
    }
    // the pauses of this family are not taken out of the other families' time
    st.deadline += t_family.elapsed();
}
