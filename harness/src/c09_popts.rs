// C09 — producer-option sweep (textually included into `mod imp` of c09.rs), both stages.
//
// The grid fixes `zstd_level` and stays inside chunk sizes <= 1 MiB and depths <= 8. This family
// sweeps every public field of `StreamOpts` one at a time around a seeded base point — `zstd_level`
// over the whole range the zstd library accepts (most negative, small negatives, 0 = "library
// default", 1, 3, 19, the maximum), `chunk_bytes` at both ends (1 byte, several MiB), `session_depth`
// at both ends (0, far beyond the grid) — each value combined with BOTH compression settings (an
// option that must be ignored for `Compression::None` is swept there too), every producer kind, the
// raw client (stage raw) and every library puller over Client / AsyncClient / WebSocketClient (stage
// pullers, including the file pullers pull_to_beve_file / pull_to_beve_zst_file and the
// digest-verifying ones). The oracle is the usual one: after decompression by the harness's own zstd
// decoder exactly the producer's logical bytes; for the compressed-file puller the committed file
// must decompress to the logical bytes.
//
// Encoders at the highest levels allocate several hundred MiB of tables per stream: those plans
// are serialised by one process-wide lock and pull a single payload each in the quick tier.

mod popts {
    use super::sidecar::{self, Collect};
    use super::slow::{AnyClient, Cl};
    use super::*;
    use repe::value_stream::{pull_to_beve_file, pull_to_beve_zst_file, pull_to_file_trailer_verified, pull_to_file_trailer_verified_async, pull_to_file_verified_async};

    #[derive(Clone, Copy, Debug, PartialEq, Eq, Hash)]
    pub enum Swept {
        ZstdLevel(i32),
        ChunkBytes(usize),
        SessionDepth(usize),
    }
    impl Swept {
        pub fn tag(&self) -> String {
            match self {
                Swept::ZstdLevel(l) => format!("zstd-level:{l}"),
                Swept::ChunkBytes(c) => format!("chunk-bytes:{c}"),
                Swept::SessionDepth(d) => format!("session-depth:{d}"),
            }
        }
    }

    #[derive(Clone, Debug)]
    pub struct Plan {
        swept: Swept,
        tr: Tr,
        kind: Kind,
        chunk: usize,
        depth: usize,
        zstd: bool,
        level: i32,
        seed: u64,
        raw: bool,
        thorough: bool,
    }
    impl Plan {
        fn opts(&self) -> StreamOpts {
            StreamOpts { chunk_bytes: self.chunk, compression: if self.zstd { Compression::Zstd } else { Compression::None }, zstd_level: self.level, session_depth: self.depth }
        }
        fn json(&self) -> Value {
            json!({"family": "producer-option", "swept_option": self.swept.tag(), "transport": format!("{:?}", self.tr), "kind": self.kind.name(),
                   "stream_opts": {"chunk_bytes": self.chunk, "compression": if self.zstd { "Zstd" } else { "None" }, "zstd_level": self.level, "session_depth": self.depth}})
        }
        /// encoder tables of hundreds of MiB per stream
        fn heavy(&self) -> bool {
            self.zstd && self.level >= 20
        }
    }

    static HEAVY: Mutex<()> = Mutex::new(());

    /// The payloads pulled for one plan (the last ones fail, for the kinds that can).
    fn specs(plan: &Plan, rng: &mut Rng) -> Vec<Spec> {
        let c = plan.chunk;
        let mut targets: Vec<usize> = if c >= (1 << 20) {
            vec![0, c + 1]
        } else if c == 1 {
            vec![0, 1, 5, 200 + rng.usize_below(200)]
        } else {
            vec![0, c - 1, 2 * c + 1, 5 * c + rng.usize_below(c), (40 * c + rng.usize_below(c)).min(150_000)]
        };
        if plan.heavy() {
            targets = vec![2 * c.min(1 << 16) + 1 + rng.usize_below(c.min(1 << 16))];
            if plan.thorough {
                targets.push(0);
            }
        }
        let mut v = vec![];
        for (i, &t) in targets.iter().enumerate() {
            let compressible = matches!(plan.kind, Kind::Reader | Kind::Writer) && i % 2 == 1;
            let mut s = Spec { p: 0, seed: rng.below(1 << 40), compressible, fail: None, panic: false, delay: rng.chance(1, 3), vt: rng.below(2) as u8 };
            s.p = if compressible { t * if plan.zstd && c < 4096 { 1 + rng.usize_below(30) } else { 1 } } else { param_for(plan.kind, plan.zstd, t, &s) };
            v.push(s);
        }
        if matches!(plan.kind, Kind::Reader | Kind::Writer | Kind::Value) && !(plan.heavy() && !plan.thorough) {
            let big = (3 * c + 2).min(c + 5000);
            let k = *rng.pick(&[0usize, c.min(big), big - 1]);
            let mut s = Spec { p: big, seed: rng.below(1 << 40), compressible: rng.coin(), fail: Some(k), panic: false, delay: rng.coin(), vt: 0 };
            if plan.kind == Kind::Value {
                s.p = k;
            }
            v.push(s);
        }
        v
    }

    fn note_exact(acc: &mut Acc, plan: &Plan, expected: &[u8], wire_len: Option<usize>) {
        acc.count("producer_option_streams_exact", 1);
        acc.count(&format!("producer_option_streams_exact[{}:{}]", plan.swept.tag(), if plan.zstd { "zstd" } else { "none" }), 1);
        if let Some(w) = wire_len {
            if plan.zstd && w < expected.len() {
                acc.count("producer_option_zstd_streams_smaller_on_the_wire_than_logical", 1);
            }
        }
    }

    // ------------------------------------------------------------------ stage raw

    fn raw_plan<T: RawTransport>(cl: &mut RawSvs<T>, plan: &Plan, acc: &mut Acc) -> Result<(), String> {
        let mut rng = Rng::new(plan.seed ^ 0x0975);
        for spec in specs(plan, &mut rng) {
            let expected = logical_bytes(plan.kind, &spec);
            let p = sidecar::raw_pull_all(cl, &spec.res(), expected.len(), None)?;
            acc.evals += 1;
            acc.count("producer_option_raw_streams", 1);
            acc.count("chunks_observed", p.chunks.len() as u64);
            acc.distinct.push(hash_of(&("popts-raw", plan.swept, plan.zstd, plan.kind, plan.tr, spec.fail.is_some(), spec.compressible, p.chunks.len().min(7))));
            let (defects, exact) = sidecar::raw_defects(&p, plan.zstd, plan.kind.beve(), plan.chunk, &expected, spec.fail);
            for (what, detail) in defects {
                let mut j = plan.json();
                j["resource"] = json!(spec.res());
                j["logical_len"] = json!(expected.len());
                j["chunks"] = json!(p.chunks.iter().take(24).map(|(l, e)| format!("{l}{}", if *e { "!" } else { "" })).collect::<Vec<_>>());
                acc.violation(format!("C09:producer-option:{}:raw:{what}", plan.swept.tag()), format!("producer with {:?}, raw client: {detail}", plan.opts()), j);
            }
            if exact {
                note_exact(acc, plan, &expected, Some(p.wire.len()));
                if acc.samples.is_empty() && plan.zstd && p.chunks.len() > 2 {
                    let mut j = plan.json();
                    j["observed"] = json!({"logical_len": expected.len(), "wire_len": p.wire.len(), "chunks": p.chunks.len(), "wire_starts": hex_trunc(&p.wire, 4)});
                    acc.samples.push(j);
                }
            } else if spec.fail.is_some() && matches!(p.end, sidecar::RawEnd::ErrResp(..)) {
                acc.count("producer_failures_surfaced_as_error", 1);
            }
        }
        Ok(())
    }

    // ------------------------------------------------------------------ stage pullers

    #[derive(Clone, Copy, Debug, PartialEq, Eq, Hash)]
    enum XP {
        Std(Pk),
        BeveFile,
        BeveZst,
        Trailer,
        Verified,
    }
    const TRAILER: usize = 8;

    impl XP {
        fn name(&self, kind: Kind, is_async: bool) -> &'static str {
            match (self, is_async) {
                (XP::Std(pk), a) => pk.name(kind, a),
                (XP::BeveFile, _) => "pull_to_beve_file",
                (XP::BeveZst, _) => "pull_to_beve_zst_file",
                (XP::Trailer, false) => "pull_to_file_trailer_verified",
                (XP::Trailer, true) => "pull_to_file_trailer_verified_async",
                (XP::Verified, _) => "pull_to_file_verified_async",
            }
        }
        fn applies(&self, plan: &Plan, is_async: bool, logical_len: usize) -> bool {
            match self {
                XP::Std(Pk::Decode) => plan.kind.beve(),
                XP::Std(_) => true,
                XP::BeveFile => !is_async && plan.zstd && plan.kind.beve(),
                XP::BeveZst => !is_async && plan.zstd,
                XP::Trailer => logical_len >= TRAILER,
                XP::Verified => is_async,
            }
        }
    }
    const XPS: [XP; 8] = [XP::Std(Pk::ToVec), XP::Std(Pk::Consume), XP::Std(Pk::ToFile), XP::Std(Pk::Decode), XP::BeveFile, XP::BeveZst, XP::Trailer, XP::Verified];

    /// What one puller delivered, rendered as logical bytes, plus a finding that only this puller can have.
    struct Out {
        logical: Result<Vec<u8>, String>,
        extra: Option<(&'static str, String)>,
    }

    fn read_back(dest: &std::path::Path) -> Result<Vec<u8>, String> {
        std::fs::read(dest).map_err(|e| format!("harness: the published file cannot be read: {e}"))
    }

    fn finish_trailer(file: Result<Vec<u8>, String>, digest_seen: Option<Vec<u8>>, trailer: Option<Vec<u8>>) -> Out {
        match file {
            Err(e) => Out { logical: Err(e), extra: None },
            Ok(f) => {
                let extra = match &digest_seen {
                    Some(d) if *d != f => Some(("digest-saw-other-bytes", format!("the digest was fed {} bytes, the committed file has {}; first difference at {}", d.len(), f.len(), first_diff(d, &f)))),
                    None => Some(("committed-without-verify", "a file was committed although verify was never called".to_string())),
                    _ => None,
                };
                let mut all = f;
                all.extend_from_slice(&trailer.unwrap_or_default());
                Out { logical: Ok(all), extra }
            }
        }
    }

    fn finish_zst(file: Result<Vec<u8>, String>) -> Out {
        match file {
            Err(e) => Out { logical: Err(e), extra: None },
            Ok(f) => {
                let (logical, clean) = svs::zstd_decompress_lossy(&f);
                let extra = if clean {
                    None
                } else {
                    Some(("committed-file-not-zstd", format!("the committed .zst file ({} bytes, starting {}) is not one complete zstd frame ({} bytes decompress)", f.len(), hex_trunc(&f, 8), logical.len())))
                };
                Out { logical: Ok(if clean { logical } else { f }), extra }
            }
        }
    }

    fn run_sync(xp: XP, kind: Kind, client: &Client, res: &str, dest: &std::path::Path, seed: u64, chunk: usize) -> Out {
        let et = |e: RepeError| err_text(&e);
        match xp {
            XP::Std(pk) => Out { logical: slow::pull_bytes_sync(pk, kind, res, client, dest, seed, chunk), extra: None },
            XP::BeveFile => Out { logical: pull_to_beve_file(client, res, dest).map_err(et).and_then(|_| read_back(dest)), extra: None },
            XP::BeveZst => finish_zst(pull_to_beve_zst_file(client, res, dest).map_err(et).and_then(|_| read_back(dest))),
            XP::Trailer => {
                let (mut seen, mut trailer) = (None, None);
                let r = pull_to_file_trailer_verified(client, res, dest, TRAILER, Collect(vec![]), |d: Collect, t: &[u8]| {
                    seen = Some(d.0);
                    trailer = Some(t.to_vec());
                    Ok(())
                });
                finish_trailer(r.map_err(et).and_then(|_| read_back(dest)), seen, trailer)
            }
            XP::Verified => Out { logical: Err("harness: no blocking form of this puller".into()), extra: None },
        }
    }

    async fn run_async<C: repe::value_stream::AsyncSvsClient>(xp: XP, kind: Kind, client: &C, res: &str, dest: &std::path::Path, seed: u64, chunk: usize) -> Out {
        let et = |e: RepeError| err_text(&e);
        match xp {
            XP::Std(pk) => Out { logical: slow::pull_bytes_async(pk, kind, res, client, dest, seed, chunk).await, extra: None },
            XP::Trailer => {
                let (mut seen, mut trailer) = (None, None);
                let r = pull_to_file_trailer_verified_async(client, res, dest, TRAILER, Collect(vec![]), |d: Collect, t: &[u8]| {
                    seen = Some(d.0);
                    trailer = Some(t.to_vec());
                    Ok(())
                })
                .await;
                finish_trailer(r.map_err(et).and_then(|_| read_back(dest)), seen, trailer)
            }
            XP::Verified => {
                let mut seen = None;
                let r = pull_to_file_verified_async(client, res, dest, Collect(vec![]), |d: Collect| {
                    seen = Some(d.0);
                    Ok(())
                })
                .await;
                finish_trailer(r.map_err(et).and_then(|_| read_back(dest)), seen, Some(vec![]))
            }
            XP::BeveFile | XP::BeveZst => Out { logical: Err("harness: no async form of this puller".into()), extra: None },
        }
    }

    fn judge(acc: &mut Acc, plan: &Plan, cl: Cl, puller: &str, spec: &Spec, expected: &[u8], out: Out) {
        acc.evals += 1;
        acc.count("producer_option_pulls", 1);
        acc.distinct.push(hash_of(&("popts", plan.swept, plan.zstd, plan.kind, plan.tr, cl, puller, spec.fail.is_some(), spec.compressible, (expected.len() / plan.chunk.max(1)).min(7))));
        let replay = || {
            let mut j = plan.json();
            j["client"] = json!(cl.name());
            j["puller"] = json!(puller);
            j["resource"] = json!(spec.res());
            j["logical_len"] = json!(expected.len());
            j
        };
        if let Err(e) = &out.logical {
            if e.starts_with("harness:") {
                acc.inconclusive.push(format!("producer-option family, {puller} over {}: {e}", cl.name()));
                return;
            }
        }
        let who = format!("{puller} over {} from a producer with {:?}", cl.name(), plan.opts());
        if let Some((what, detail)) = out.extra {
            acc.violation(format!("C09:producer-option:{}:{puller}:{what}", plan.swept.tag()), format!("{who}: {detail}"), replay());
        } else {
            match sidecar::pull_defect(&out.logical, expected, spec.fail, plan.chunk) {
                Some((what, detail)) => acc.violation(format!("C09:producer-option:{}:{puller}:{what}", plan.swept.tag()), format!("{who} {detail}"), replay()),
                None if spec.fail.is_some() => acc.count("pulls_failing_as_required", 1),
                None => {
                    acc.count("producer_option_pulls_exact", 1);
                    acc.count("pulls_matching", 1);
                    note_exact(acc, plan, expected, None);
                    if puller == "pull_to_beve_zst_file" {
                        acc.count("producer_option_compressed_files_decompressing_to_logical_bytes", 1);
                    }
                }
            }
        }
    }

    fn puller_plan(plan: &Plan, addr: SocketAddr, rt: &Arc<tokio::runtime::Runtime>, acc: &mut Acc) -> Result<(), String> {
        let mut rng = Rng::new(plan.seed ^ 0x0976);
        let clients: Vec<(Cl, AnyClient)> = match plan.tr {
            Tr::Tcp => vec![
                (Cl::Sync, AnyClient::Sync(Client::connect(addr).map_err(|e| format!("Client::connect: {e}"))?)),
                (Cl::Async, AnyClient::Async(rt.block_on(AsyncClient::connect(addr)).map_err(|e| format!("AsyncClient::connect: {e}"))?)),
            ],
            Tr::Ws => vec![(Cl::Ws, AnyClient::Ws(rt.block_on(WebSocketClient::connect(&format!("ws://{addr}/repe"))).map_err(|e| format!("WebSocketClient::connect: {e}"))?))],
        };
        let dir = svs::fresh_dir("c09-popts");
        let mut n = 0u64;
        let specs = specs(plan, &mut rng);
        // every puller pulls the longest healthy payload; in the quick tier the other payloads are shared out among the pullers
        let longest = specs.iter().enumerate().filter(|(_, s)| s.fail.is_none()).max_by_key(|(_, s)| s.p).map(|(i, _)| i).unwrap_or(0);
        for (si, spec) in specs.iter().enumerate() {
            let expected = logical_bytes(plan.kind, spec);
            let res = spec.res();
            for (cl, client) in &clients {
                let is_async = *cl != Cl::Sync;
                for (xi, xp) in XPS.into_iter().enumerate() {
                    if !xp.applies(plan, is_async, expected.len()) {
                        continue;
                    }
                    if !(plan.thorough || si == longest || (si + xi + plan.seed as usize) % 3 == 0) {
                        continue;
                    }
                    n += 1;
                    let dest = dir.join(format!("dest-{n}.bin"));
                    let s = rng.next_u64();
                    let out = match client {
                        AnyClient::Sync(c) => run_sync(xp, plan.kind, c, &res, &dest, s, plan.chunk),
                        AnyClient::Async(c) => rt.block_on(run_async(xp, plan.kind, c, &res, &dest, s, plan.chunk)),
                        AnyClient::Ws(c) => rt.block_on(run_async(xp, plan.kind, c, &res, &dest, s, plan.chunk)),
                    };
                    let published = dest.exists();
                    let _ = std::fs::remove_file(&dest);
                    let puller = xp.name(plan.kind, is_async);
                    if out.logical.is_err() && published {
                        let mut j = plan.json();
                        j["resource"] = json!(res);
                        acc.violation(
                            format!("C09:producer-option:{}:{puller}:error-but-file-published", plan.swept.tag()),
                            format!("{puller} over {} failed ({}) yet its destination file exists", cl.name(), trunc(out.logical.as_ref().err().unwrap(), 100)),
                            j,
                        );
                    }
                    judge(acc, plan, *cl, puller, spec, &expected, out);
                }
            }
        }
        let _ = std::fs::remove_dir_all(&dir);
        Ok(())
    }

    fn work(plan: &Plan, rt: &Arc<tokio::runtime::Runtime>, acc: &mut Acc) {
        let _serial = if plan.heavy() { Some(HEAVY.lock().unwrap_or_else(|e| e.into_inner())) } else { None };
        let srv = match start_server_with(build_router(plan.kind, plan.opts()), plan.tr, rt) {
            Ok(s) => s,
            Err(e) => {
                acc.inconclusive.push(format!("producer-option family: server start: {e}"));
                return;
            }
        };
        let r = if plan.raw {
            match plan.tr {
                Tr::Tcp => TcpRaw::connect(srv.addr).and_then(|t| {
                    let mut cl = RawSvs::new(t);
                    let r = raw_plan(&mut cl, plan, acc);
                    acc.count("frames_sent", cl.frames_sent);
                    acc.count("frames_received", cl.frames_received);
                    r
                }),
                Tr::Ws => WsRaw::connect(rt.clone(), &format!("ws://{}/repe", srv.addr)).and_then(|t| {
                    let mut cl = RawSvs::new(t);
                    let r = raw_plan(&mut cl, plan, acc);
                    acc.count("frames_sent", cl.frames_sent);
                    acc.count("frames_received", cl.frames_received);
                    r
                }),
            }
        } else {
            puller_plan(plan, srv.addr, rt, acc)
        };
        if let Err(e) = r {
            acc.inconclusive.push(format!("producer-option family trouble on {}: {e}", trunc(&format!("{plan:?}"), 240)));
        }
        acc.count("producer_option_plans", 1);
        if plan.heavy() {
            acc.count("producer_option_plans_with_large_encoder_tables", 1);
        }
    }

    /// The values each option is swept over.
    pub fn swept_values(thorough: bool) -> Vec<Swept> {
        let range = zstd::compression_level_range();
        let (lo, hi) = (*range.start(), *range.end());
        let mut levels = vec![lo, -7, -1, 0, 1, 3, 19, hi];
        if thorough {
            levels.extend([lo / 2, -100, 2, 9, 12, 16, 20, hi - 1]);
        }
        levels.sort();
        levels.dedup();
        let mut v: Vec<Swept> = levels.into_iter().map(Swept::ZstdLevel).collect();
        v.extend([Swept::ChunkBytes(1), Swept::ChunkBytes(4 << 20)]);
        v.extend([Swept::SessionDepth(0), Swept::SessionDepth(64), Swept::SessionDepth(1024)]);
        if thorough {
            v.extend([Swept::ChunkBytes(2), Swept::ChunkBytes((1 << 20) + 1), Swept::ChunkBytes(8 << 20), Swept::SessionDepth(9), Swept::SessionDepth(65536)]);
        }
        v
    }

    fn plans(args: &Args, raw: bool) -> Vec<Plan> {
        let mut rng = Rng::new(args.seed ^ 0xC09_0975 ^ raw as u64);
        let thorough = args.thorough();
        let mut v = vec![];
        let mut i = args.seed as usize;
        for swept in swept_values(thorough) {
            for zstd in [true, false] {
                for tr in [Tr::Tcp, Tr::Ws] {
                    i += 1;
                    let e = ELEMS[(i + rng.usize_below(5)) % 5];
                    let bytes_kind = if i % 2 == 0 { Kind::Reader } else { Kind::Writer };
                    let beve_kind = [Kind::Value, Kind::Typed(e), Kind::Complex(if i % 4 < 2 { Elem::F32 } else { Elem::F64 })][(i / 2) % 3];
                    let heavy = zstd && matches!(swept, Swept::ZstdLevel(l) if l >= 20);
                    let kinds: Vec<Kind> = if thorough && heavy {
                        vec![bytes_kind, beve_kind]
                    } else if thorough {
                        vec![Kind::Reader, Kind::Writer, Kind::Value, Kind::Typed(e), Kind::Complex(if i % 2 == 0 { Elem::F32 } else { Elem::F64 })]
                    } else if heavy {
                        vec![if tr == Tr::Tcp { bytes_kind } else { beve_kind }]
                    } else if !zstd && matches!(swept, Swept::ZstdLevel(_)) {
                        vec![if i % 3 == 0 { beve_kind } else { bytes_kind }]
                    } else {
                        vec![bytes_kind, beve_kind]
                    };
                    for kind in kinds {
                        let mut p = Plan { swept, tr, kind, chunk: *rng.pick(&[7usize, 64, 4096]), depth: rng.usize_below(5), zstd, level: 3, seed: rng.next_u64(), raw, thorough };
                        match swept {
                            Swept::ZstdLevel(l) => p.level = l,
                            Swept::ChunkBytes(c) => p.chunk = c,
                            Swept::SessionDepth(d) => p.depth = d,
                        }
                        v.push(p);
                    }
                }
            }
        }
        // the plans with large encoder tables first: they run one at a time and overlap with everything else
        v.sort_by_key(|p| !p.heavy());
        let n = args.budget(v.len() as u64, v.len() as u64) as usize;
        v.truncate(n.max(1).min(v.len()));
        v
    }

    pub fn spawn(args: &Args, raw: bool) -> sidecar::Family {
        let window = Duration::from_secs(if args.thorough() { 420 } else { 45 });
        sidecar::spawn("producer-option", plans(args, raw), 8, window, work)
    }
}
