// C04 family `unmatched-run`: LONG runs of consecutive inbound frames that match no pending call.
//
// The families that came first sprinkle unknown-id frames and duplicated responses sparsely between the real
// responses: never more than a handful in a row. A client whose reader keeps any state ACROSS unmatched frames (a
// counter of consecutive unmatched frames that "hardens" the connection by failing every pending call and stopping
// the reader at 16 in a row, a bounded log, a bounded set of "recently dropped" ids ...) is indistinguishable from a
// correct one under those scripts. The statement of C04 has no such bound: unmatched frames are dropped one by one,
// however many arrive in a row, and every call in flight still returns its own response.
//
// One case (`RScn`), on ONE connection that stays open the whole time (the fake server never closes it and sends only
// well-formed frames built by the independent codec):
//
// 1. warm-up calls complete (their ids are "past/completed" ids, their response frames are what a duplicate copies),
// 2. a wave of 1..8 calls (separate callers, or one `batch_json` / `batch_json_with_timeout`) is put in flight and
//    collected by the fake server,
// 3. the fake server answers the wave in a seeded order; before the first response, between two responses and/or
//    after the last one it sends RUNS of 16, 17, 40, 200, 1000 (controls: 1, 2, 15; thorough: other lengths too)
//    consecutive unmatched frames of ONE kind per case:
//      future-id            ids the connection will issue next (max id seen + 1 ..)
//      past-id              ids of calls that completed earlier on this connection, foreign body
//      duplicate-response   byte-identical copies of responses already delivered (warm-up or earlier in this wave)
//      huge-id              ids nobody will ever issue (2^40 + r)
//      notify-unknown-id    notify = 1 with ids nobody issued (TCP clients drop them, the WebSocket subscriber gets them)
//      notify-inflight-id   notify = 1 reusing the ids of the calls still in flight
//      mixed                all of the above plus id 0 and ids aliasing an in-flight id in the low 32 bits
// 4. a fence frame makes sure the reader is past everything (future ids are about to be issued for real),
// 5. further calls (or a further batch) on the SAME connection are issued and answered,
// 6. sentinel.
//
// Oracle (offline, `judge_runs`): every call of the wave and every later call returns its own token / id (batch:
// positionally). The fake server did not close and wrote every frame successfully, so a call that returns an error
// (other than a timeout, which is inconclusive) was failed by the client itself: violation, whether or not the
// sentinel was seen (a reader that stopped cannot announce it). A call that never returns is a violation only on
// logical evidence: the reader's `received` probe shows it consumed part of a run and then stopped before the call's
// response although the server had written it, with no machine stall; otherwise inconclusive. The WebSocket subscriber
// must receive exactly the pushed notify frames, in order.
//
// This file also holds the phased runner (`PRun`) that the `batch-connection-loss` family (c04_cut.rs) shares: ops are
// issued through the callers of c04.rs (pool threads for the blocking client, tasks for the other two), the fake
// server side is pumped by the harness thread.

use super::*;

/// results of these families travel through the shared result channel under tags no plain scenario index can equal
pub(super) const TAG: u64 = 1 << 62;
pub(super) const RUN_LENS: [usize; 5] = [16, 17, 40, 200, 1000];
const PHASE_WINDOW: Duration = Duration::from_secs(8);

#[derive(Clone, Copy, PartialEq, Eq, Hash, Debug)]
pub(super) enum RKind {
    Future,
    Past,
    Dup,
    Huge,
    NotifyUnknown,
    NotifyInflight,
    Mixed,
}

impl RKind {
    pub(super) const ALL: [RKind; 7] = [RKind::Future, RKind::Past, RKind::Dup, RKind::Huge, RKind::NotifyUnknown, RKind::NotifyInflight, RKind::Mixed];
    pub(super) fn name(self) -> &'static str {
        match self {
            RKind::Future => "future-id",
            RKind::Past => "past-id",
            RKind::Dup => "duplicate-response",
            RKind::Huge => "huge-id",
            RKind::NotifyUnknown => "notify-unknown-id",
            RKind::NotifyInflight => "notify-inflight-id",
            RKind::Mixed => "mixed",
        }
    }
}

/// what one frame of a run is
#[derive(Clone, Copy, PartialEq, Eq, Hash, Debug)]
pub(super) enum RSub {
    Future,
    Past,
    Dup,
    Huge,
    Zero,
    Alias32,
    NotifyUnknown,
    NotifyInflight,
}

impl RSub {
    fn name(self) -> &'static str {
        match self {
            RSub::Future => "future_id",
            RSub::Past => "past_id",
            RSub::Dup => "duplicate_response",
            RSub::Huge => "huge_id",
            RSub::Zero => "id_zero",
            RSub::Alias32 => "id_aliasing_inflight_low32",
            RSub::NotifyUnknown => "notify_unknown_id",
            RSub::NotifyInflight => "notify_inflight_id",
        }
    }
}

// ------------------------------------------------------------------ the phased runner

#[derive(Clone, Debug)]
pub(super) struct POp {
    /// 0 warm-up, 1 the wave that is in flight while the runs arrive / the batch that is cut, 2 later calls
    pub wave: u8,
    pub api: Api,
    pub tok: String,
    /// request id, read off the wire by the fake server
    pub id: Option<u64>,
    pub query: Vec<u8>,
    /// index into `PRun::batches` when the op is a slot of a batch call
    pub batch: Option<usize>,
}

#[derive(Clone, Copy, PartialEq, Eq, Hash, Debug)]
pub(super) enum PWhat {
    Resp(usize),
    /// (run number, kind of frame)
    Run(usize, RSub),
    Extra,
    Fence,
}

#[derive(Clone, Debug)]
pub(super) struct PSent {
    pub what: PWhat,
    pub id: u64,
    pub notify: bool,
    pub seq: u64,
}

#[derive(Clone, Debug)]
pub(super) struct PWire {
    pub id: u64,
    pub notify: u8,
    pub op: usize,
}

#[derive(Clone, Debug)]
pub(super) struct PBatch {
    pub first: usize,
    pub len: usize,
    pub with_timeout: bool,
    pub returned: Option<usize>,
}

pub(super) struct PRun<'a, 'b> {
    pub conn: &'a mut Conn,
    pub ctx: &'a mut Ctx<'b>,
    pub tag: u64,
    pub index: u64,
    pub ops: Vec<POp>,
    pub outs: Vec<Option<Out>>,
    pub wire: Vec<PWire>,
    pub sent: Vec<PSent>,
    pub batches: Vec<PBatch>,
    /// response frames exactly as written, by op (what a duplicate copies)
    pub resp_frames: HashMap<usize, Vec<u8>>,
    pub rng: Rng,
    pub wmode: u8,
    /// (id, op): a request arrived with an id this connection had used before
    pub dup_ids: Vec<(u64, usize)>,
    /// the fake server saw the CLIENT end the connection (EOF, reset, close frame) although it had not closed itself
    pub client_gone: Option<String>,
    pub server_closed: bool,
}

macro_rules! c04_do_call {
    ($c:expr, $api:expr, $path:expr, $body:expr) => {
        match $api {
            Api::Json => val_res($c.call_json(&$path, &$body).await),
            Api::JsonT => val_res($c.call_json_with_timeout(&$path, &$body, API_TIMEOUT).await),
            Api::Msg => {
                let bytes = serde_json::to_vec(&$body).unwrap();
                msg_res($c.call_with_formats_and_timeout(&$path, 1, Some(&bytes), 2, API_TIMEOUT).await)
            }
            Api::Notify => unit_res($c.notify_json(&$path, &$body).await),
        }
    };
}

macro_rules! c04_do_batch {
    ($c:expr, $reqs:expr, $with_timeout:expr) => {
        if $with_timeout { $c.batch_json_with_timeout($reqs, API_TIMEOUT).await } else { $c.batch_json($reqs).await }
    };
}

fn client_went_away(e: &str) -> bool {
    e.starts_with("client closed") || e.starts_with("server read") || e.starts_with("server ws read") || e.contains("Close(") || e.contains("Broken pipe") || e.contains("reset by peer") || e.contains("Connection reset") || e.contains("ConnectionClosed") || e.contains("AlreadyClosed") || e.contains("Sending after closing") || e.contains("Connection closed normally") || e.contains("closed connection")
}

impl<'a, 'b> PRun<'a, 'b> {
    pub(super) fn new(conn: &'a mut Conn, ctx: &'a mut Ctx<'b>, index: u64, rng: Rng, wmode: u8) -> PRun<'a, 'b> {
        if let Srv::Tcp { s, .. } = &conn.srv {
            s.set_read_timeout(Some(Duration::from_millis(2))).ok();
        }
        // stale results of abandoned scenarios
        while ctx.pool.res_rx.try_recv().is_ok() {}
        PRun { conn, ctx, tag: TAG | (index << 4), index, ops: vec![], outs: vec![], wire: vec![], sent: vec![], batches: vec![], resp_frames: HashMap::new(), rng, wmode, dup_ids: vec![], client_gone: None, server_closed: false }
    }

    pub(super) fn add_op(&mut self, wave: u8, api: Api) -> usize {
        let op = self.ops.len();
        self.ctx.nonce += 1;
        let kc = match self.conn.kind {
            Kind::B => 'b',
            Kind::A => 'a',
            Kind::W => 'w',
        };
        let tok = format!("{kc}{}-{op}-{:x}", self.index, mix(self.ctx.nonce ^ (op as u64) << 32) & 0xffff_ffff);
        self.ops.push(POp { wave, api, tok, id: None, query: vec![], batch: None });
        self.outs.push(None);
        op
    }

    fn path_of(op: usize) -> String {
        format!("/c04/r{op}")
    }

    fn body_of(&self, op: usize) -> Value {
        json!({"tok": self.ops[op].tok, "slot": op})
    }

    pub(super) fn spawn_call(&self, op: usize, pre_us: u32) {
        let (path, body, api, tag) = (Self::path_of(op), self.body_of(op), self.ops[op].api, self.tag);
        match &self.conn.cli {
            Cli::B(c) => {
                let _ = self.ctx.pool.txs[op % MAX_N].send(Job::Call { scn: tag, cli: c.clone(), slot: op, api, path, body, pre_us });
            }
            Cli::A(c) => {
                let (c, tx) = (c.clone(), self.ctx.pool.res_tx.clone());
                self.ctx.rt.spawn(async move {
                    pre_delay(pre_us);
                    let r = c04_do_call!(c, api, path, body);
                    drop(c);
                    let _ = tx.send(ResMsg::One(tag, op, r));
                });
            }
            Cli::W(c) => {
                let (c, tx) = (c.clone(), self.ctx.pool.res_tx.clone());
                self.ctx.rt.spawn(async move {
                    pre_delay(pre_us);
                    let r = c04_do_call!(c, api, path, body);
                    drop(c);
                    let _ = tx.send(ResMsg::One(tag, op, r));
                });
            }
        }
    }

    /// One batch call over the ops `first .. first + len` (positions of the batch = ops in that order).
    pub(super) fn spawn_batch(&mut self, first: usize, len: usize, with_timeout: bool) {
        let b = self.batches.len();
        self.batches.push(PBatch { first, len, with_timeout, returned: None });
        for op in first..first + len {
            self.ops[op].batch = Some(b);
        }
        let reqs: Vec<(String, Value)> = (first..first + len).map(|op| (Self::path_of(op), self.body_of(op))).collect();
        let btag = self.tag | (b as u64 + 1);
        match &self.conn.cli {
            Cli::B(c) => {
                let _ = self.ctx.pool.txs[MAX_N].send(Job::Batch { scn: btag, cli: c.clone(), reqs, timeout: if with_timeout { Some(API_TIMEOUT) } else { None } });
            }
            Cli::A(c) => {
                let (c, tx) = (c.clone(), self.ctx.pool.res_tx.clone());
                self.ctx.rt.spawn(async move {
                    let r = c04_do_batch!(c, reqs, with_timeout).into_iter().map(val_res).collect();
                    drop(c);
                    let _ = tx.send(ResMsg::Batch(btag, r));
                });
            }
            Cli::W(c) => {
                let (c, tx) = (c.clone(), self.ctx.pool.res_tx.clone());
                self.ctx.rt.spawn(async move {
                    let r = c04_do_batch!(c, reqs, with_timeout).into_iter().map(val_res).collect();
                    drop(c);
                    let _ = tx.send(ResMsg::Batch(btag, r));
                });
            }
        }
    }

    fn store(&mut self, m: ResMsg, late: bool) {
        match m {
            ResMsg::One(s, op, res) if s == self.tag => {
                if op < self.outs.len() && self.outs[op].is_none() {
                    self.outs[op] = Some(Out { res, late });
                }
            }
            ResMsg::Batch(s, v) if s & !0xf == self.tag && s & 0xf != 0 => {
                let b = (s & 0xf) as usize - 1;
                if b < self.batches.len() {
                    self.batches[b].returned = Some(v.len());
                    let (first, len) = (self.batches[b].first, self.batches[b].len);
                    for (i, res) in v.into_iter().enumerate() {
                        if i < len {
                            self.outs[first + i] = Some(Out { res, late });
                        }
                    }
                }
            }
            _ => {}
        }
    }

    pub(super) fn drain(&mut self, late: bool) {
        while let Ok(m) = self.ctx.pool.res_rx.try_recv() {
            self.store(m, late);
        }
    }

    /// the op has a result, or (slot of a batch) its batch has returned
    pub(super) fn settled(&self, op: usize) -> bool {
        self.outs[op].is_some() || self.ops[op].batch.map(|b| self.batches[b].returned.is_some()).unwrap_or(false)
    }

    pub(super) fn on_wire(&self, op: usize) -> bool {
        self.wire.iter().any(|w| w.op == op)
    }

    /// One read attempt (about 2 ms) on the fake server's side. Ok(true): a request frame was booked.
    pub(super) fn read_one(&mut self) -> Result<bool, String> {
        let f = match self.conn.srv.recv(self.ctx.rt, Instant::now() + Duration::from_millis(2)) {
            Ok(Some(f)) => f,
            Ok(None) => return Ok(false),
            Err(e) => {
                if !self.server_closed && client_went_away(&e) && self.client_gone.is_none() {
                    self.client_gone = Some(e.clone());
                }
                return Err(e);
            }
        };
        self.conn.requests += 1;
        let v: Option<Value> = serde_json::from_slice(&f.body).ok();
        let op = v.as_ref().and_then(|v| v.get("slot")?.as_u64()).map(|o| o as usize).filter(|o| *o < self.ops.len());
        let tok = v.as_ref().and_then(|v| v.get("tok")?.as_str());
        let Some(op) = op.filter(|o| Some(self.ops[*o].tok.as_str()) == tok && f.query == Self::path_of(*o).as_bytes()) else {
            return Err(format!("a frame that does not belong to this case reached the fake server: id {} query {:?} body {}", f.header.id, String::from_utf8_lossy(&f.query), hex_trunc(&f.body, 60)));
        };
        if !self.conn.ids_seen.insert(f.header.id) {
            self.dup_ids.push((f.header.id, op));
        }
        self.conn.max_id = self.conn.max_id.max(f.header.id);
        if self.ops[op].id.is_none() {
            self.ops[op].id = Some(f.header.id);
            self.ops[op].query = f.query.clone();
        }
        self.wire.push(PWire { id: f.header.id, notify: f.header.notify, op });
        Ok(true)
    }

    /// Read request frames and collect results until every op of `wire` has its frame at the fake server (or has
    /// returned without one: a call the client refused) and every op of `results` has returned. Ok(false): the
    /// window ran out.
    pub(super) fn pump(&mut self, wire: &[usize], results: &[usize], window: Duration) -> Result<bool, String> {
        let until = Instant::now() + window;
        loop {
            self.drain(false);
            let wire_ok = wire.iter().all(|o| self.on_wire(*o) || self.settled(*o));
            let res_ok = results.iter().all(|o| self.settled(*o));
            if wire_ok && res_ok {
                return Ok(true);
            }
            if Instant::now() >= until {
                return Ok(false);
            }
            if wire_ok {
                if let Ok(m) = self.ctx.pool.res_rx.recv_timeout(Duration::from_millis(1)) {
                    self.store(m, false);
                }
                continue;
            }
            self.read_one()?;
        }
    }

    /// Only collect results (the fake server's side may be closed already). true: all of `ops` have returned.
    pub(super) fn wait_results(&mut self, ops: &[usize], window: Duration, late: bool) -> bool {
        let until = Instant::now() + window;
        loop {
            self.drain(late);
            if ops.iter().all(|o| self.settled(*o)) {
                return true;
            }
            let now = Instant::now();
            if now >= until {
                return false;
            }
            if let Ok(m) = self.ctx.pool.res_rx.recv_timeout((until - now).min(Duration::from_millis(50))) {
                self.store(m, late);
            }
        }
    }

    pub(super) fn send(&mut self, frames: &mut Vec<Vec<u8>>) -> Result<(), String> {
        let mut rng = self.rng.fork(0x5E4D);
        let r = self.conn.srv.send(self.ctx.rt, frames, self.wmode, &mut rng);
        if let Err(e) = &r {
            if !self.server_closed && client_went_away(e) && self.client_gone.is_none() {
                self.client_gone = Some(e.clone());
            }
        }
        r
    }

    /// The response frame of `op` (its request must have arrived).
    pub(super) fn resp_frame(&mut self, op: usize) -> Vec<u8> {
        let id = self.ops[op].id.expect("response for a request that has not arrived");
        let f = mk_frame(id, false, &self.ops[op].query, &json!({"id": id, "tok": self.ops[op].tok, "k": "resp"}));
        self.sent.push(PSent { what: PWhat::Resp(op), id, notify: false, seq: 0 });
        self.resp_frames.insert(op, f.clone());
        f
    }

    /// An unknown-id frame the reader announces through its `received` probe; Ok(true) once it has (the reader is
    /// sequential: everything sent before has been dispatched completely). Ok(false): the client ended the
    /// connection instead. Err: neither within 10 s, or harness trouble.
    pub(super) fn fence(&mut self) -> Result<bool, String> {
        self.ctx.sentinel_ctr += 1;
        let fence = SENT_BASE + self.ctx.sentinel_ctr;
        let mut out = vec![mk_frame(fence, false, b"/c04/fence", &json!({"id": fence, "tok": "fence", "k": "unk"}))];
        self.sent.push(PSent { what: PWhat::Fence, id: fence, notify: false, seq: 0 });
        let saved = self.wmode;
        self.wmode = 0;
        let r = self.send(&mut out);
        self.wmode = saved;
        if let Err(e) = r {
            return if self.client_gone.is_some() { Ok(false) } else { Err(e) };
        }
        let until = Instant::now() + Duration::from_secs(10);
        let mut spins = 0u32;
        while SENTINEL_SEEN.load(Ordering::SeqCst) != fence {
            if Instant::now() >= until {
                return Err("a fence frame was not seen by the client's reader within 10 s".into());
            }
            spins += 1;
            if spins < 400 {
                std::thread::yield_now();
            } else if let Err(e) = self.read_one() {
                return if self.client_gone.is_some() { Ok(false) } else { Err(e) };
            }
        }
        Ok(true)
    }
}

// ------------------------------------------------------------------ the cases of this family

#[derive(Clone, Debug)]
pub(super) struct RScn {
    index: u64,
    kind: Kind,
    mode: Mode,
    rkind: RKind,
    warm: usize,
    n: usize,
    apis: Vec<Api>,
    batch_timeout: bool,
    /// order in which the slots of the wave are answered
    order: Vec<usize>,
    /// (number of responses of the wave sent before the run, length of the run)
    runs: Vec<(usize, usize)>,
    follow: usize,
    follow_batch: bool,
    /// put what has been built on the wire after every run / response (seeded) instead of once at the end
    flush_each: bool,
    wmode: u8,
    salt: u64,
    delays: bool,
}

impl RScn {
    fn identity(&self) -> (Kind, Mode, RKind, usize, usize, &[Api], bool, &[usize], &[(usize, usize)], (usize, bool, bool, u8)) {
        (self.kind, self.mode, self.rkind, self.warm, self.n, &self.apis, self.batch_timeout, &self.order, &self.runs, (self.follow, self.follow_batch, self.flush_each, self.wmode))
    }
    fn to_json(&self, seed: u64) -> Value {
        json!({
            "seed": seed, "family": "unmatched-run", "index": self.index, "client": self.kind.name(), "mode": self.mode.name(), "run_kind": self.rkind.name(),
            "warm_up_calls": self.warm, "n_in_flight": self.n, "apis": self.apis.iter().map(|a| format!("{a:?}")).collect::<Vec<_>>(), "batch_with_timeout": self.batch_timeout,
            "answer_order": self.order, "runs_as_responses_before_and_length": self.runs, "later_calls": self.follow, "later_calls_as_batch": self.follow_batch,
            "flush_each": self.flush_each, "wmode": self.wmode, "salt": self.salt, "delays": self.delays,
        })
    }
    fn placement(&self) -> &'static str {
        let (b, m, a) = (self.runs.iter().any(|r| r.0 == 0), self.runs.iter().any(|r| r.0 > 0 && r.0 < self.n), self.runs.iter().any(|r| r.0 == self.n));
        match (b, m, a) {
            (true, false, false) => "before_all_responses",
            (false, true, false) => "between_responses",
            (false, false, true) => "after_all_responses",
            _ => "several_places",
        }
    }
}

/// `place`: 0 before the first response, 1 between two responses, 2 after the last one, 3 several places
pub(super) fn make_rscn(index: u64, kind: Kind, mode: Mode, rkind: RKind, len: usize, place: u8, rng: &mut Rng) -> RScn {
    let mut n = 1 + rng.usize_below(8);
    if place == 1 && n < 2 {
        n = 2 + rng.usize_below(7);
    }
    if kind == Kind::B && mode == Mode::Batch {
        n = n.min(blocking_batch_cap()).max(1);
    }
    let apis: Vec<Api> = (0..n)
        .map(|_| match mode {
            Mode::Batch => Api::JsonT,
            Mode::Calls => *rng.pick(&[Api::Json, Api::JsonT, Api::Msg]),
        })
        .collect();
    let mut order: Vec<usize> = (0..n).collect();
    rng.shuffle(&mut order);
    // a run of frames carrying in-flight ids needs somebody in flight
    let needs_inflight = rkind == RKind::NotifyInflight;
    let place = if needs_inflight && place == 2 { 0 } else if place == 1 && n < 2 { 0 } else { place };
    let runs: Vec<(usize, usize)> = match place {
        0 => vec![(0, len)],
        1 => vec![(1 + rng.usize_below(n - 1), len)],
        2 => vec![(n, len)],
        _ => {
            // the long one somewhere, shorter ones elsewhere (a matched frame in between resets nothing that matters)
            let mut v = vec![(rng.usize_below(n + 1), len)];
            for _ in 0..1 + rng.usize_below(2) {
                v.push((rng.usize_below(n + 1), *rng.pick(&[1usize, 3, 15, 16, 17, 40])));
            }
            if needs_inflight {
                for r in v.iter_mut() {
                    r.0 = r.0.min(n - 1);
                }
            }
            v.sort();
            v
        }
    };
    RScn {
        index,
        kind,
        mode,
        rkind,
        warm: 1 + rng.usize_below(2),
        n,
        apis,
        batch_timeout: rng.coin(),
        order,
        runs,
        follow: 1 + rng.usize_below(3),
        follow_batch: mode == Mode::Batch && rng.coin(),
        flush_each: rng.coin(),
        wmode: rng.below(3) as u8,
        salt: rng.next_u64(),
        delays: rng.chance(1, 2),
    }
}

pub(super) struct RHist {
    ops: Vec<POp>,
    outs: Vec<Option<Out>>,
    wire: Vec<PWire>,
    sent: Vec<PSent>,
    batches: Vec<PBatch>,
    dup_ids: Vec<(u64, usize)>,
    events: Vec<(u8, u64)>,
    sub_items: Vec<(u64, u8, Value)>,
    /// harness trouble (foreign frame, server write failed for a reason other than the client going away ...)
    trouble: Option<String>,
    /// a bounded wait ran out
    window: Option<String>,
    client_gone: Option<String>,
    sentinel_seen: bool,
    fence_seen: bool,
    /// (responses sent before, length, calls of the wave still unanswered when the run was sent)
    runs_sent: Vec<(usize, usize, usize)>,
    later_issued: bool,
}

#[derive(Default)]
struct RInfo {
    window: Option<String>,
    fence_seen: bool,
    runs_sent: Vec<(usize, usize, usize)>,
    later_issued: bool,
}

fn run_runs(conn: &mut Conn, ctx: &mut Ctx, rs: &RScn) -> RHist {
    let rng = Rng::new(ctx.seed ^ rs.salt.rotate_left(31) ^ 0x0C04_2B45);
    LOG.lock().unwrap_or_else(|e| e.into_inner()).clear();
    SALT.store(rs.salt, Ordering::Relaxed);
    DELAYS.store(rs.delays, Ordering::Relaxed);
    ctx.sentinel_ctr += 1;
    let sentinel = SENT_BASE + ctx.sentinel_ctr;
    let mut run = PRun::new(conn, ctx, rs.index, rng, rs.wmode);
    let mut info = RInfo::default();
    let trouble = run_phases(&mut run, rs, sentinel, &mut info).err();
    // a failure that only says "the client ended the connection" is an observation, not harness trouble
    let trouble = trouble.filter(|t| !(run.client_gone.is_some() && client_went_away(t)));
    let all: Vec<usize> = (0..run.ops.len()).collect();
    let mut sentinel_seen = false;
    if trouble.is_some() || info.window.is_some() || run.client_gone.is_some() {
        // release whoever still waits; what arrives from now on is late
        if !run.wait_results(&all, Duration::from_millis(if run.client_gone.is_some() { 1500 } else { 0 }), false) {
            run.conn.srv.close(run.ctx.rt);
            run.server_closed = true;
            run.wait_results(&all, Duration::from_secs(5), true);
        }
    } else {
        let until = Instant::now() + Duration::from_secs(10);
        let mut spins = 0u32;
        while SENTINEL_SEEN.load(Ordering::SeqCst) != sentinel && Instant::now() < until {
            spins += 1;
            if spins < 400 {
                std::thread::yield_now();
            } else {
                std::thread::sleep(Duration::from_micros(50));
            }
        }
        sentinel_seen = SENTINEL_SEEN.load(Ordering::SeqCst) == sentinel;
        run.drain(false);
    }
    DELAYS.store(false, Ordering::Relaxed);
    let mut sub_items = vec![];
    if let Some(rx) = run.conn.sub.as_mut() {
        while let Ok(m) = rx.try_recv() {
            let v: Value = serde_json::from_slice(&m.body).unwrap_or_else(|_| json!({"unparsed_body_hex": hex_trunc(&m.body, 64)}));
            sub_items.push((m.header.id, m.header.notify, v));
        }
    }
    let events = std::mem::take(&mut *LOG.lock().unwrap_or_else(|e| e.into_inner()));
    if sentinel_seen {
        for o in &run.ops {
            if let Some(id) = o.id {
                if run.conn.past_ids.len() < 64 {
                    run.conn.past_ids.push(id);
                } else {
                    let k = run.rng.usize_below(64);
                    run.conn.past_ids[k] = id;
                }
            }
        }
    }
    run.conn.scenarios += 1;
    RHist {
        ops: run.ops,
        outs: run.outs,
        wire: run.wire,
        sent: run.sent,
        batches: run.batches,
        dup_ids: run.dup_ids,
        events,
        sub_items,
        trouble,
        window: info.window,
        client_gone: run.client_gone,
        sentinel_seen,
        fence_seen: info.fence_seen,
        runs_sent: info.runs_sent,
        later_issued: info.later_issued,
    }
}

/// Err: harness trouble, or the client ended the connection (then `run.client_gone` says so).
fn run_phases(run: &mut PRun, rs: &RScn, sentinel: u64, info: &mut RInfo) -> Result<(), String> {
    let short = |what: &str| format!("{what} not complete inside {} s", PHASE_WINDOW.as_secs());
    // 1. warm-up calls: completed ids, delivered responses
    let warm: Vec<usize> = (0..rs.warm).map(|_| run.add_op(0, Api::JsonT)).collect();
    for o in &warm {
        run.spawn_call(*o, 0);
    }
    if !run.pump(&warm, &[], PHASE_WINDOW)? {
        info.window = Some(short("warm-up requests"));
        return Ok(());
    }
    let mut out: Vec<Vec<u8>> = vec![];
    for o in &warm {
        if run.on_wire(*o) {
            let f = run.resp_frame(*o);
            out.push(f);
        }
    }
    run.send(&mut out)?;
    if !run.pump(&[], &warm, CALL_WINDOW)? {
        info.window = Some(format!("warm-up results not complete inside {} s", CALL_WINDOW.as_secs()));
        return Ok(());
    }
    if warm.iter().any(|o| !run.on_wire(*o)) {
        return Err("a warm-up call returned without writing its request".into());
    }
    // 2. the wave that is in flight while the runs arrive
    let main: Vec<usize> = (0..rs.n).map(|i| run.add_op(1, rs.apis[i])).collect();
    match rs.mode {
        Mode::Batch => run.spawn_batch(main[0], rs.n, rs.batch_timeout),
        Mode::Calls => {
            let mut order = main.clone();
            run.rng.shuffle(&mut order);
            for o in order {
                let pre_us = if rs.delays && run.rng.chance(1, 3) { run.rng.below(120) as u32 } else { 0 };
                run.spawn_call(o, pre_us);
            }
        }
    }
    if !run.pump(&main, &[], PHASE_WINDOW)? {
        info.window = Some(short("requests of the wave"));
        return Ok(());
    }
    if main.iter().any(|o| !run.on_wire(*o)) {
        return Err("a call of the wave returned before its request reached the fake server (nothing had been sent to the client yet)".into());
    }
    // 3. the script: responses in the scripted order, runs of unmatched frames where the case says
    let first_future = run.conn.max_id + 1;
    let mut run_no = 0usize;
    for j in 0..=rs.n {
        for (at, len) in rs.runs.iter().filter(|r| r.0 == j) {
            let unanswered: Vec<usize> = rs.order[j..].iter().map(|s| main[*s]).collect();
            let delivered: Vec<usize> = warm.iter().copied().chain(rs.order[..j].iter().map(|s| main[*s])).collect();
            for i in 0..*len {
                let sub = match rs.rkind {
                    RKind::Future => RSub::Future,
                    RKind::Past => RSub::Past,
                    RKind::Dup => RSub::Dup,
                    RKind::Huge => RSub::Huge,
                    RKind::NotifyUnknown => RSub::NotifyUnknown,
                    RKind::NotifyInflight if !unanswered.is_empty() => RSub::NotifyInflight,
                    RKind::NotifyInflight => RSub::NotifyUnknown,
                    RKind::Mixed => match run.rng.below(8) {
                        0 => RSub::Future,
                        1 => RSub::Past,
                        2 => RSub::Dup,
                        3 => RSub::Huge,
                        4 => RSub::Zero,
                        5 if !unanswered.is_empty() => RSub::Alias32,
                        6 if !unanswered.is_empty() => RSub::NotifyInflight,
                        _ => RSub::NotifyUnknown,
                    },
                };
                let utok = format!("unk-{}-{}", rs.index, run.sent.len());
                let (frame, id, notify, seq) = match sub {
                    RSub::Dup => {
                        let d = *run.rng.pick(&delivered);
                        (run.resp_frames[&d].clone(), run.ops[d].id.unwrap(), false, 0)
                    }
                    RSub::NotifyUnknown | RSub::NotifyInflight => {
                        let id = if sub == RSub::NotifyInflight { run.ops[*run.rng.pick(&unanswered)].id.unwrap() } else { (1u64 << 43) + run.rng.below(1000) };
                        run.ctx.notify_seq += 1;
                        let seq = run.ctx.notify_seq;
                        (mk_frame(id, true, b"/c04/push", &json!({"id": id, "seq": seq, "tok": format!("ntf-{seq}"), "k": "notify"})), id, true, seq)
                    }
                    _ => {
                        let id = match sub {
                            RSub::Future => first_future + (i % 64) as u64,
                            RSub::Past => {
                                let d = *run.rng.pick(&delivered);
                                run.ops[d].id.unwrap()
                            }
                            RSub::Huge => (1u64 << 40) + run.rng.below(1 << 20),
                            RSub::Zero => 0,
                            _ => run.ops[*run.rng.pick(&unanswered)].id.unwrap() + (1u64 << 32),
                        };
                        (mk_frame(id, false, b"/c04/unknown", &json!({"id": id, "tok": utok, "k": "unk"})), id, false, 0)
                    }
                };
                out.push(frame);
                run.sent.push(PSent { what: PWhat::Run(run_no, sub), id, notify, seq });
            }
            info.runs_sent.push((*at, *len, unanswered.len()));
            run_no += 1;
            if rs.flush_each && run.rng.coin() {
                run.send(&mut out)?;
            }
        }
        if j < rs.n {
            let f = run.resp_frame(main[rs.order[j]]);
            out.push(f);
            if rs.flush_each && run.rng.coin() {
                run.send(&mut out)?;
            }
        }
    }
    run.send(&mut out)?;
    if !run.pump(&[], &main, CALL_WINDOW)? {
        info.window = Some(format!("results of the wave not complete inside {} s", CALL_WINDOW.as_secs()));
        return Ok(());
    }
    // 4. the reader must be past every run frame before the ids the runs used are issued for real
    info.fence_seen = run.fence()?;
    // 5. further calls on the same connection
    let mut later: Vec<usize> = vec![];
    for _ in 0..rs.follow {
        let api = if rs.follow_batch { Api::JsonT } else { *run.rng.pick(&[Api::Json, Api::JsonT, Api::Msg]) };
        later.push(run.add_op(2, api));
    }
    info.later_issued = true;
    if rs.follow_batch {
        let with_timeout = run.rng.coin();
        run.spawn_batch(later[0], rs.follow, with_timeout);
    } else {
        for o in &later {
            run.spawn_call(*o, 0);
        }
    }
    if !run.pump(&later, &[], PHASE_WINDOW)? {
        info.window = Some(short("requests of the later calls"));
        return Ok(());
    }
    let mut ans: Vec<usize> = later.iter().copied().filter(|o| run.on_wire(*o)).collect();
    run.rng.shuffle(&mut ans);
    for o in ans {
        let f = run.resp_frame(o);
        out.push(f);
    }
    run.send(&mut out)?;
    if !run.pump(&[], &later, CALL_WINDOW)? {
        info.window = Some(format!("results of the later calls not complete inside {} s", CALL_WINDOW.as_secs()));
        return Ok(());
    }
    // 6. sentinel
    let mut out = vec![mk_frame(sentinel, false, b"/c04/sentinel", &json!({"id": sentinel, "tok": "sentinel", "k": "unk"}))];
    let saved = run.wmode;
    run.wmode = 0;
    let r = run.send(&mut out);
    run.wmode = saved;
    r
}

#[derive(Default)]
pub(super) struct RVerdict {
    pub violations: Vec<(String, String)>,
    pub inconclusive: Vec<String>,
    pub counts: Vec<(String, u64)>,
    pub anomalies: bool,
    pub timeouts: u64,
}

fn show_psent(sent: &[PSent]) -> String {
    // runs are shown compressed
    let mut v: Vec<String> = vec![];
    let mut i = 0;
    while i < sent.len() && v.len() < 40 {
        match sent[i].what {
            PWhat::Run(no, _) => {
                let mut j = i;
                while j < sent.len() && matches!(sent[j].what, PWhat::Run(m, _) if m == no) {
                    j += 1;
                }
                v.push(format!("run#{no} of {} unmatched frame(s) (first: {:?} id {})", j - i, sent[i].what, sent[i].id));
                i = j;
            }
            w => {
                v.push(format!("{w:?}#{}", sent[i].id));
                i += 1;
            }
        }
    }
    format!("[{}]", v.join(", "))
}

fn judge_runs(rs: &RScn, h: &RHist, stall_ms: u64) -> RVerdict {
    let mut v = RVerdict::default();
    let (k, rk) = (rs.kind.name(), rs.rkind.name());
    let p = format!("C04:{k}:unmatched-run:{rk}");
    let healthy = h.trouble.is_none() && h.window.is_none() && h.client_gone.is_none() && h.sentinel_seen;
    let tok_owner: HashMap<&str, usize> = h.ops.iter().enumerate().map(|(i, o)| (o.tok.as_str(), i)).collect();
    let mut cnt = |k: String, n: u64| v.counts.push((k, n));
    let mut viol: Vec<(String, String)> = vec![];
    let mut inc: Vec<String> = vec![];
    let mut anomalies = false;
    let mut timeouts = 0u64;

    if let Some(t) = &h.trouble {
        inc.push(format!("unmatched-run case #{} ({k}/{}, {rk}) cut short by harness trouble: {t} (stall {stall_ms} ms)", rs.index, rs.mode.name()));
        anomalies = true;
    }
    for (id, op) in &h.dup_ids {
        viol.push((format!("C04:{k}:duplicate-request-id"), format!("request id {id} (op {op}, token {}) had already been used on this connection", h.ops[*op].tok)));
    }
    for b in &h.batches {
        if let Some(l) = b.returned {
            if l != b.len {
                viol.push((format!("C04:{k}:batch:result-count"), format!("batch_json{} of {} requests returned {l} results", if b.with_timeout { "_with_timeout" } else { "" }, b.len)));
            }
        }
    }
    // what the reader saw of the runs
    let run_ids: HashSet<u64> = h.sent.iter().filter(|s| matches!(s.what, PWhat::Run(..))).map(|s| s.id).collect();
    let run_frames = h.sent.iter().filter(|s| matches!(s.what, PWhat::Run(..))).count();
    let received_total = h.events.iter().filter(|e| e.0 == P_RECEIVED).count();
    let first_run_pos = h.sent.iter().position(|s| matches!(s.what, PWhat::Run(..)));
    let note = format!(
        "runs sent (responses before, length, calls of the wave still in flight): {:?}; the fake server wrote {} frame(s) in all, never closed the connection and built every frame with the independent codec; the client's reader announced {} frame(s){}; frames: {}",
        h.runs_sent,
        h.sent.len(),
        received_total,
        match &h.client_gone {
            Some(e) => format!("; the fake server then saw the CLIENT end the connection (`{e}`)"),
            None => String::new(),
        },
        show_psent(&h.sent)
    );
    let _ = run_ids;

    for (i, o) in h.ops.iter().enumerate() {
        let role = match o.wave {
            0 => "warmup",
            1 => "inflight",
            _ => "later",
        };
        let unit = if o.batch.is_some() { "batch-slot" } else { "call" };
        let who = format!("{role} {unit} op {i} (api {:?}{}, request id {:?}, token {})", o.api, match o.batch {
            Some(b) => format!(", position {} of batch_json{}", i - h.batches[b].first, if h.batches[b].with_timeout { "_with_timeout" } else { "" }),
            None => String::new(),
        }, o.id, o.tok);
        let resp_pos = h.sent.iter().position(|s| s.what == PWhat::Resp(i));
        let out = h.outs[i].as_ref().filter(|x| !x.late);
        match out.map(|x| &x.res) {
            None => {
                anomalies = true;
                if h.trouble.is_none() {
                    timeouts += 1;
                }
                let late = match &h.outs[i] {
                    Some(x) => format!("returned only after the harness shut the socket: {}", show_out(&Some(x.clone()))),
                    None => "never returned".into(),
                };
                // logical evidence: the reader went into a run and did not come out although the response was on the wire
                let stopped = match (resp_pos, first_run_pos) {
                    (Some(rp), Some(fr)) => received_total <= rp && received_total > fr && rp > fr,
                    _ => false,
                };
                if stopped && h.trouble.is_none() && stall_ms <= 1000 && o.wave > 0 {
                    viol.push((
                        format!("{p}:{role}-{unit}-never-returned:reader-stopped-in-run"),
                        format!("{who} {late}; its response was frame #{} the fake server wrote, the reader announced only {received_total} frame(s): it took frames of a run (first run frame is #{}) and then stopped reading, no machine stall ({stall_ms} ms); {note}", resp_pos.unwrap() + 1, first_run_pos.unwrap() + 1),
                    ));
                } else {
                    inc.push(format!("unmatched-run #{} {k}: {who} {late} inside the harness bound (response written: {}, reader announced {received_total} frame(s), stall {stall_ms} ms, window: {:?})", rs.index, resp_pos.is_some(), h.window));
                }
            }
            Some(Res::NotifyOk) => inc.push(format!("{who}: harness confusion, NotifyOk for a call")),
            Some(Res::Body { hdr, body }) => {
                let kk = body.get("k").and_then(|x| x.as_str()).unwrap_or("?");
                let tok = body.get("tok").and_then(|x| x.as_str()).unwrap_or("?");
                let mut good = tok == o.tok && kk == "resp" && body.get("id").and_then(|x| x.as_u64()) == o.id && o.id.is_some();
                if let Some((hid, hn, hec)) = hdr {
                    good &= Some(*hid) == o.id && *hn == 0 && *hec == 0;
                }
                if good {
                    cnt(format!("unmatched_run_{role}_{}s_returned_own_response", unit.replace('-', "_")), 1);
                } else {
                    anomalies = true;
                    let what = match kk {
                        "notify" => "notify-frame-satisfied-call",
                        "unk" => "unmatched-frame-delivered",
                        _ if matches!(hdr, Some((_, nf, _)) if *nf != 0) => "notify-frame-satisfied-call",
                        "resp" if tok_owner.contains_key(tok) && o.batch.is_some() => "misaligned",
                        "resp" if tok_owner.contains_key(tok) => "got-other-calls-response",
                        _ => "foreign-response",
                    };
                    let other = tok_owner.get(tok).map(|j| format!("op {j} (request id {:?})", h.ops[*j].id)).unwrap_or_else(|| format!("token {tok}"));
                    viol.push((format!("{p}:{role}-{unit}:{what}"), format!("{who} returned header {hdr:?} body {body}, which belongs to {other}; {note}")));
                }
            }
            Some(Res::Err(e)) => {
                anomalies = true;
                if let Some((expected, got)) = e.mismatch {
                    viol.push((format!("{p}:{role}-{unit}:got-frame-of-other-id"), format!("{who} failed with ResponseIdMismatch(expected {expected}, got {got}); {note}")));
                } else if e.class == "Io.AlreadyExists" {
                    viol.push((format!("C04:{k}:duplicate-request-id:reported-by-client"), format!("{who} was refused by the client with `{}` (io kind AlreadyExists): two calls on one connection were given the same request id", e.text)));
                } else if e.class == "Io.TimedOut" {
                    timeouts += 1;
                    inc.push(format!("unmatched-run #{} {k}: {who} timed out (`{}`), no logical evidence of mis-delivery (stall {stall_ms} ms)", rs.index, e.text));
                } else if h.trouble.is_some() {
                    // already reported as harness trouble
                } else if o.wave == 0 {
                    inc.push(format!("unmatched-run #{} {k}: {who} failed with `{}` before any run was sent", rs.index, e.text));
                } else if h.runs_sent.is_empty() {
                    inc.push(format!("unmatched-run #{} {k}: {who} failed with `{}` although no run had been sent yet", rs.index, e.text));
                } else {
                    let answered = match resp_pos {
                        Some(rp) => format!("its own response was frame #{} the fake server wrote", rp + 1),
                        None if o.id.is_some() => "its request had reached the fake server".to_string(),
                        None => "its request never reached the fake server".to_string(),
                    };
                    viol.push((
                        format!("{p}:{role}-{unit}-failed"),
                        format!("{who} returned the error `{}` ({}) instead of its own response; {answered}; {note}", e.text, e.class),
                    ));
                }
            }
        }
    }

    // the WebSocket subscriber gets exactly the notify frames, in order
    if rs.kind == Kind::W {
        let want: Vec<u64> = h.sent.iter().filter(|s| s.notify).map(|s| s.seq).collect();
        let mut got: Vec<u64> = vec![];
        for (id, nf, body) in &h.sub_items {
            if body.get("k").and_then(|x| x.as_str()) != Some("notify") || *nf == 0 {
                viol.push(("C04:ws:subscriber-got-non-notify".into(), format!("the notify subscriber received a frame with id {id}, notify flag {nf}, body {body}")));
            } else {
                got.push(body.get("seq").and_then(|x| x.as_u64()).unwrap_or(0));
            }
        }
        if got == want {
            cnt("unmatched_run_notify_frames_received_by_ws_subscriber_in_order".into(), got.len() as u64);
        } else {
            anomalies = true;
            let (mut gs, mut ws) = (got.clone(), want.clone());
            gs.sort();
            ws.sort();
            let short = |x: &[u64]| format!("{} item(s), first {:?}", x.len(), &x[..x.len().min(12)]);
            if gs == ws {
                viol.push(("C04:ws:notify-reordered".into(), format!("subscriber received notify seq {}, server pushed {}", short(&got), short(&want))));
            } else if got.iter().any(|g| !want.contains(g)) || has_dup(&got) {
                viol.push(("C04:ws:notify-duplicated-or-foreign".into(), format!("subscriber received notify seq {}, server pushed {}", short(&got), short(&want))));
            } else if healthy {
                viol.push(("C04:ws:notify-not-delivered-to-subscriber".into(), format!("subscriber received notify seq {}, server pushed {}; the reader had processed everything (sentinel seen)", short(&got), short(&want))));
            } else {
                inc.push(format!("ws: subscriber got {} of {} pushed frames on an unhealthy connection", got.len(), want.len()));
            }
        }
    } else if !h.sub_items.is_empty() {
        inc.push("harness confusion: a TCP client has a notify subscriber".into());
    }
    if h.window.is_some() && viol.is_empty() && timeouts == 0 {
        inc.push(format!("unmatched-run #{} {k}: {} (stall {stall_ms} ms)", rs.index, h.window.clone().unwrap()));
        anomalies = true;
    }
    if h.client_gone.is_some() {
        anomalies = true;
        cnt("unmatched_run_cases_in_which_the_client_ended_the_connection".into(), 1);
        if viol.is_empty() && h.trouble.is_none() {
            inc.push(format!("unmatched-run #{} {k}: the client ended the connection ({}) but no call was seen to fail", rs.index, h.client_gone.clone().unwrap()));
        }
    }
    if !h.sentinel_seen && h.trouble.is_none() && h.window.is_none() && h.client_gone.is_none() && viol.is_empty() && timeouts == 0 {
        inc.push(format!("unmatched-run #{} {k}: sentinel frame not seen by the client's reader within 10 s (stall {stall_ms} ms)", rs.index));
        anomalies = true;
    }
    // evidence
    cnt(format!("unmatched_run_cases_{k}_{}", rs.mode.name()), 1);
    cnt(format!("unmatched_run_cases_kind_{}", rk.replace('-', "_")), 1);
    cnt(format!("unmatched_run_cases_placement_{}", rs.placement()), 1);
    for (_, len, inflight) in &h.runs_sent {
        // the five lengths every (client, mode, kind) is run with are counted one by one, the others in two buckets
        let lname = if RUN_LENS.contains(len) { format!("len_{len}") } else if *len < 16 { "len_other_below_16".to_string() } else { "len_other_16_or_more".to_string() };
        cnt(format!("unmatched_runs_sent_{}_{lname}", rk.replace('-', "_")), 1);
        cnt(format!("unmatched_runs_sent_{k}_{lname}"), 1);
        cnt(format!("unmatched_runs_sent_with_{inflight}_calls_in_flight"), 1);
        if *len >= 16 {
            cnt("unmatched_runs_sent_of_16_or_more".into(), 1);
        }
    }
    for s in &h.sent {
        if let PWhat::Run(_, sub) = s.what {
            cnt(format!("unmatched_run_frames_sent_{}", sub.name()), 1);
        }
    }
    cnt("unmatched_run_frames_sent".into(), run_frames as u64);
    cnt("unmatched_run_frames_announced_by_client_reader".into(), h.events.iter().filter(|e| e.0 == P_RECEIVED && e.1 < SENT_BASE).count() as u64);
    if h.fence_seen {
        cnt("unmatched_run_fences_seen_before_later_calls".into(), 1);
    }
    if h.later_issued {
        cnt("unmatched_run_cases_with_later_calls_issued".into(), 1);
    }
    if healthy && viol.is_empty() && !anomalies {
        cnt("unmatched_run_cases_all_calls_own_response_connection_alive".into(), 1);
    }
    v.violations = viol;
    v.inconclusive = inc;
    v.anomalies = anomalies;
    v.timeouts = timeouts;
    v
}

pub(super) struct FamState {
    pub conns: HashMap<Kind, Conn>,
    pub anomalies: u64,
    pub ran: u64,
}

/// Run and judge one case. Returns false when the family must stop.
fn exec_runs(st: &mut Stage, fam: &mut FamState, rs: &RScn) -> bool {
    if st.stop.is_some() {
        return false;
    }
    if Instant::now() >= st.deadline {
        st.stop = Some("stage time budget used up".into());
        return false;
    }
    if fam.conns.get(&rs.kind).map(|c| c.scenarios >= 150).unwrap_or(false) {
        drop_conn(fam.conns.remove(&rs.kind).unwrap(), st.ctx.rt);
        st.rep.count("connections_closed_after_reuse", 1);
    }
    if !fam.conns.contains_key(&rs.kind) {
        match connect_retry(rs.kind, st.ctx.rt) {
            Ok(c) => {
                st.rep.count(&format!("connections_{}_unmatched_run", rs.kind.name()), 1);
                fam.conns.insert(rs.kind, c);
            }
            Err(e) => {
                st.connect_failures += 1;
                st.rep.inconclusive(format!("could not set up a {} connection for the unmatched-run cases: {e}", rs.kind.name()));
                if st.connect_failures >= 3 {
                    st.stop = Some("repeated connection set-up failures".into());
                }
                return st.stop.is_none();
            }
        }
    }
    let mut conn = fam.conns.remove(&rs.kind).unwrap();
    let t0 = Instant::now();
    st.hb.reset();
    let h = run_runs(&mut conn, &mut st.ctx, rs);
    let stall = st.hb.max_gap_ms();
    st.max_scn_ms = st.max_scn_ms.max(t0.elapsed().as_millis() as u64);
    let v = judge_runs(rs, &h, stall);
    fam.ran += 1;

    let rep = &mut st.rep;
    rep.eval();
    rep.count("scenarios_family_unmatched_run", 1);
    rep.count("unmatched_run_request_frames_seen_by_fake_server", h.wire.len() as u64);
    rep.count("probe_events_recorded", h.events.len() as u64);
    for (k, n) in &v.counts {
        rep.count(k, *n);
    }
    let prev = rep.get_count("unmatched_run_longest_run");
    let longest = h.runs_sent.iter().map(|r| r.1).max().unwrap_or(0) as u64;
    if longest > prev {
        rep.set("unmatched_run_longest_run", json!(longest));
    }
    let op_of_id: HashMap<u64, usize> = h.ops.iter().enumerate().filter_map(|(i, o)| Some((o.id?, i))).collect();
    let rel: Vec<(u8, u64)> = h.events.iter().filter(|e| op_of_id.contains_key(&e.1)).map(|e| (e.0, op_of_id[&e.1] as u64)).collect();
    let full = hash_of(&rel);
    st.il_full.insert(full);
    st.il_by_kind.entry(rs.kind).or_default().insert(full);
    st.scripts.insert(hash_of(&("unmatched-run", rs.identity())));
    rep.distinct(&("unmatched-run-script", rs.identity()));
    rep.distinct(&("unmatched-run-interleaving", rs.kind, full));
    if rep.samples.len() < rep.max_samples && rs.index % 53 == 11 {
        rep.sample(json!({
            "scenario": rs.to_json(st.seed),
            "frames_sent": show_psent(&h.sent),
            "reader_announced_frames": h.events.iter().filter(|e| e.0 == P_RECEIVED).count(),
            "ops": h.ops.iter().enumerate().map(|(i, o)| json!({"op": i, "wave": o.wave, "id": o.id, "outcome": show_out(&h.outs[i])})).collect::<Vec<_>>(),
        }));
    }
    for (sig, detail) in v.violations {
        let detail = format!("[unmatched-run #{} {}/{} {} n={}] {detail}", rs.index, rs.kind.name(), rs.mode.name(), rs.rkind.name(), rs.n);
        let mut replay = rs.to_json(st.seed);
        replay["stage"] = json!(st.rep.stage);
        st.rep.violation(sig, detail, replay);
    }
    for i in v.inconclusive {
        st.rep.inconclusive(i);
    }
    st.timeouts += v.timeouts;
    if v.anomalies || matches!(conn.srv, Srv::Closed) {
        st.rep.count("connections_abandoned_after_anomaly", 1);
        drop_conn(conn, st.ctx.rt);
        fam.anomalies += 1;
    } else {
        fam.conns.insert(rs.kind, conn);
    }
    if st.timeouts >= 3 {
        st.stop = Some("three calls did not return inside the window; stopping early".into());
    }
    if st.rep.violations.len() >= 12 {
        st.stop = Some("twelve distinct violations recorded; stopping early".into());
    }
    // enough witnesses; an anomalous case may cost a full window
    st.stop.is_none() && fam.anomalies < 10
}

pub(super) fn run_family(st: &mut Stage, args: &Args, index: &mut u64) {
    let mut r = Rng::new(args.seed ^ 0x0052_554E_5F31);
    let mut fam = FamState { conns: HashMap::new(), anomalies: 0, ran: 0 };
    // every (client, mode, kind, required length); the placement cycles so that every (client, length) pair meets all
    let mut plan: Vec<(Kind, Mode, RKind, usize, u8)> = vec![];
    let mut c = 0usize;
    for kind in [Kind::B, Kind::A, Kind::W] {
        for mode in [Mode::Calls, Mode::Batch] {
            for rkind in RKind::ALL {
                for len in RUN_LENS {
                    plan.push((kind, mode, rkind, len, (c % 4) as u8));
                    c += 1;
                }
                // the cycle must not lock a length to one placement
                c += 1;
            }
        }
    }
    // controls below the lengths above, and other lengths
    let extra = args.budget(60, 1800) * if args.stage == "unmatched-run" { 10 } else { 1 };
    for _ in 0..extra {
        let kind = *r.pick(&[Kind::B, Kind::A, Kind::W]);
        let mode = if r.chance(1, 3) { Mode::Batch } else { Mode::Calls };
        let len = if args.thorough() && r.coin() { 1 + r.usize_below(320) } else { *r.pick(&[1usize, 2, 15, 16, 17, 18, 31, 32, 33, 40, 64, 65, 100, 128, 200, 255, 256, 257, 500, 1000]) };
        plan.push((kind, mode, *r.pick(&RKind::ALL), len, r.below(4) as u8));
    }
    r.shuffle(&mut plan);
    'outer: for (kind, mode, rkind, len, place) in plan {
        *index += 1;
        let rs = make_rscn(*index, kind, mode, rkind, len, place, &mut r);
        match st.only {
            None => {
                if !exec_runs(st, &mut fam, &rs) {
                    break;
                }
            }
            Some(("unmatched-run", i)) if i == rs.index => {
                for rep_i in 0..200u64 {
                    let mut again = rs.clone();
                    if rep_i > 0 {
                        again.salt = mix(rs.salt ^ rep_i);
                        again.delays = true;
                    }
                    if !exec_runs(st, &mut fam, &again) {
                        break 'outer;
                    }
                }
            }
            Some(_) => {}
        }
    }
    for (_, c) in fam.conns.drain() {
        drop_conn(c, st.ctx.rt);
    }
    if fam.anomalies >= 10 {
        st.rep.set("unmatched_run_family_stopped_after_anomalies", json!(fam.anomalies));
    }
    if fam.ran > 0 && st.only.is_none() && st.stop.is_none() && fam.anomalies == 0 && st.rep.get_count("unmatched_runs_sent_of_16_or_more") == 0 {
        st.rep.inconclusive("unmatched-run: no run of 16 or more unmatched frames was sent in this run");
    }
}
