// C04 family `batch-connection-loss`: the connection dies while a batch call is partly answered.
//
// "A batch call returns results positionally aligned with its requests": that includes the batch whose connection is
// lost half way. The fake server collects the requests of ONE `batch_json` / `batch_json_with_timeout` call, answers an
// arbitrary (as a rule NON-prefix) subset of them in an arbitrary order, and then ends the connection while the rest
// is unanswered:
//
//   fin-write     shutdown(SHUT_WR): FIN after the data, the socket stays open for reading
//   fin-both      shutdown(SHUT_RDWR) + close   } both only after the kernel reports an empty send queue (SIOCOUTQ == 0:
//   rst           SO_LINGER 0 + close: RST      } every response byte has been acknowledged by the client's kernel, so
//                 it sits in the client's receive queue and is read before the end of the stream / the reset is
//                 reported). Without that wait a close() that finds unread request bytes (blocking client, next chunk
//                 of a batch larger than its worker pool) is abortive and discards untransmitted response bytes: the
//                 harness, not the client, would have lost the responses (seen in many-seed runs, fixed by the wait).
//   ws-close      WebSocket close frame after the responses, the stream is dropped once the batch has returned
//
// The response frames were completely written before the close, the client's reader is sequential, so it dispatches
// every one of them before it sees the end of the stream. Oracle (`judge_cut`): the batch returns exactly n results;
// every position whose response was sent before the close holds that position's own token (Ok), every other position
// holds an error; nothing else. A client that, after the first worker reports the lost connection, stops waiting for
// the remaining workers and fills their positions with a synthesized error loses the delivered response of a request
// LATER in the batch: [/a, /b, /c], server answers /c then /a then closes -> [Ok(a), Err, Ok(c)], never [Ok(a), Err, Err].
//
// The blocking client runs a batch on min(n, 4 * parallelism clamped to 1..64) worker threads which take the requests
// from a queue in order: with more requests than workers only the first `cap` requests are in flight at first. That is
// modelled exactly: the fake server collects `min(n, cap)` requests (positions 0 .. cap-1), answers a subset of those and
// closes; the positions of later chunks were never answered and must hold errors.
//
// Verdicts do not lean on time: a batch that does not return inside the window is inconclusive.

use super::runs::{PBatch, POp, PRun, PSent, PWhat, PWire};
use super::*;

#[derive(Clone, Copy, PartialEq, Eq, Hash, Debug)]
pub(super) enum CloseHow {
    FinWrite,
    FinBoth,
    Rst,
    WsCloseFrame,
}

impl CloseHow {
    fn name(self) -> &'static str {
        match self {
            CloseHow::FinWrite => "fin_write",
            CloseHow::FinBoth => "fin_both",
            CloseHow::Rst => "rst",
            CloseHow::WsCloseFrame => "ws_close_frame",
        }
    }
}

#[derive(Clone, Debug)]
pub(super) struct CutScn {
    index: u64,
    kind: Kind,
    n: usize,
    with_timeout: bool,
    /// how many of the n requests the fake server waits for (n, or the blocking client's worker cap)
    expect: usize,
    /// positions answered before the close, in the order they are answered
    answered: Vec<usize>,
    shape: &'static str,
    how: CloseHow,
    /// unknown-id frames sprinkled between the answers
    extras: usize,
    wmode: u8,
    salt: u64,
    delays: bool,
}

impl CutScn {
    fn identity(&self) -> (Kind, usize, bool, usize, &[usize], CloseHow, usize, u8) {
        (self.kind, self.n, self.with_timeout, self.expect, &self.answered, self.how, self.extras, self.wmode)
    }
    fn to_json(&self, seed: u64) -> Value {
        json!({
            "seed": seed, "family": "batch-connection-loss", "index": self.index, "client": self.kind.name(), "n": self.n,
            "api": if self.with_timeout { "batch_json_with_timeout" } else { "batch_json" }, "requests_collected_before_answering": self.expect,
            "positions_answered_in_order": self.answered, "shape": self.shape, "close": self.how.name(), "unknown_id_extras": self.extras,
            "wmode": self.wmode, "salt": self.salt, "delays": self.delays,
        })
    }
    /// answered positions that have an unanswered position before them: the ones a "stop at the first failure" loses
    fn answered_after_gap(&self) -> usize {
        let first_gap = (0..self.n).find(|i| !self.answered.contains(i)).unwrap_or(self.n);
        self.answered.iter().filter(|a| **a > first_gap).count()
    }
}

pub(super) fn make_cut(index: u64, kind: Kind, big: bool, rng: &mut Rng) -> CutScn {
    let cap = blocking_batch_cap();
    let n = if big && kind == Kind::B {
        cap + 1 + rng.usize_below(24)
    } else if big {
        24 + rng.usize_below(60)
    } else {
        match rng.below(8) {
            0 => 2,
            1 | 2 => 3,
            3..=5 => 4 + rng.usize_below(6),
            _ => 10 + rng.usize_below(15),
        }
    };
    let expect = if kind == Kind::B { n.min(cap) } else { n };
    let (mut set, shape): (Vec<usize>, &'static str) = match rng.below(10) {
        0 => (vec![expect - 1], "last-only"),
        1 => ((1..expect).collect(), "all-but-first"),
        2 => ((0..expect).filter(|i| i % 2 == 1).collect(), "odd-positions"),
        3 => ((0..expect).filter(|i| *i != expect / 2).collect(), "all-but-one-in-the-middle"),
        4 if rng.chance(1, 3) => (vec![], "none"),
        5 if rng.chance(1, 3) => ((0..1 + rng.usize_below(expect - 1)).collect(), "prefix"),
        _ => {
            let mut all: Vec<usize> = (0..expect).collect();
            rng.shuffle(&mut all);
            let k = 1 + rng.usize_below(expect - 1);
            all.truncate(k);
            (all, "random-subset")
        }
    };
    // as a rule NOT a prefix: swap the first answered position out for a later one
    if shape == "random-subset" {
        set.sort();
        let is_prefix = set.iter().enumerate().all(|(i, s)| i == *s);
        if is_prefix && set.len() < expect {
            let last = set.len() - 1;
            set[last] = set.len() + rng.usize_below(expect - set.len());
        }
    }
    rng.shuffle(&mut set);
    let how = match kind {
        Kind::W => *rng.pick(&[CloseHow::FinWrite, CloseHow::FinBoth, CloseHow::Rst, CloseHow::WsCloseFrame, CloseHow::WsCloseFrame]),
        _ => *rng.pick(&[CloseHow::FinWrite, CloseHow::FinBoth, CloseHow::Rst]),
    };
    CutScn { index, kind, n, with_timeout: rng.coin(), expect, answered: set, shape, how, extras: if rng.chance(1, 3) { 1 + rng.usize_below(4) } else { 0 }, wmode: rng.below(3) as u8, salt: rng.next_u64(), delays: rng.chance(1, 2) }
}

pub(super) struct CutHist {
    ops: Vec<POp>,
    outs: Vec<Option<Out>>,
    wire: Vec<PWire>,
    sent: Vec<PSent>,
    batches: Vec<PBatch>,
    dup_ids: Vec<(u64, usize)>,
    events: Vec<(u8, u64)>,
    trouble: Option<String>,
    window: Option<String>,
    /// the close was carried out after every answer had been written
    closed: bool,
    /// bytes the kernel still held unsent/unacknowledged right before the close (Rst: 0 by construction)
    outq_before_close: Option<i32>,
}

fn outq(fd: i32) -> Option<i32> {
    let mut n: libc::c_int = 0;
    let r = unsafe { libc::ioctl(fd, libc::TIOCOUTQ, &mut n as *mut libc::c_int) };
    if r == 0 { Some(n) } else { None }
}

/// Until the kernel reports an empty send queue: every byte written so far has been acknowledged by the peer's kernel.
fn wait_outq_empty(fd: i32) -> Result<(), String> {
    let until = Instant::now() + Duration::from_secs(5);
    loop {
        match outq(fd) {
            Some(0) => return Ok(()),
            Some(_) if Instant::now() < until => std::thread::yield_now(),
            Some(k) => return Err(format!("{k} response byte(s) still unacknowledged after 5 s, connection not closed as scripted")),
            None => return Err("SIOCOUTQ is not available, connection not closed as scripted".into()),
        }
    }
}

fn srv_fd(srv: &Srv) -> Option<i32> {
    match srv {
        Srv::Tcp { s, .. } => Some(s.as_raw_fd()),
        Srv::Ws { ws } => Some(ws.get_ref().as_raw_fd()),
        Srv::Closed => None,
    }
}

/// End the connection from the fake server's side. Err: harness trouble (the close was not carried out as scripted).
fn close_how(run: &mut PRun, how: CloseHow, outq_seen: &mut Option<i32>) -> Result<(), String> {
    let fd = srv_fd(&run.conn.srv).ok_or_else(|| "server side already closed".to_string())?;
    *outq_seen = outq(fd);
    run.server_closed = true;
    match how {
        CloseHow::FinWrite => {
            if unsafe { libc::shutdown(fd, libc::SHUT_WR) } != 0 {
                return Err(format!("shutdown(SHUT_WR): {}", std::io::Error::last_os_error()));
            }
            Ok(())
        }
        CloseHow::FinBoth => {
            // close() on a socket that holds unread bytes (the blocking client's workers send the requests of the next
            // chunk as soon as they have an answer) is abortive: the kernel sends a reset and DISCARDS whatever part of
            // the responses it has not transmitted yet (only ten segments go out before the first acknowledgement).
            // "Completely written before the close" must mean "in the client's receive queue": wait for that.
            wait_outq_empty(fd)?;
            *outq_seen = Some(0);
            run.conn.srv.close(run.ctx.rt);
            Ok(())
        }
        CloseHow::Rst => {
            // the reset must not overtake or discard response bytes: wait until the client's kernel has them all
            wait_outq_empty(fd)?;
            *outq_seen = Some(0);
            let lg = libc::linger { l_onoff: 1, l_linger: 0 };
            let r = unsafe { libc::setsockopt(fd, libc::SOL_SOCKET, libc::SO_LINGER, &lg as *const _ as *const libc::c_void, std::mem::size_of::<libc::linger>() as u32) };
            if r != 0 {
                return Err(format!("setsockopt(SO_LINGER): {}", std::io::Error::last_os_error()));
            }
            let old = std::mem::replace(&mut run.conn.srv, Srv::Closed);
            let _g = run.ctx.rt.enter();
            drop(old);
            Ok(())
        }
        CloseHow::WsCloseFrame => match &mut run.conn.srv {
            Srv::Ws { ws } => run.ctx.rt.block_on(async {
                match tokio::time::timeout(Duration::from_secs(5), ws.send(WsMsg::Close(None))).await {
                    Ok(Ok(())) => Ok(()),
                    Ok(Err(e)) => Err(format!("sending the close frame: {e}")),
                    Err(_) => Err("sending the close frame timed out".into()),
                }
            }),
            _ => Err("close frame on a TCP connection".into()),
        },
    }
}

fn run_cut(conn: &mut Conn, ctx: &mut Ctx, cs: &CutScn) -> CutHist {
    let rng = Rng::new(ctx.seed ^ cs.salt.rotate_left(13) ^ 0x0C04_C07);
    LOG.lock().unwrap_or_else(|e| e.into_inner()).clear();
    SALT.store(cs.salt, Ordering::Relaxed);
    DELAYS.store(cs.delays, Ordering::Relaxed);
    let mut run = PRun::new(conn, ctx, cs.index, rng, cs.wmode);
    let mut window: Option<String> = None;
    let mut closed = false;
    let mut outq_before_close: Option<i32> = None;
    let ops: Vec<usize> = (0..cs.n).map(|_| run.add_op(1, if cs.with_timeout { Api::JsonT } else { Api::Json })).collect();
    let trouble = (|| -> Result<(), String> {
        run.spawn_batch(0, cs.n, cs.with_timeout);
        let first: Vec<usize> = (0..cs.expect).collect();
        if !run.pump(&first, &[], Duration::from_secs(8))? {
            window = Some(format!("only {} of the {} requests the batch can have in flight reached the fake server inside 8 s", run.wire.len(), cs.expect));
            return Ok(());
        }
        if first.iter().any(|o| !run.on_wire(*o)) {
            return Err("the batch returned before its requests reached the fake server (nothing had been sent to the client yet)".into());
        }
        let mut out: Vec<Vec<u8>> = vec![];
        let mut extras_left = cs.extras;
        for (i, a) in cs.answered.iter().enumerate() {
            if extras_left > 0 && run.rng.chance(1, 2) {
                extras_left -= 1;
                let uid = (1u64 << 40) + run.rng.below(1 << 20);
                out.push(mk_frame(uid, false, b"/c04/unknown", &json!({"id": uid, "tok": format!("unk-{}-{i}", cs.index), "k": "unk"})));
                run.sent.push(PSent { what: PWhat::Extra, id: uid, notify: false, seq: 0 });
            }
            let f = run.resp_frame(*a);
            out.push(f);
        }
        run.send(&mut out)?;
        close_how(&mut run, cs.how, &mut outq_before_close)?;
        closed = true;
        Ok(())
    })()
    .err();
    if !(trouble.is_none() && window.is_none() && run.wait_results(&ops, CALL_WINDOW, false)) {
        if trouble.is_none() && window.is_none() {
            window = Some(format!("the batch did not return inside {} s after the connection was closed", CALL_WINDOW.as_secs()));
        }
        run.conn.srv.close(run.ctx.rt);
        run.server_closed = true;
        run.wait_results(&ops, Duration::from_secs(6), true);
    }
    run.conn.srv.close(run.ctx.rt);
    DELAYS.store(false, Ordering::Relaxed);
    let events = std::mem::take(&mut *LOG.lock().unwrap_or_else(|e| e.into_inner()));
    run.conn.scenarios += 1;
    CutHist { ops: run.ops, outs: run.outs, wire: run.wire, sent: run.sent, batches: run.batches, dup_ids: run.dup_ids, events, trouble, window, closed, outq_before_close }
}

fn judge_cut(cs: &CutScn, h: &CutHist, stall_ms: u64) -> runs::RVerdict {
    let mut v = runs::RVerdict::default();
    let k = cs.kind.name();
    let p = format!("C04:{k}:batch-connection-loss");
    let api = if cs.with_timeout { "batch_json_with_timeout" } else { "batch_json" };
    let mut viol: Vec<(String, String)> = vec![];
    let mut inc: Vec<String> = vec![];
    let mut counts: Vec<(String, u64)> = vec![];
    let mut cnt = |k: String, n: u64| counts.push((k, n));
    let tok_owner: HashMap<&str, usize> = h.ops.iter().enumerate().map(|(i, o)| (o.tok.as_str(), i)).collect();
    for (id, op) in &h.dup_ids {
        viol.push((format!("C04:{k}:duplicate-request-id"), format!("request id {id} (position {op}, token {}) had already been used on this connection", h.ops[*op].tok)));
    }
    cnt(format!("batch_cut_cases_{k}"), 1);
    if let Some(t) = &h.trouble {
        inc.push(format!("batch-connection-loss case #{} ({k}, n={}) cut short by harness trouble: {t} (stall {stall_ms} ms)", cs.index, cs.n));
    }
    if let Some(w) = &h.window {
        inc.push(format!("batch-connection-loss case #{} ({k}, {api}, n={}, close {}): {w} (stall {stall_ms} ms)", cs.index, cs.n, cs.how.name()));
        v.timeouts = 1;
    }
    let returned = h.batches.first().and_then(|b| b.returned);
    let late = h.outs.iter().flatten().any(|o| o.late);
    if h.trouble.is_none() && h.window.is_none() && h.closed && !late {
        if let Some(l) = returned {
            // the positions answered before the close, as the fake server really wrote them
            let answered: Vec<usize> = h.sent.iter().filter_map(|s| if let PWhat::Resp(o) = s.what { Some(o) } else { None }).collect();
            let first_gap = (0..cs.n).find(|i| !answered.contains(i)).unwrap_or(cs.n);
            let script = format!(
                "{api} of {} requests; the fake server had collected {} request(s) (positions {:?}), answered positions {:?} in that order, every response frame completely written (send queue before the close: {:?} byte(s)), then closed the connection ({}); results: [{}]",
                cs.n,
                h.wire.len(),
                h.wire.iter().map(|w| w.op).collect::<Vec<_>>(),
                answered,
                h.outq_before_close,
                cs.how.name(),
                h.outs.iter().enumerate().map(|(i, o)| format!("{i}: {}", match o {
                    Some(Out { res: Res::Body { body, .. }, .. }) => format!("Ok(tok {})", body.get("tok").and_then(|t| t.as_str()).unwrap_or("?")),
                    Some(Out { res: Res::Err(e), .. }) => format!("Err({})", e.class),
                    _ => "?".into(),
                })).collect::<Vec<_>>().join(", ")
            );
            if l != cs.n {
                viol.push((format!("C04:{k}:batch:result-count"), format!("{api} of {} requests returned {l} results; {script}", cs.n)));
            }
            cnt("batch_cut_batches_cut_and_returned".into(), 1);
            cnt(format!("batch_cut_close_{}", cs.how.name()), 1);
            cnt(format!("batch_cut_api_{api}"), 1);
            cnt(format!("batch_cut_shape_{}", cs.shape.replace('-', "_")), 1);
            if cs.n > cs.expect {
                cnt("batch_cut_blocking_batches_above_worker_pool".into(), 1);
            }
            for i in 0..cs.n.min(l) {
                let o = &h.ops[i];
                let was_answered = answered.contains(&i);
                let who = format!("position {i} (path /c04/r{i}, request id {:?}, token {})", o.id, o.tok);
                match h.outs[i].as_ref().map(|x| &x.res) {
                    Some(Res::Body { hdr, body }) => {
                        let tok = body.get("tok").and_then(|x| x.as_str()).unwrap_or("?");
                        let good = tok == o.tok && body.get("k").and_then(|x| x.as_str()) == Some("resp") && body.get("id").and_then(|x| x.as_u64()) == o.id && o.id.is_some();
                        if good && was_answered {
                            cnt("batch_cut_answered_positions_returned_own_token".into(), 1);
                            if i > first_gap {
                                cnt("batch_cut_answered_positions_behind_a_failed_one_returned_own_token".into(), 1);
                            }
                        } else {
                            let other = tok_owner.get(tok).map(|j| format!("position {j}")).unwrap_or_else(|| format!("token {tok}"));
                            let what = if good { "unanswered-position-returned-a-response" } else if tok_owner.contains_key(tok) { "misaligned" } else { "foreign-response" };
                            viol.push((format!("{p}:{what}"), format!("{who} (answered before the close: {was_answered}) returned header {hdr:?} body {body}, which belongs to {other}; {script}")));
                        }
                    }
                    Some(Res::Err(e)) => {
                        cnt(format!("batch_cut_error_class_{}", e.class.replace('.', "_")), 1);
                        if let Some((expected, got)) = e.mismatch {
                            viol.push((format!("{p}:got-frame-of-other-id"), format!("{who} failed with ResponseIdMismatch(expected {expected}, got {got}); {script}")));
                        } else if was_answered {
                            let behind = if i > first_gap { format!("a position behind the first unanswered one ({first_gap})") } else { "a position before the first unanswered one".to_string() };
                            viol.push((
                                format!("{p}:answered-position-lost-its-response"),
                                format!("{who}, {behind}, holds the error `{}` ({}) although the fake server had completely written its response before it closed the connection: the delivered response was lost, the batch is not aligned with what the server answered; {script}", e.text, e.class),
                            ));
                        } else {
                            cnt("batch_cut_unanswered_positions_returned_error".into(), 1);
                        }
                    }
                    Some(Res::NotifyOk) | None => inc.push(format!("batch-connection-loss #{}: harness confusion, no result for {who}", cs.index)),
                }
            }
            cnt("batch_cut_positions_answered_before_close".into(), answered.len() as u64);
            cnt("batch_cut_positions_answered_behind_an_unanswered_one".into(), answered.iter().filter(|a| **a > first_gap).count() as u64);
            if answered.iter().any(|a| *a > first_gap) {
                cnt("batch_cut_cases_non_prefix_subset".into(), 1);
            }
            // did the reader really dispatch the answers before it saw the end of the stream?
            let delivered = h.events.iter().filter(|e| e.0 == P_BEFORE_DELIVER).count();
            cnt("batch_cut_responses_delivered_by_reader_before_end_of_stream".into(), delivered as u64);
        } else {
            inc.push(format!("batch-connection-loss #{}: harness confusion, batch neither returned nor timed out", cs.index));
        }
    } else if h.trouble.is_none() && h.window.is_none() {
        inc.push(format!("batch-connection-loss #{} ({k}): the batch returned only after the harness shut everything down", cs.index));
    }
    v.anomalies = !viol.is_empty() || !inc.is_empty();
    v.violations = viol;
    v.inconclusive = inc;
    v.counts = counts;
    v
}

fn exec_cut(st: &mut Stage, anomalies: &mut u64, cs: &CutScn) -> bool {
    if st.stop.is_some() {
        return false;
    }
    if Instant::now() >= st.deadline {
        st.stop = Some("stage time budget used up".into());
        return false;
    }
    // the connection does not survive the case: a fresh one each time (the WebSocket client without a subscriber)
    let mut conn = match connect_retry_opt(cs.kind, st.ctx.rt, false) {
        Ok(c) => c,
        Err(e) => {
            st.connect_failures += 1;
            st.rep.inconclusive(format!("could not set up a {} connection for a batch-connection-loss case: {e}", cs.kind.name()));
            if st.connect_failures >= 3 {
                st.stop = Some("repeated connection set-up failures".into());
            }
            return st.stop.is_none();
        }
    };
    st.rep.count(&format!("connections_{}_batch_connection_loss", cs.kind.name()), 1);
    let t0 = Instant::now();
    st.hb.reset();
    let h = run_cut(&mut conn, &mut st.ctx, cs);
    let stall = st.hb.max_gap_ms();
    st.max_scn_ms = st.max_scn_ms.max(t0.elapsed().as_millis() as u64);
    drop_conn(conn, st.ctx.rt);
    let v = judge_cut(cs, &h, stall);

    let rep = &mut st.rep;
    rep.eval();
    rep.count("scenarios_family_batch_connection_loss", 1);
    rep.count("batch_cut_request_frames_seen_by_fake_server", h.wire.len() as u64);
    rep.count("probe_events_recorded", h.events.len() as u64);
    for (k, n) in &v.counts {
        rep.count(k, *n);
    }
    let prev = rep.get_count("batch_cut_largest_batch");
    if cs.n as u64 > prev {
        rep.set("batch_cut_largest_batch", json!(cs.n));
    }
    let op_of_id: HashMap<u64, usize> = h.ops.iter().enumerate().filter_map(|(i, o)| Some((o.id?, i))).collect();
    let rel: Vec<(u8, u64)> = h.events.iter().filter(|e| op_of_id.contains_key(&e.1)).map(|e| (e.0, op_of_id[&e.1] as u64)).collect();
    let full = hash_of(&rel);
    st.il_full.insert(full);
    st.il_by_kind.entry(cs.kind).or_default().insert(full);
    st.scripts.insert(hash_of(&("batch-connection-loss", cs.identity())));
    rep.distinct(&("batch-connection-loss-script", cs.identity()));
    rep.distinct(&("batch-connection-loss-interleaving", cs.kind, full));
    if rep.samples.len() < rep.max_samples && cs.index % 37 == 5 {
        rep.sample(json!({
            "scenario": cs.to_json(st.seed),
            "answered_positions_behind_an_unanswered_one": cs.answered_after_gap(),
            "results": h.outs.iter().enumerate().map(|(i, o)| json!({"position": i, "outcome": show_out(o)})).collect::<Vec<_>>(),
        }));
    }
    for (sig, detail) in v.violations {
        let detail = format!("[batch-connection-loss #{} {} n={} close={}] {detail}", cs.index, cs.kind.name(), cs.n, cs.how.name());
        let mut replay = cs.to_json(st.seed);
        replay["stage"] = json!(st.rep.stage);
        st.rep.violation(sig, detail, replay);
    }
    for i in v.inconclusive {
        st.rep.inconclusive(i);
    }
    st.timeouts += v.timeouts;
    if v.anomalies {
        *anomalies += 1;
    }
    if st.timeouts >= 3 {
        st.stop = Some("three calls did not return inside the window; stopping early".into());
    }
    if st.rep.violations.len() >= 12 {
        st.stop = Some("twelve distinct violations recorded; stopping early".into());
    }
    st.stop.is_none() && *anomalies < 10
}

pub(super) fn run_family(st: &mut Stage, args: &Args, index: &mut u64) {
    let mut r = Rng::new(args.seed ^ 0x0043_5554_5F42);
    let rounds = args.budget(80, 1200) * if args.stage == "batch-connection-loss" { 10 } else { 1 };
    let mut anomalies = 0u64;
    let mut ran = 0u64;
    'outer: for round in 0..rounds {
        for kind in [Kind::B, Kind::A, Kind::W] {
            *index += 1;
            let cs = make_cut(*index, kind, round % 8 == 7, &mut r);
            match st.only {
                None => {
                    ran += 1;
                    if !exec_cut(st, &mut anomalies, &cs) {
                        break 'outer;
                    }
                }
                Some(("batch-connection-loss", i)) if i == cs.index => {
                    for rep_i in 0..100u64 {
                        let mut again = cs.clone();
                        if rep_i > 0 {
                            again.salt = mix(cs.salt ^ rep_i);
                            again.delays = true;
                        }
                        ran += 1;
                        if !exec_cut(st, &mut anomalies, &again) {
                            break 'outer;
                        }
                    }
                }
                Some(_) => {}
            }
        }
    }
    if anomalies >= 10 {
        st.rep.set("batch_cut_family_stopped_after_anomalies", json!(anomalies));
    }
    if ran > 0 && st.only.is_none() && st.stop.is_none() && anomalies == 0 && st.rep.get_count("batch_cut_positions_answered_behind_an_unanswered_one") == 0 {
        st.rep.inconclusive("batch-connection-loss: no batch was cut with an answered position behind an unanswered one");
    }
}
